#!/usr/bin/env python3
import json,sys
d=json.load(open(sys.argv[1]))
print('events',d['events'],'distinct',d['distinct_nontrivial'],'viol',d['violation_count'],'canaries',d['canaries'],'ops',len(d['ops']),'exh',len(d['exhaustive']),d['notes'],d['inconclusive'])
bad={k:v['violations'] for k,v in d['ops'].items() if v['violations']}
print(len(bad), list(bad.items())[:40])
for v in d['violations'][:int(sys.argv[2]) if len(sys.argv)>2 else 12]: print(' *',v['type'],v['op'],v['kind'],v['tags'],'|',v['input'][:300],'| got',v['got'][:300],'| exp',v['expected'][:300],'|',v['note'])
print('panics_expected',sum(o['panics_expected'] for o in d['ops'].values()),'boundary',sum(o['boundary'] for o in d['ops'].values()))
mr=sorted(((o['max_ratio'],k) for k,o in d['ops'].items() if isinstance(o['max_ratio'],(int,float)) and o['max_ratio']>0),reverse=True)[:15]
print('max ratios',mr)

rt={}
for k,o in d['ops'].items():
    for t,v in o.get('ratios',{}).items():
        if isinstance(v,(int,float)): rt[(k.split('::')[0],t)]=max(rt.get((k.split('::')[0],t),0),v)
print('per-quantity ratios:', sorted(((round(v,3),k) for k,v in rt.items()), reverse=True)[:40])

#!/usr/bin/env python3
"""Print the markdown table of seeded changes (seeded/<id>/meta.json + result.json) for DESIGN.md section 18."""
import json, os, glob, re
ROOT = os.path.dirname(os.path.dirname(os.path.abspath(__file__)))
rows = []
for d in sorted(glob.glob(os.path.join(ROOT, "seeded", "*"))):
    sid = os.path.basename(d)
    meta = json.load(open(os.path.join(d, "meta.json")))
    res = json.load(open(os.path.join(d, "result.json"))) if os.path.exists(os.path.join(d, "result.json")) else None
    note = meta.get("needs_to_manifest", "")
    first = [l for l in note.splitlines() if l.strip()]
    title = re.sub(r"^#+\s*(C\d\d\s*[-/ ]*\s*)?(m\d\s*[-:—]+\s*)*", "", first[0]) if first else ""
    files = sorted(set(re.findall(r"^\+\+\+ b/(\S+)", open(os.path.join(d, "patch.diff")).read(), re.M)))
    caught = "not run"
    if res:
        hits = [(r["property"], r["tier"]) for r in res["runs"] if r["exit"] == 1]
        caught = ", ".join("%s %s" % h for h in hits) if hits else "MISSED"
    hist = meta.get("history", "")
    rows.append("| %s | %s | %s | %s |%s" % (sid, title[:110].replace("|", "/"), ", ".join(f.replace("src/", "") for f in files)[:70], caught, (" " + hist + " |") if hist else " |"))
print("| id | change (author's summary) | file(s) | caught by | first-run miss and what was strengthened |")
print("|----|----|----|----|----|")
print("\n".join(rows))

#!/bin/bash
# Development aid: run every seeded change against its check(s) using a private copy of /repo (quick tier first, thorough only
# if quick is silent), e.g. `vp run -- tools/seeded_all.sh`.  Results land in seeded/<id>/result.json of this tree.
here=$(cd "$(dirname "$0")/.." && pwd)
copy=$(dirname "$here")/repo-copy-$$
rsync -a --exclude target /repo/ "$copy"/
git -C "$copy" checkout -q -- .
export VERIF_REPO="$copy"
cd "$here"
python3 tools/seeded.py "$@" 2>&1 | cut -c1-160
rm -rf "$copy"
echo SEEDED-DONE

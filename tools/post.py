"""Post-processing steps of ./check: offline comparison of recorded traces."""
import os, json, subprocess


def run_textcmp(step, results, wdir, root):
    """byte-for-byte comparison of the serde_json text recorded by different builds"""
    viol = []
    info = {"name": step["name"], "pairs": [], "events": 0, "distinct_nontrivial": 0, "samples": [], "inconclusive": []}
    have = set(r["config"] for (r, s, n, summary, inc, san) in results if summary and not r.get("mode"))
    for a, b in step["pairs"]:
        fa, fb = os.path.join(wdir, "json.%s.txt" % a), os.path.join(wdir, "json.%s.txt" % b)
        if a not in have or b not in have or not os.path.exists(fa) or not os.path.exists(fb):
            info["inconclusive"].append("json comparison %s~%s skipped: output missing" % (a, b))
            continue
        la = dict(l.rstrip("\n").split("\t", 1) for l in open(fa) if "\t" in l)
        lb = dict(l.rstrip("\n").split("\t", 1) for l in open(fb) if "\t" in l)
        common = sorted(set(la) & set(lb))
        diff = [k for k in common if la[k] != lb[k]]
        info["pairs"].append({"pair": "%s~%s" % (a, b), "values_compared": len(common), "differing": len(diff), "only_in_one": len(set(la) ^ set(lb))})
        info["events"] += len(common)
        info["distinct_nontrivial"] += len(common)
        if common:
            info["samples"].append({"config": "%s~%s" % (a, b), "op": "json text", "event": "%s -> %s" % (common[0], la[common[0]])})
        for k in diff[:5]:
            viol.append({"type": k.split("#")[0], "op": "serde_json text", "kind": "cross_build_text", "tags": ["%s~%s" % (a, b)], "input": k, "got": la[k], "expected": lb[k], "note": "serialised output must be byte-identical in SIMD and scalar-math builds", "config": "%s~%s" % (a, b)})
    return viol, info


def run_post(step, results, wdir, root):
    if step["name"] == "jsoncmp":
        return run_textcmp(step, results, wdir, root)
    """step = {"name": "tracecmp", "engine": "e_api", "prop": ..., "cmp_config": "sse2", "pairs": [[a, b, class], ...]}
    Each config's trace was written to <wdir>/trace.<config>.bin by its run."""
    from check_paths import binary_path, cfg_env  # provided by the driver
    viol = []
    info = {"name": step["name"], "pairs": [], "events": 0, "distinct_nontrivial": 0, "samples": [], "inconclusive": [], "canaries": {"total": 0, "fired": 0, "missed": []}}
    have = set()
    for (r, s, n, summary, inc, san) in results:
        if summary and r.get("mode") == "trace":
            have.add(r["config"])
    exe = binary_path(step["engine"], step["cmp_config"])
    for a, b, cls in step["pairs"]:
        if a not in have or b not in have:
            info["inconclusive"].append("trace comparison %s~%s skipped: a trace is missing" % (a, b))
            continue
        ta = os.path.join(wdir, "trace.%s.bin" % a)
        tb = os.path.join(wdir, "trace.%s.bin" % b)
        out = os.path.join(wdir, "cmp.%s.%s.json" % (a, b))
        pair = "%s~%s" % (a, b)
        cmd = [exe, "--prop", step["prop"], "--tier", step.get("tier", "quick"), "--config", "cmp", "--mode", "cmp", "--trace", ta, "--out", out, tb, cls, pair]
        p = subprocess.run(cmd, cwd=wdir, env=cfg_env(step["cmp_config"]), stdout=subprocess.PIPE, stderr=subprocess.STDOUT, text=True)
        if p.returncode != 0 or not os.path.exists(out):
            info["inconclusive"].append("trace comparison %s failed to run: %s" % (pair, p.stdout[-300:]))
            continue
        d = json.load(open(out))
        pi = {"pair": pair, "class": cls, "records_compared": d.get("events", 0), "violating_records": d.get("violation_count", 0)}
        for k, o in d.get("ops", {}).items():
            pi["boundary"] = o.get("boundary", 0)
            pi["max_difference_over_bound"] = o.get("max_ratio", 0)
            pi["counters"] = o.get("counters", {})
        info["pairs"].append(pi)
        info["events"] += d.get("events", 0)
        info["distinct_nontrivial"] += d.get("distinct_nontrivial", 0)
        info["inconclusive"] += ["%s: %s" % (pair, x) for x in d.get("inconclusive", [])]
        cn = d.get("canaries", {})
        info["canaries"]["total"] += cn.get("total", 0)
        info["canaries"]["fired"] += cn.get("fired", 0)
        info["canaries"]["missed"] += ["%s: %s" % (pair, m) for m in cn.get("missed", [])]
        info["samples"].append({"config": pair, "op": "tracecmp", "event": "%d records compared in lock-step (%s)" % (d.get("events", 0), cls)})
        for v in d.get("violations", []):
            v = dict(v)
            v["config"] = pair
            # signature: the entry name is carried in the tags; keep kind + first tag
            v["tags"] = v.get("tags", [])[:1] + [pair] + v.get("tags", [])[1:2]
            viol.append(v)
    return viol, info

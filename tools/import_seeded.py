#!/usr/bin/env python3
"""Confirm a sub-agent's seeded change in its scratch worktree and keep it under /verif/seeded/<id>/.
usage: import_seeded.py <worktree> <m-dir> <id> <property> [cargo args for the demo, e.g. --features scalar-math | --release]"""
import sys, os, subprocess, json, shutil
wt, mdir, sid, prop = sys.argv[1:5]
demo_args = [a.replace(" ", ",") if i > 0 and sys.argv[5:][i - 1] == "--features" else a for i, a in enumerate(sys.argv[5:])]
ROOT = os.path.dirname(os.path.dirname(os.path.abspath(__file__)))
src = os.path.join(wt, "OUT", mdir)


def sh(cmd, cwd=wt, timeout=3600):
    p = subprocess.run(cmd, shell=True, cwd=cwd, stdout=subprocess.PIPE, stderr=subprocess.STDOUT, text=True, timeout=timeout)
    return p.returncode, p.stdout


log = {}
assert sh("git status --porcelain --untracked-files=no")[1].strip() == "", "worktree not clean"
toolchain = ""
if demo_args and demo_args[0].startswith("+"):
    toolchain = demo_args[0] + " "
    demo_args = demo_args[1:]
os.makedirs(os.path.join(wt, "examples"), exist_ok=True)
shutil.copy(os.path.join(src, "demo.rs"), os.path.join(wt, "examples", "seeded_demo.rs"))
try:
    rc, out = sh("cargo %srun --offline --example seeded_demo %s" % (toolchain, " ".join(demo_args)))
    log["demo_without_change"] = {"exit": rc, "tail": out[-300:]}
    rc, out = sh("git apply %s" % os.path.join(src, "patch.diff"))
    assert rc == 0, "patch does not apply: " + out
    rc1, o1 = sh("cargo build --offline")
    rc2, o2 = sh("cargo build --offline --features scalar-math")
    log["build_default"] = rc1
    log["build_scalar_math"] = rc2
    touched = sh("git diff --name-only")[1]
    if "coresimd" in touched:
        log["build_core_simd"] = sh("cargo +nightly build --offline --features core-simd")[0]
    # the demo may need optional features: keep it out of the way while the pinned suite builds all targets
    os.rename(os.path.join(wt, "examples", "seeded_demo.rs"), os.path.join(wt, "seeded_demo.rs.tmp"))
    rc, out = sh("cargo nextest run --workspace --no-fail-fast --offline")
    os.rename(os.path.join(wt, "seeded_demo.rs.tmp"), os.path.join(wt, "examples", "seeded_demo.rs"))
    log["suite_with_change"] = {"exit": rc, "summary": [l for l in out.splitlines() if "Summary" in l or "tests run" in l][-1:]}
    rc, out = sh("cargo %srun --offline --example seeded_demo %s" % (toolchain, " ".join(demo_args)))
    log["demo_with_change"] = {"exit": rc, "tail": out[-400:]}
finally:
    sh("git checkout -- .")
    for f in (os.path.join(wt, "examples", "seeded_demo.rs"), os.path.join(wt, "seeded_demo.rs.tmp")):
        if os.path.exists(f):
            os.remove(f)
    try:
        os.rmdir(os.path.join(wt, "examples"))
    except OSError:
        pass
ok = log["demo_without_change"]["exit"] == 0 and log["demo_with_change"]["exit"] != 0 and log["suite_with_change"]["exit"] == 0 and log["build_default"] == 0 and log["build_scalar_math"] == 0 and log.get("build_core_simd", 0) == 0
print(json.dumps(log, indent=1)[:1500])
print("CONFIRMED" if ok else "REJECTED")
if ok:
    dst = os.path.join(ROOT, "seeded", sid)
    os.makedirs(dst, exist_ok=True)
    for f in ("patch.diff", "demo.rs", "notes.md"):
        if os.path.exists(os.path.join(src, f)):
            shutil.copy(os.path.join(src, f), os.path.join(dst, f))
    notes = open(os.path.join(src, "notes.md")).read() if os.path.exists(os.path.join(src, "notes.md")) else ""
    json.dump({"id": sid, "property": prop, "origin": "independent sub-agent given only the property text and a scratch worktree", "needs_to_manifest": notes[:1200], "demo_cargo_args": sys.argv[5:], "confirmed_by_me": log}, open(os.path.join(dst, "meta.json"), "w"), indent=1)

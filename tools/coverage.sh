#!/bin/bash
# Development aid: function-level coverage of the glam sources by one engine's monitors (nightly, -Cinstrument-coverage).
# usage: tools/coverage.sh <engine> <prop> [file-regex] [features]   -> prints functions of /repo/src never executed, per file
set -e
engine=$1; prop=$2; filt=${3:-.}; feats=$4
here=$(cd "$(dirname "$0")/.." && pwd)
bin=$(rustc +nightly --print sysroot)/lib/rustlib/x86_64-unknown-linux-gnu/bin
tdir=$here/.build/cov
cd $here/harness
CARGO_NET_OFFLINE=true CARGO_TARGET_DIR=$tdir RUSTFLAGS="-Cinstrument-coverage" cargo +nightly build --release -p $engine ${feats:+--features $feats} 2>&1 | tail -1
rm -f $tdir/*.profraw
LLVM_PROFILE_FILE=$tdir/$prop-%p.profraw $tdir/release/$engine --prop $prop --tier quick --seed 1 --config cov --out $tdir/out.json >/dev/null 2>&1 || true
$bin/llvm-profdata merge -sparse $tdir/$prop-*.profraw -o $tdir/$prop.profdata
$bin/llvm-cov export $tdir/release/$engine -instr-profile=$tdir/$prop.profdata -format=text -skip-expansions 2>/dev/null > $tdir/$prop.json
python3 - "$tdir/$prop.json" "$filt" <<'PY'
import json,sys,collections,re,subprocess
d=json.load(open(sys.argv[1]))
fn=collections.defaultdict(lambda:[0,set()])
for f in d['data'][0]['functions']:
    files=[x for x in f['filenames'] if '/repo/src/' in x or '/repo-copy' in x]
    if not files: continue
    key=(files[0].split('/src/',1)[1], f['regions'][0][0])   # file, start line
    fn[key][0]+=f['count']
    fn[key][1].add(f['name'])
byfile=collections.defaultdict(lambda:[0,0,[]])
for (file,line),(cnt,names) in fn.items():
    byfile[file][1]+=1
    if cnt>0: byfile[file][0]+=1
    else: byfile[file][2].append(line)
for file in sorted(byfile):
    if not re.search(sys.argv[2], file): continue
    c,t,unc=byfile[file]
    # map start lines to fn names
    src=open('/repo/src/'+file).read().split('\n')
    names=[]
    for ln in sorted(unc):
        for k in range(ln-1, max(ln-4,0)-1, -1):
            m=re.search(r'fn (\w+)', src[k]) if k < len(src) else None
            if m: names.append(m.group(1)); break
        else: names.append('L%d'%ln)
    print("%-34s %3d/%3d  uncovered: %s" % (file,c,t,' '.join(sorted(set(names)))[:900]))
PY

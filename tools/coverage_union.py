#!/usr/bin/env python3
"""Development aid: which functions of the glam sources are executed by NO semantic monitor (quick tier)?
Builds each engine with -Cinstrument-coverage (nightly), runs the listed properties, merges the profiles per engine and
intersects the never-executed sets.  The registry engines of C07/C08/C18 call everything but judge only consistency / panics /
hidden lanes, so they are left out.  usage: tools/coverage_union.py [file-regex]"""
import json, os, re, subprocess, sys, collections, glob
ROOT = os.path.dirname(os.path.dirname(os.path.abspath(__file__)))
BIN = subprocess.run("rustc +nightly --print sysroot", shell=True, capture_output=True, text=True).stdout.strip() + "/lib/rustlib/x86_64-unknown-linux-gnu/bin"
TD = os.path.join(ROOT, ".build", "cov")
RUNS = {"e_lanes": (["C01", "C13", "C14", "C15", "C16", "C17"], ""), "e_geom": (["C02", "C03", "C04", "C05", "C06", "C09", "C10", "C11", "C12"], ""), "e_api": (["C20"], ""), "e_interop": (["C19"], "serde,bytemuck,mint,rkyv")}
filt = sys.argv[1] if len(sys.argv) > 1 else "."
env = dict(os.environ, CARGO_NET_OFFLINE="true", CARGO_TARGET_DIR=TD, RUSTFLAGS="-Cinstrument-coverage")
executed = collections.defaultdict(int)
allfn = {}
for eng, (props, feats) in RUNS.items():
    cmd = "cargo +nightly build --release -p %s %s" % (eng, ("--features " + feats) if feats else "")
    r = subprocess.run(cmd, shell=True, cwd=os.path.join(ROOT, "harness"), env=env, capture_output=True, text=True)
    if r.returncode != 0:
        print("build failed", eng, r.stderr[-400:]); continue
    for f in glob.glob(TD + "/*.profraw"): os.remove(f)
    for p in props:
        e2 = dict(os.environ, LLVM_PROFILE_FILE="%s/%s-%%p.profraw" % (TD, p))
        subprocess.run([TD + "/release/" + eng, "--prop", p, "--tier", "quick", "--seed", "1", "--config", "cov", "--out", TD + "/out.json", "--trace", TD + "/trace.tmp"], env=e2, capture_output=True)
    subprocess.run("%s/llvm-profdata merge -sparse %s/*.profraw -o %s/%s.profdata" % (BIN, TD, TD, eng), shell=True, check=True)
    out = subprocess.run("%s/llvm-cov export %s/release/%s -instr-profile=%s/%s.profdata -format=text -skip-expansions" % (BIN, TD, eng, TD, eng), shell=True, capture_output=True, text=True).stdout
    d = json.loads(out)
    for f in d["data"][0]["functions"]:
        files = [x for x in f["filenames"] if "/src/" in x and ("/repo" in x)]
        if not files: continue
        key = (files[0].split("/src/", 1)[1], f["regions"][0][0])
        allfn[key] = 1
        executed[key] += f["count"]
    print(eng, "functions seen so far", len(allfn), file=sys.stderr)
byfile = collections.defaultdict(lambda: [0, 0, []])
for key in allfn:
    file, line = key
    byfile[file][1] += 1
    if executed[key] > 0: byfile[file][0] += 1
    else: byfile[file][2].append(line)
res = {}
for file in sorted(byfile):
    if not re.search(filt, file): continue
    c, t, unc = byfile[file]
    try: src = open("/repo/src/" + file).read().split("\n")
    except OSError: continue
    names = []
    for ln in sorted(unc):
        nm = "L%d" % ln
        for k in range(ln - 1, max(ln - 4, 0) - 1, -1):
            m = re.search(r"fn (\w+)", src[k]) if k < len(src) else None
            if m: nm = "%s@%d" % (m.group(1), ln); break
        names.append(nm)
    res[file] = {"executed": c, "total": t, "never": names}
    if unc: print("%-34s %3d/%3d never: %s" % (file, c, t, " ".join(names)[:700]))
json.dump(res, open(os.path.join(TD, "union.json"), "w"), indent=1)

#!/usr/bin/env python3
"""Run the registered checks against the seeded changes in /verif/seeded/<id>/ (development aid).
For each: git -C /repo apply patch.diff, run ./check <property> (quick, then thorough if quick is silent),
always undo with git -C /repo checkout -- . ; writes seeded/<id>/result.json."""
import json, os, subprocess, sys, glob, time
ROOT = os.path.dirname(os.path.dirname(os.path.abspath(__file__)))
REPO = os.environ.get("VERIF_REPO", "/repo")  # a private copy when run in the background (tools/seeded_all.sh)


def sh(cmd, **kw):
    return subprocess.run(cmd, shell=True, stdout=subprocess.PIPE, stderr=subprocess.STDOUT, text=True, **kw)


def clean():
    st = sh("git -C %s status --porcelain --untracked-files=no" % REPO).stdout.strip()
    return st == ""


def main():
    only = sys.argv[1:]
    for d in sorted(glob.glob(os.path.join(ROOT, "seeded", "*"))):
        sid = os.path.basename(d)
        if only and sid not in only:
            continue
        meta = json.load(open(os.path.join(d, "meta.json")))
        props = [meta["property"]] + meta.get("also_check", [])
        if not clean():
            print("repo not clean; abort")
            return 1
        res = {"id": sid, "runs": []}
        try:
            a = sh("git -C %s apply %s" % (REPO, os.path.join(d, "patch.diff")))
            if a.returncode != 0:
                res["error"] = "patch does not apply: " + a.stdout[-300:]
                print(sid, res["error"])
                continue
            for prop in props:
                for tier in (("quick",) if os.environ.get("SEEDED_QUICK_ONLY") else ("quick", "thorough")):
                    t0 = time.time()
                    p = sh("./check %s --tier %s" % (prop, tier), cwd=ROOT)
                    lines = [l for l in p.stdout.splitlines() if l.startswith(("VIOLATION", "KNOWN-FINDING", "INFRA", "INCONCLUSIVE", prop + " "))]
                    res["runs"].append({"property": prop, "tier": tier, "exit": p.returncode, "wall_s": round(time.time() - t0, 1), "lines": lines[:12]})
                    print(sid, prop, tier, "exit", p.returncode, lines[-1][:160] if lines else "")
                    if p.returncode == 1:
                        break
        finally:
            sh("git -C %s checkout -- ." % REPO)
        res["caught"] = any(r["exit"] == 1 for r in res["runs"])
        json.dump(res, open(os.path.join(d, "result.json"), "w"), indent=1)
    return 0


if __name__ == "__main__":
    sys.exit(main())

#!/usr/bin/env python3
"""Regenerate the seeded-change table inside DESIGN.md (between the seeded-table markers)."""
import os, subprocess, re
ROOT = os.path.dirname(os.path.dirname(os.path.abspath(__file__)))
t = subprocess.run(["python3", os.path.join(ROOT, "tools", "seeded_table.py")], stdout=subprocess.PIPE, text=True).stdout
p = os.path.join(ROOT, "DESIGN.md")
s = open(p).read()
s = re.sub(r"<!-- seeded-table-begin -->.*?<!-- seeded-table-end -->", lambda m: "<!-- seeded-table-begin -->\n" + t + "<!-- seeded-table-end -->", s, flags=re.S)
open(p, "w").write(s)

#!/usr/bin/env python3
"""Reach audit by name: which public items of the *current* tree are not covered by the generated
tables the monitors iterate (a coverage gap, reported in the evidence; never a violation)."""
import re, os, json, itertools, sys

ROOT = os.path.dirname(os.path.dirname(os.path.abspath(__file__)))


def _run_generator(script, repo, outname):
    """Re-run a generator against `repo` into a scratch location and return its item list."""
    import subprocess, tempfile, shutil
    tmp = tempfile.mkdtemp(prefix="audit")
    try:
        # generators write relative to their own ROOT: copy the script into a fake root
        os.makedirs(os.path.join(tmp, "tools"))
        os.makedirs(os.path.join(tmp, "harness/e_api/src"))
        os.makedirs(os.path.join(tmp, "harness/e_lanes/src"))
        shutil.copy(os.path.join(ROOT, "tools", script), os.path.join(tmp, "tools", script))
        p = subprocess.run([sys.executable, os.path.join(tmp, "tools", script), repo], stdout=subprocess.PIPE, stderr=subprocess.STDOUT, text=True)
        f = os.path.join(tmp, "tools", outname)
        if p.returncode != 0 or not os.path.exists(f):
            return None, p.stdout[-400:]
        return json.load(open(f)), None
    finally:
        shutil.rmtree(tmp, ignore_errors=True)


def audit(kind, repo="/repo"):
    if kind == "registry":
        cur, err = _run_generator("gen_registry.py", repo, "registry_items.json")
        base = json.load(open(os.path.join(ROOT, "tools/registry_items.json")))
    elif kind == "conv":
        cur, err = _run_generator("gen_conv_table.py", repo, "conv_items.json")
        base = json.load(open(os.path.join(ROOT, "tools/conv_items.json")))
    elif kind == "swizzle":
        src = open(os.path.join(repo, "src/swizzles/vec_traits.rs")).read()
        cur = sorted(set(re.findall(r"fn (\w+)\(self", src)))
        names = set()
        for k in (2, 3, 4):
            for combo in itertools.product("xyzw", repeat=k):
                names.add("".join(combo))
        for k in (2, 3):
            for combo in itertools.permutations("xyzw", k):
                names.add("with_" + "".join(combo))
        base = sorted(names)
        err = None
    else:
        return {"error": "unknown audit kind"}
    if cur is None:
        return {"kind": kind, "error": "could not parse the current tree: %s" % err}
    cs, bs = set(cur), set(base)
    return {"kind": kind, "items_in_current_tree": len(cs), "items_covered_by_generated_table": len(cs & bs), "unobserved_new_items": sorted(cs - bs)[:50], "table_items_missing_from_tree": sorted(bs - cs)[:50]}


if __name__ == "__main__":
    print(json.dumps(audit(sys.argv[1] if len(sys.argv) > 1 else "registry"), indent=1))

NOT_IMPLEMENTED_REASON = "monitor for this property is designed (DESIGN.md section 11) but not yet built in this round; not claimed until its check exists"

def lane(text, ref, note=None):
    return {"engine": "e_lanes", "text": text, "design_ref": ref, "technique": "runtime reference-model monitor (lane lift of the Rust primitive) over lattice, hostile-random and exhaustive-subdomain workloads in several builds",
            "note": note or "Trusted: rustc/LLVM and the Rust primitive operations used as the oracle; the harness's input generators. Held only on the events listed in the evidence; NEON/wasm32 not observable here."}

CHECKS = {
    "C01": lane("Runs every element-wise operator/method form of the 7 float vector types on the special-value lattice (every value and pair in every lane), hostile random lanes and f32-pattern sweeps (all 2^32 patterns for the rounding family in thorough) in the sse2, scalar, +fma (quick) and core-simd, libm, overflow-checking (thorough) builds of the working tree, and compares each output lane with the Rust primitive as an IEEE value. Exploration is the right level: the domain is 2^64..2^96 operand tuples per operation, so only the rounding family is enumerated completely.", "DESIGN.md 11/C01"),
}

#!/usr/bin/env python3-vt
import json, jsonschema, glob, sys
jsonschema.validate(json.load(open('/verif/MANIFEST.json')), json.load(open('/root/.vp/MANIFEST.schema.json')))
es = json.load(open('/root/.vp/EVIDENCE.schema.json'))
for f in sorted(glob.glob('/verif/evidence/*.json')):
    jsonschema.validate(json.load(open(f)), es)
    print('ok', f)
print('manifest ok')

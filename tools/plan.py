"""Build configurations and per-property run plans for ./check."""

X86 = "x86_64-unknown-linux-gnu"

CONFIGS = {
    # name: toolchain / glam features (forwarded by the engine crates) / flags
    "sse2": {},
    "scalar": {"features": ["scalar-math"]},
    "coresimd": {"toolchain": "nightly", "features": ["core-simd"]},
    "fma": {"rustflags": "-C target-feature=+fma,+avx2"},
    "native": {"rustflags": "-C target-cpu=native"},
    "libm": {"features": ["libm"]},
    "dbg": {"profile": "dbg"},
    "dbg-scalar": {"profile": "dbg", "features": ["scalar-math"]},
    "assert": {"features": ["glam-assert"]},
    "assert-scalar": {"features": ["glam-assert", "scalar-math"]},
    "assert-libm": {"features": ["glam-assert", "libm"]},
    "avx2": {"rustflags": "-C target-feature=+avx2,+fma"},
    "fastmath-fma": {"features": ["fast-math"], "rustflags": "-C target-feature=+fma"},
    "cuda": {"features": ["cuda"]},
    "cuda-scalar": {"features": ["cuda", "scalar-math"]},
    "asan": {"toolchain": "nightly", "rustflags": "-Zsanitizer=address -Cforce-frame-pointers=yes", "target": X86},
    "asan-coresimd": {"toolchain": "nightly", "rustflags": "-Zsanitizer=address -Cforce-frame-pointers=yes", "target": X86, "features": ["core-simd"]},
    "miri-sse2": {"toolchain": "nightly", "kind": "miri"},
    "miri-scalar": {"toolchain": "nightly", "kind": "miri", "features": ["scalar-math"]},
    "miri-coresimd": {"toolchain": "nightly", "kind": "miri", "features": ["core-simd"]},
}

Q = ["quick", "thorough"]
T = ["thorough"]


def lanes(prop, quick_cfgs, thorough_cfgs, engine="e_lanes", extra=None):
    runs = []
    for c in quick_cfgs:
        runs.append({"engine": engine, "config": c, "tiers": Q})
    for c in thorough_cfgs:
        runs.append({"engine": engine, "config": c, "tiers": T})
    if extra:
        runs += extra
    return {"runs": runs}


PLAN = {
    "C01": lanes("C01", ["sse2", "scalar", "fma", "libm"], ["coresimd", "dbg", "avx2"]),
    "C02": lanes("C02", ["sse2", "scalar", "coresimd", "libm"], ["fma"], engine="e_geom"),
    "C03": lanes("C03", ["sse2", "scalar", "coresimd"], ["fma"], engine="e_geom"),
    "C04": lanes("C04", ["sse2", "scalar", "coresimd"], ["fma"], engine="e_geom"),
    "C05": lanes("C05", ["sse2", "scalar", "coresimd"], [], engine="e_geom"),
    "C06": lanes("C06", ["sse2", "scalar", "coresimd"], ["cuda", "cuda-scalar"], engine="e_geom"),
    "C09": lanes("C09", ["sse2", "scalar", "coresimd", "libm", "assert"], ["assert-scalar"], engine="e_geom"),
    "C10": lanes("C10", ["sse2", "scalar", "coresimd", "assert"], ["assert-scalar"], engine="e_geom"),
    "C11": lanes("C11", ["sse2", "scalar", "coresimd", "assert"], ["assert-scalar"], engine="e_geom"),
    "C12": lanes("C12", ["sse2", "scalar", "coresimd", "libm", "fastmath-fma"], [], engine="e_geom"),
    "C07": {"runs": [
        {"engine": "e_api", "config": c, "mode": "trace", "tiers": t, "shards": {"quick": 1, "thorough": 1}, "args": ["--trace", "{wdir}/trace.{config}.bin"]}
        for c, t in (("sse2", Q), ("scalar", Q), ("fma", Q), ("coresimd", T), ("native", T))
    ], "post": [
        {"name": "tracecmp", "engine": "e_api", "cmp_config": "sse2", "tiers": ["quick"], "pairs": [["sse2", "scalar", "assoc"], ["sse2", "fma", "exact"]]},
        {"name": "tracecmp", "engine": "e_api", "cmp_config": "sse2", "tiers": ["thorough"], "pairs": [["sse2", "scalar", "assoc"], ["sse2", "coresimd", "assoc"], ["scalar", "coresimd", "assoc"], ["sse2", "fma", "exact"], ["sse2", "native", "exact"], ["fma", "native", "exact"]]},
    ]},
    "C08": {"runs": [
        {"engine": "e_api", "config": "sse2", "tiers": Q},
        {"engine": "e_api", "config": "coresimd", "tiers": Q},
        {"engine": "e_api", "config": "fma", "tiers": T},
        {"engine": "e_api", "config": "native", "tiers": T},
        {"engine": "e_api", "config": "miri-sse2", "mode": "miri", "tiers": T, "shards": {"quick": 8, "thorough": 8}},
        {"engine": "e_api", "config": "miri-coresimd", "mode": "miri", "tiers": T, "shards": {"quick": 8, "thorough": 8}},
    ], "not_observed": ["neon", "wasm32", "scalar-math (no hidden lane exists there)"]},
    "C19": {"runs": [
        {"engine": "e_interop", "config": c, "tiers": t, "shards": {"quick": 1, "thorough": 1}, "args": ["--trace", "{wdir}/json.{config}.txt"]}
        for c, t in (("sse2", Q), ("scalar", Q), ("coresimd", T), ("cuda", T), ("cuda-scalar", T))
    ] + [
        {"engine": "e_interop", "config": "miri-sse2", "mode": "miri", "tiers": Q, "shards": {"quick": 8, "thorough": 8}},
        {"engine": "e_interop", "config": "miri-scalar", "mode": "miri", "tiers": T, "shards": {"quick": 8, "thorough": 8}},
    ], "post": [
        {"name": "jsoncmp", "tiers": ["quick"], "pairs": [["sse2", "scalar"]]},
        {"name": "jsoncmp", "tiers": ["thorough"], "pairs": [["sse2", "scalar"], ["sse2", "coresimd"]]},
    ]},
    "C20": {"runs": [
        {"engine": "e_api", "config": "assert", "tiers": Q},
        {"engine": "e_api", "config": "assert-scalar", "tiers": Q},
        {"engine": "e_api", "config": "assert-libm", "tiers": Q},
        {"engine": "e_api", "config": "sse2", "tiers": Q},
        {"engine": "e_api", "config": "scalar", "tiers": T},
    ] + [
        {"engine": "e_api", "config": c, "mode": "trace", "tiers": t, "shards": {"quick": 1, "thorough": 1}, "args": ["--trace", "{wdir}/trace.{config}.bin"]}
        for c, t in (("sse2", Q), ("assert", Q), ("scalar", Q), ("assert-scalar", Q))
    ], "post": [
        {"name": "tracecmp", "engine": "e_api", "cmp_config": "sse2", "pairs": [["sse2", "assert", "exact"], ["scalar", "assert-scalar", "exact"]]},
    ]},
    "C18": {"runs": [
        {"engine": "e_api", "config": "sse2", "tiers": Q},
        {"engine": "e_api", "config": "scalar", "tiers": Q},
        {"engine": "e_api", "config": "dbg", "tiers": Q},
        {"engine": "e_api", "config": "coresimd", "tiers": Q},
        {"engine": "e_api", "config": "asan", "mode": "san", "tiers": Q, "shards": {"quick": 4, "thorough": 8}},
        {"engine": "e_api", "config": "miri-sse2", "mode": "miri", "tiers": Q, "shards": {"quick": 8, "thorough": 8}},
        {"engine": "e_api", "config": "miri-scalar", "mode": "miri", "tiers": T, "shards": {"quick": 8, "thorough": 8}},
        {"engine": "e_api", "config": "miri-coresimd", "mode": "miri", "tiers": T, "shards": {"quick": 8, "thorough": 8}},
        {"engine": "e_api", "config": "asan-coresimd", "mode": "san", "tiers": T, "shards": {"quick": 4, "thorough": 8}},
        {"engine": "e_api", "config": "sse2", "mode": "san", "runner": "valgrind", "tiers": T, "shards": {"quick": 4, "thorough": 8}},
        # integer clause: panic equivalence of every integer-vector operation with the primitive, release and debug profiles
        {"engine": "e_lanes", "config": "sse2", "tiers": Q, "args": ["--tier", "quick"]},
        {"engine": "e_lanes", "config": "dbg", "tiers": Q, "args": ["--tier", "quick"]},
    ]},
    "C13": lanes("C13", ["sse2", "dbg"], ["scalar"]),
    "C14": lanes("C14", ["sse2", "scalar"], ["coresimd"]),
    "C15": lanes("C15", ["sse2", "scalar", "coresimd"], []),
    "C16": lanes("C16", ["sse2", "scalar", "coresimd", "avx2"], []),
    "C17": lanes("C17", ["sse2", "scalar", "coresimd"], ["cuda", "cuda-scalar"]),
}
for _p in ("C13",):
    for _r in PLAN[_p]["runs"]:
        _r["shards"] = {"quick": 8, "thorough": 16}

RULES = {
    "C19": "Events per value type (36 numeric vector and quaternion types, 7 matrix, 4 affine, 5 mask types): serde through an exact in-memory token-stream Serializer/Deserializer - the stream must be TupleStruct{name, N} + N scalar tokens in lane / column-major order + End, deserialise back bit-identically (NaN payloads, -0), sequences of every length 0..N+2 (short must be rejected; long: exactly N requested and consumed), serde_json text round trip of finite values and rejection of one element more / fewer, and the JSON text of the same seeded values compared byte-for-byte between SIMD and scalar-math builds; bytemuck - for every Pod type size_of = N*size_of(scalar), bytes_of = elements in order, cast there and back for random bit patterns, cast_slice, zeroed; AnyBitPattern-only types decode their elements from the modelled offsets of arbitrary bytes; the Pod set is probed at compile time (autoref) so a Pod impl on a padded type is caught; rkyv to_bytes / access / deserialize with the element bytes at the modelled offsets; mint to-and-back and entry (r,c) preservation for column- and row-major matrices; Miri reads every byte of bytes_of.",
    "C20": "Programs of 2-12 operations drawn from 46 precondition-carrying operation groups (normalize family, any_orthonormal_*, every rotation constructor, unit-quaternion product / inverse / lerp / slerp / rotate_towards, from_rotation_arc incl. exactly opposite, look_to/look_at, TRS compose -> decompose -> recompose, inverse -> transform, to_euler/from_euler, to_axis_angle/from_axis_angle, clamp_length*, reflect/refract, projection ...) for the f32 and f64 families; every operand comes from typed pools of values produced by glam itself (unit vectors, unit quaternions, rotation matrices, shear-free TRS matrices, affine matrices) or from finite non-degenerate seeds (including tiny vectors whose squared length is still normal). Monitors: no program panics in glam-assert builds; after every step every pooled value is checked against the predicate it will be used under (|len^2 - 1| <= 2e-4, affine row within 1e-6) and the margin consumed is recorded; a second vocabulary (c20v) runs the same kind of chains over each of the 7 float vector types (Vec2, Vec3, Vec3A, Vec4, DVec2, DVec3, DVec4: normalize family, clamp with partially coinciding bounds, clamp_length*, project/reject(_normalized), reflect, refract, any_ortho*, vector rotate_towards and slerp incl. exactly (anti)parallel operands, 2-D from_angle/rotate/rotate_towards) with Vec3A operands of every provenance (from Vec3, from_vec4 with 0/inf/NaN fourth lane, quotients by a w = 0 column) and checks is_finite() against the visible lanes; try_normalize/normalize_or(_zero) totality over magnitudes from below the smallest subnormal to overflow (result is the fall-back or passes is_normalized); a catalogue of ~800 documented violations - one minimal violation per glam_assert conjunct, operand and lane (single-lane min > max for all 34 vector types, one non-unit operand at x2/x0.5/x1.001/x0.999, one matrix axis, one homogeneous-row element off by 2e-6, one near/far plane) - must panic exactly when the assertions are compiled in; the same programs are traced in builds with and without glam-assert (sse2 and scalar) and every returned word compared bit-for-bit. Events = programs + compared records.",
    "C07": "Each build of the working tree (sse2, scalar-math, +fma,+avx2; core-simd and target-cpu=native in thorough) records the same seeded workload into a trace: every registry entry that involves one of the eight SIMD-backed types (524 entries: inherent functions, operators, conversions, Display/Debug) called on finite inputs, each call re-executed 8 times on inputs moved by up to 64 ulp (conditioning probe), plus random programs of 2-8 operations chained through a typed value pool. An offline comparator walks pairs of traces in lock-step: SIMD vs scalar (and core-simd): |a - b| <= (largest change under the 64-ulp perturbations) + 32 eps x (largest input scalar / output lane of the call) per float word, discrete outcomes (bool / Option / index) equal unless they flip under the perturbations (boundary), Debug/Display text hash equal whenever the values are bit-equal; sse2 vs +fma / native: every word of every record, including the chained programs, bit-for-bit (NaN sign/payload excepted: unspecified in Rust). Events = records compared; distinct = entries.",
    "C08": "Twin execution: every registry entry that takes or returns a Vec3A, Mat3A, Affine3A or BVec3A (about 870 entries incl. the 495 swizzle getters/setters of Vec3A/Vec4: own methods, operators, Sum/Product, PartialEq, Hash, Display/Debug, From impls, and functions of Quat / Mat4 / Mat3 / Affine3A taking them) is executed on arguments with bit-identical visible lanes whose hidden fourth lane holds each of {0, 1, -1, 3e38, min subnormal, +inf, -inf, quiet NaN, signalling NaN, all-ones} injected through three public routes (Vec3A::from_vec4, a computed register, From<raw register>; masks through comparisons of such vectors), on ordinary and special-value visible lanes, and in a `mixed` mode where every padded operand drawn in one call gets a different hidden content and route (so `a == b`, `a * b`, `select(m, a, b)` see operands that differ only there); all captured visible outputs (lanes, scalars, bools, Options, strings, hashes, bitmasks) must be bit-identical to the run with the natural hidden lane. Plus random programs of 2-6 such operations chained through a typed value pool so that hidden lanes computed by glam itself feed later operations. Every event is one poisoned execution; distinct = (entry, poison, route, input mode).",
    "C18": "Integer clause: every operator / method of the 27 integer vector types is run by the C13 lane-lift monitor in the release and the overflow-checking profile and must panic exactly when some lane's primitive panics (only the panic-equivalence verdicts are kept here). Events: (1) panic monitor - every entry of the generated registry (all 1530 public inherent functions, operator / Neg / Index / PartialEq / Sum / Product / Display / From impls of the float vector, quaternion, matrix, affine and SIMD mask types) called under catch_unwind with each scalar argument slot in turn set to special-value lattice values (zero, -0, subnormal, tiny, huge, +-inf, NaNs) plus random lattice tuples and ordinary values; indices in range and slices long enough, so any panic is undocumented; (2) slice monitor - from_slice / write_to_slice / from_cols_slice / write_cols_to_slice of 29 types with every length 0..N+4 on sentinel windows and exactly sized heap slices: success reads/writes exactly the first N elements, short slices panic and leave the destination bit-identical; (3) Index/IndexMut, col/row/col_mut, test/set with indices 0..7 and usize::MAX; (4) pointer-cast conversions of the SIMD types; the same workload under AddressSanitizer (exact-size heap buffers), Miri (one call of each of the SIMD-type entries plus slices) and, in thorough, valgrind memcheck on the optimised binary. distinct = distinct (entry, hot slot, round class).",
    "C10": "Events: scale / rotation / translation triples with |scale| in [1e-3,1e3], every sign pattern (8 in 3-D, 4 in 2-D), rotations from the structured unit-quaternion generator (all four matrix->quaternion branches), translations over 16 decades. Compose: every SRT constructor of Mat4/DMat4, Affine3A/DAffine3, Affine2/DAffine2, Mat3/Mat3A (2-D), Mat2 and the product of glam's elementary constructors vs the double-double T*R*S (8 eps |s_c| per entry, translation bit-exact). Decompose: translation = last column bit-exact, unit rotation, |scale| = column lengths, negative x scale iff det < 0, recomposition reproduces the input (32 eps |s_c|). Cells (sign pattern x branch) are tabulated; an empty cell makes the run inconclusive.",
    "C11": "Events: cameras (unit dir and up with |dir x up| >= 1.2e-3 incl. nearly parallel hints, eyes over 13 decades, look_at centres) through look_to/look_at of Mat4, Affine3A, Quat, Mat3, Mat3A and f64 forms: orthonormal, det +1, dir -> -Z (rh) / +Z (lh), up hint -> x = 0 and y > 0 (16 eps / |dir x up|), eye -> origin; every perspective_* (fov in (1e-2, pi-1e-2), aspect 1e-2..1e2, far/near from 1.001 to 1e6) and orthographic_* constructor: frustum corners, centres and interior points at several depths pushed through the stored matrix in f64 must land on the documented NDC values, clip w = -z / +z exactly; project_point3(a) = xyz/w of M*(p,1).",
    "C12": "Events: lerp end points on all finite lattice pairs (IEEE equality); move_towards (partial / reach / snap-radius boundary zones); clamp_length*, rotate_towards (2-D, 3-D: clamped request incl. negative, length, angle from start, angle to target), vector slerp (zones regular / near_parallel / near_antiparallel), any_orthogonal/orthonormal over the whole sphere incl. z = -1 and z = +-0; quaternion lerp / slerp against the exact interpolants along the shorter arc with partners at angles 1e-7.5..pi-1e-7, Quat::rotate_towards (partial / reach / 1e-4 snap boundary), from_rotation_arc(_colinear, _2d) incl. exactly opposite and equal inputs; FloatExt lerp/inverse_lerp/remap. Angle-derived tolerances: 1e-6 (f32 polynomial acos/sin) + 16 eps / sin(theta). In the two zones with recorded findings the monitor also evaluates the finding's quantitative envelope and tags anything outside it `gross`, which the known-finding entries do not match.",
    "C05": "Events: (a) every typed conversion path of length <= 4 through the 9-node 3-D representation graph (Quat, Mat3, Mat3A, Mat4, Affine3A, DQuat, DMat3, DMat4, DAffine3; 39 edges incl. f32<->f64 casts) from seeds of four classes (pure rotation from the structured unit-quaternion generator, rigid, general affine with scale/shear, linear): at every node every action form (q*v, M*v, transform_point3/vector3(a), project_point3, M*(p,1)) on probe points is compared with the double-double action of the seed under k*eps_path*(|M|max*|p|+|t|); (b) matrix->quaternion->matrix round trips with bookkeeping of the four conversion branches and their boundaries (a branch never taken makes the run inconclusive); (c) laws: conversion commutes with composition, inversion, identity, incl. every mixed product affine x matrix in both operand orders (Affine3A/Mat4, Affine2/Mat3/Mat3A, f64 forms) and from(a*b) = from(a)*from(b) for the 2-D and f64 families; Vec3A probes come from Vec3 and from from_vec4 with arbitrary fourth lane; (d) the 2-D graph (Affine2, Mat3, Mat3A, Mat2, f64 forms). distinct = distinct (path length, end representation) / (branch, generator kind, boundary flag).",
    "C06": "For each of the 11 matrix/affine types: entries tagged with pairwise distinct bit patterns (NaN payloads, -0, subnormal, infinities; then random bits) are written through every write path (from_cols, from_cols_array, from_cols_array_2d, from_cols_slice incl. longer slices, col_mut, axis fields, AsMut) and read through every read path (to_cols_array(_2d), write_cols_to_slice, col(c)[r], row(r)[c], axis fields, AsRef): every ordered pair of paths, every (r,c), bit-for-bit; transpose; from_diagonal; all (i,j) of the six minor constructors incl. out-of-range (must panic); col/row/col_mut index range; affine transform_point = linear*p + translation under an analytic bound and transform_vector bit-identical when only the translation changes.",
    "C09": "Events: from_axis_angle / from_rotation_x,y,z / from_scaled_axis on Quat, Mat3, Mat3A, Mat4, Affine3A and f64 forms vs the Rodrigues matrix evaluated in double-double from the same angle value (angles dense in [-4pi,4pi], multiples of pi/2 +- 1e-3, tiny, up to 1e6 rad; uniform, axis-aligned and near-axis unit axes), orthonormality, det +1, unit quaternions; from_euler for all 24 variants vs the product of the three reference single-axis rotations in the spelled order (Ex reversed), identically on all types; to_euler rebuild on arbitrary unit quaternions and on triples whose middle angle is within 1e-7.5..1 of the singularity (inputs built by the reference, not by glam), tolerance 16 eps (1 + 1/d) with d measured on the input matrix, 64 eps inside the gimbal branch; to_axis_angle / to_scaled_axis rebuild; 2-D from_angle forms, to_angle, rotate. distinct = (order, zone) / (generator kinds).",
    "C02": "Every event is one call of a geometric method of a float vector type on generated inputs (dense / moderate / mixed-magnitude / single-axis / small-integer / range-edge / sparse / unit vectors crossed with independent, near-parallel, near-antiparallel, near-orthogonal, exactly parallel and same-scale partners; the lattice of zero / subnormal / tiny / huge / non-finite values for the normalize family). The result is compared with the value recomputed in f64 (f32 APIs) or double-double (f64 APIs) under |err| <= k*eps*S with S = sum of |terms| of the documented formula; angles against atan2(|a x b|, a.b); fallbacks of the normalize family bit-for-bit. Inputs whose intermediate products under/overflow are counted as out of domain. Non-trivial = the exact result is well above the bound (distinguishable from zero); distinct = distinct (type, op, generator-kind pair).",
    "C03": "Events: (a) exact integer lattice - all 83521 2x2 matrices in [-8,8], the 3x3 lattice [-2,2] (stride 7 quick, all 1953125 thorough), random dense / sparse / rank-deficient / signed-permutation integer matrices of every size: products, determinant, transpose, add/sub/scale through every method/operator form must be exact, inverse*det the exact adjugate; (b) random bit patterns for transpose/neg; (c) real matrices U*diag*V with condition number up to 1e4 (f32) / 1e10 (f64): per-entry bounds k*eps*S for products and determinant (S = sum of |terms|), inverse against adj/det with k*eps*(adjabs/|det| + |inv|*detabs/|det|), and M*inv = inv*M = I. distinct = distinct (type, generator kind, condition decade).",
    "C04": "Events: integer quaternions in [-8,8] (exact Hamilton product through every product form), random bit patterns for conjugate/neg (sign-bit xor on x,y,z only), random unit (structured: uniform, near-identity, near/at half-turn, single-axis, w near 0) and non-unit quaternions for +,-,*s,/s,dot,length,normalize and the product (k*eps*sum|terms|), and rotation of vectors by unit quaternions through every form (mul_vec3, *, mul_vec3a, Vec3A) against the f64/double-double evaluation of q v q^-1 with 16*eps*|v|, length preservation, (qp)v = q(pv), q^-1(qv) = v, (-q)v = qv.",
    "C13": "Every event is one call of a public operator/method of an integer vector type. 8-bit types: all 65536 operand pairs of every binary operation (swept pair in a rotating lane among benign lanes, and all lanes hostile); 16-bit: all values for unary ops, all 2^32 pairs for the core families in thorough; wider types: boundary lattice pairs and random; shift counts cover 0..bits+1, 2^8.., 2^16.., 2^32.., 2^40, 2^63 and their negatives for every count type. The expected lane is the Rust primitive; checked_* must be None iff some lane's primitive is None; the call must panic iff some lane's primitive panics in this profile (release: div by zero, MIN/-1; dbg: also overflow). Non-trivial = operand lanes not all equal; distinct = distinct (type, op, per-lane class tuple, panic expectation).",
    "C14": "Every event is one conversion call (as_* cast, From, TryFrom, mask conversion, tuple/extend/truncate/Vec3A/Quat structural conversion; 733 generated entries). Sources: all values of 8/16-bit scalars, integer/float boundary sets (2^k +- d, type MIN/MAX +- ulps, +-0.5) and random bits for wider ones, a stride sweep (quick) / all 2^32 patterns (thorough) for f32 sources, each value rotating through every lane and alone among benign lanes. Expected lane = `as` / From / TryFrom of the primitive; structural conversions bit-for-bit. Non-trivial = lanes not all equal.",
    "C15": "Masks: all 2^N values of each of the 5 mask types, built through every construction route (new, from_array, From, set from default / all-true, !!, comparisons of vectors incl. every hidden-lane state for BVec3A), all observers (bitmask, any, all, test/set at every index incl. invalid ones which must panic, !, ==, Hash, Debug, Display, [bool;N], [u32;N]) against a [bool;N] model; all ordered pairs for & | ^ and assign forms; SIMD masks vs bool-field masks. cmp* on all 34 numeric vector types: every ordered pair of the special-value pool in every lane plus random; select for all masks on tagged operands bit-for-bit. Non-trivial = mask neither empty nor full / operands differ.",
    "C16": "All 28+117+336 getter names and all 6+36 with_ setter names (generated from the letters) on each of the 34 implementing types, on pairwise-distinct tagged lanes (NaN payloads, -0), equal lanes and random bits, and for Vec3A with seven hidden-lane contents: result lane i must be bit-for-bit the source lane named by letter i, result type as documented; with_ replaces exactly the named lanes; writing back what was read is the identity. Non-trivial = pairwise distinct tagged lanes.",
    "C17": "Random histories (length <= 32) per type (34 vector types, Quat, DQuat): construct through one of 8 constructors, then interleave writes through field assignment / IndexMut / AsMut / with_* and after every step compare every read path (fields, Index, to_array, write_to_slice, Into<array>, Into<tuple>, AsRef, Debug, Display, Display with precision) with a shadow lane model bit-for-bit; named constants against documented values. Every step is an event; distinct = distinct (type, write path, lane, history length).",
    "C01": "Every event is one call of a public operator/method of a float vector type on operands from (a) the special-value lattice with every value (pair) placed in every lane, (b) hostile random lanes (random bits, exact ties, values around 2^23/2^31, huge quotients), (c) a stride sweep (quick) or all 2^32 f32 patterns (thorough) for the rounding family; each output lane is compared with the Rust primitive applied to that lane (IEEE equality). An event is non-trivial when the operand lanes are not all equal and the expected result differs from the operand; distinct = distinct (type, operation, per-lane input-class tuple) among non-trivial events, summed over configurations.",
}

for _p, _k in (("C07", "registry"), ("C08", "registry"), ("C18", "registry"), ("C20", "registry"), ("C14", "conv"), ("C16", "swizzle")):
    PLAN[_p]["audit"] = _k

"""Build configurations and per-property run plans for ./check."""

X86 = "x86_64-unknown-linux-gnu"

CONFIGS = {
    # name: toolchain / glam features (forwarded by the engine crates) / flags
    "sse2": {},
    "scalar": {"features": ["scalar-math"]},
    "coresimd": {"toolchain": "nightly", "features": ["core-simd"]},
    "fma": {"rustflags": "-C target-feature=+fma,+avx2"},
    "native": {"rustflags": "-C target-cpu=native"},
    "libm": {"features": ["libm"]},
    "dbg": {"profile": "dbg"},
    "dbg-scalar": {"profile": "dbg", "features": ["scalar-math"]},
    "assert": {"features": ["glam-assert"]},
    "assert-scalar": {"features": ["glam-assert", "scalar-math"]},
    "asan": {"toolchain": "nightly", "rustflags": "-Zsanitizer=address -Cforce-frame-pointers=yes", "target": X86},
    "asan-coresimd": {"toolchain": "nightly", "rustflags": "-Zsanitizer=address -Cforce-frame-pointers=yes", "target": X86, "features": ["core-simd"]},
    "miri-sse2": {"toolchain": "nightly", "kind": "miri"},
    "miri-scalar": {"toolchain": "nightly", "kind": "miri", "features": ["scalar-math"]},
    "miri-coresimd": {"toolchain": "nightly", "kind": "miri", "features": ["core-simd"]},
}

Q = ["quick", "thorough"]
T = ["thorough"]


def lanes(prop, quick_cfgs, thorough_cfgs, engine="e_lanes", extra=None):
    runs = []
    for c in quick_cfgs:
        runs.append({"engine": engine, "config": c, "tiers": Q})
    for c in thorough_cfgs:
        runs.append({"engine": engine, "config": c, "tiers": T})
    if extra:
        runs += extra
    return {"runs": runs}


PLAN = {
    "C01": lanes("C01", ["sse2", "scalar", "fma"], ["coresimd", "libm", "dbg"]),
}

RULES = {
    "C01": "Every event is one call of a public operator/method of a float vector type on operands from (a) the special-value lattice with every value (pair) placed in every lane, (b) hostile random lanes (random bits, exact ties, values around 2^23/2^31, huge quotients), (c) a stride sweep (quick) or all 2^32 f32 patterns (thorough) for the rounding family; each output lane is compared with the Rust primitive applied to that lane (IEEE equality). An event is non-trivial when the operand lanes are not all equal and the expected result differs from the operand; distinct = distinct (type, operation, per-lane input-class tuple) among non-trivial events, summed over configurations.",
}

#!/usr/bin/env python3
"""Regenerates /verif/MANIFEST.json from the table below (keeps it schema-valid)."""
import json, os, sys
ROOT = os.path.dirname(os.path.dirname(os.path.abspath(__file__)))
sys.path.insert(0, os.path.join(ROOT, "tools"))
from plan import PLAN
from manifest_text import CHECKS, NOT_IMPLEMENTED_REASON

props = [json.loads(l) for l in open(os.path.join(ROOT, "properties.jsonl"))]
checks = []
na = []
for p in props:
    pid = p["id"]
    if pid in PLAN and pid in CHECKS:
        c = CHECKS[pid]
        checks.append({
            "property_id": pid,
            "quick_cmd": "./check %s --tier quick" % pid,
            "thorough_cmd": "./check %s --tier thorough" % pid,
            "evidence_file": "/verif/evidence/%s.json" % pid,
            "replay_cmd_template": "./check %s --replay {path}" % pid,
            "engine": c["engine"],
            "level_claimed": {"category": "exploration", "text": c["text"], "design_ref": c["design_ref"]},
            "level_note": c["note"],
            "technique": c["technique"],
        })
    else:
        na.append({"property_id": pid, "reason": NOT_IMPLEMENTED_REASON})
m = {
    "version": 1,
    "setup_cmd": "./check --setup",
    "hooks": {
        "guard": "--cfg glam_verif",
        "enable": "no source hook is needed or present: every property is observed at the public API; the guard name is reserved",
        "baseline_off_cmd": "cd /repo && cargo nextest run --workspace --no-fail-fast --offline || cargo test --workspace --no-fail-fast --offline",
        "source_commits": [],
        "add_only": True,
    },
    "engines": [
        {"name": "e_lanes", "path": "harness/e_lanes", "serves_properties": ["C01", "C13", "C14", "C15", "C16", "C17"], "kind_free_text": "lane-lift reference-model monitors (Rust primitive per lane), exhaustive small domains"},
        {"name": "e_geom", "path": "harness/e_geom", "serves_properties": ["C02", "C03", "C04", "C05", "C06", "C09", "C10", "C11", "C12"], "kind_free_text": "higher-precision (f64 / double-double) and exact-integer reference monitors with analytic error bounds"},
        {"name": "e_api", "path": "harness/e_api", "serves_properties": ["C07", "C08", "C18", "C20"], "kind_free_text": "generated registry of every public inherent function; twin execution (hidden lane), panic monitor, cross-build trace recorder"},
        {"name": "e_interop", "path": "harness/e_interop", "serves_properties": ["C19"], "kind_free_text": "token-stream serde model, byte-image model for bytemuck/rkyv, mint round trips"},
        {"name": "check", "path": "check", "serves_properties": [], "kind_free_text": "python driver: builds configurations from the working tree, shards runs, merges monitor summaries, sanitizer runs (Miri, ASan, memcheck), trace comparison, known-finding matching, evidence"},
    ],
    "checks": checks,
    "not_applicable": na,
    "notes": "All checks rebuild the harness against /repo's working tree through a cargo path dependency. NEON and wasm32 back ends cannot be compiled or executed in this sandbox and are listed per property under coverage.configs_not_observed.",
}
if not na:
    del m["not_applicable"]
json.dump(m, open(os.path.join(ROOT, "MANIFEST.json"), "w"), indent=1)
print("checks:", [c["property_id"] for c in checks], "not claimed:", [n["property_id"] for n in na])

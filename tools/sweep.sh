#!/bin/bash
# Development aid: run every check at one tier and seed against a private copy of /repo (so that /repo can be
# patched with seeded changes meanwhile).  usage: tools/sweep.sh <tier> <seed> [props...]
tier=$1; seed=$2; shift 2
props=${@:-C01 C02 C03 C04 C05 C06 C07 C08 C09 C10 C11 C12 C13 C14 C15 C16 C17 C18 C19 C20}
here=$(cd "$(dirname "$0")/.." && pwd)
copy=$(dirname "$here")/repo-copy-$$
rsync -a --exclude target /repo/ "$copy"/
# /repo may momentarily carry a seeded change applied by tools/seeded.py: the sweep always uses the committed tree
git -C "$copy" checkout -q -- . ; git -C "$copy" status --porcelain --untracked-files=no | head -3
export VERIF_REPO="$copy"
cd "$here"
for p in $props; do
  VERIF_SEED=$seed ./check $p --tier $tier 2>&1 | grep -E "^(C[0-9]+ |VIOLATION|INFRA|INCONCLUSIVE|KNOWN)" | cut -c1-260
done
rm -rf "$copy" "$here/.build" "$here/.work"
echo SWEEP-DONE tier=$tier seed=$seed

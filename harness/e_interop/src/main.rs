//! e_interop: C19 - serialisation and interop round-trip every value, identically across back ends.
#![cfg_attr(feature = "core-simd", feature(portable_simd))]
#![allow(clippy::all)]

mod tok;

use glam::*;
use std::marker::PhantomData;
use tok::*;
use vcommon::mon::*;
use vcommon::rng::{hash_str, Rng};

// ---- scalars -----------------------------------------------------------------------------------------------
pub trait Sc: Copy + PartialEq + core::fmt::Debug + 'static {
    const SIZE: usize;
    fn tok(self) -> Tok;
    fn from_bits(b: u64) -> Self;
    fn bits(self) -> u64;
    fn ne_bytes(self) -> Vec<u8>;
    fn finite_val(r: &mut Rng) -> Self;
    fn zero() -> Self;
}
macro_rules! sc_int {
    ($t:ty, $v:ident) => {
        impl Sc for $t {
            const SIZE: usize = core::mem::size_of::<$t>();
            fn tok(self) -> Tok { Tok::$v(self as _) }
            fn from_bits(b: u64) -> Self { b as $t }
            fn bits(self) -> u64 { self as u64 }
            fn ne_bytes(self) -> Vec<u8> { self.to_ne_bytes().to_vec() }
            fn finite_val(r: &mut Rng) -> Self { r.next_u64() as $t }
            fn zero() -> Self { 0 }
        }
    };
}
sc_int!(i8, I8);
sc_int!(u8, U8);
sc_int!(i16, I16);
sc_int!(u16, U16);
sc_int!(i32, I32);
sc_int!(u32, U32);
sc_int!(i64, I64);
sc_int!(u64, U64);
impl Sc for usize {
    const SIZE: usize = core::mem::size_of::<usize>();
    fn tok(self) -> Tok { Tok::U64(self as u64) }
    fn from_bits(b: u64) -> Self { b as usize }
    fn bits(self) -> u64 { self as u64 }
    fn ne_bytes(self) -> Vec<u8> { self.to_ne_bytes().to_vec() }
    fn finite_val(r: &mut Rng) -> Self { r.next_u64() as usize }
    fn zero() -> Self { 0 }
}
impl Sc for f32 {
    const SIZE: usize = 4;
    fn tok(self) -> Tok { Tok::F32(self.to_bits()) }
    fn from_bits(b: u64) -> Self { f32::from_bits(b as u32) }
    fn bits(self) -> u64 { self.to_bits() as u64 }
    fn ne_bytes(self) -> Vec<u8> { self.to_ne_bytes().to_vec() }
    fn finite_val(r: &mut Rng) -> Self { loop { let v = f32::from_bits(r.next_u32()); if v.is_finite() { return v; } } }
    fn zero() -> Self { 0.0 }
}
impl Sc for f64 {
    const SIZE: usize = 8;
    fn tok(self) -> Tok { Tok::F64(self.to_bits()) }
    fn from_bits(b: u64) -> Self { f64::from_bits(b) }
    fn bits(self) -> u64 { self.to_bits() }
    fn ne_bytes(self) -> Vec<u8> { self.to_ne_bytes().to_vec() }
    fn finite_val(r: &mut Rng) -> Self { loop { let v = f64::from_bits(r.next_u64()); if v.is_finite() { return v; } } }
    fn zero() -> Self { 0.0 }
}
impl Sc for bool {
    const SIZE: usize = 1;
    fn tok(self) -> Tok { Tok::Bool(self) }
    fn from_bits(b: u64) -> Self { b & 1 == 1 }
    fn bits(self) -> u64 { self as u64 }
    fn ne_bytes(self) -> Vec<u8> { vec![self as u8] }
    fn finite_val(r: &mut Rng) -> Self { r.bool() }
    fn zero() -> Self { false }
}

// ---- value types -------------------------------------------------------------------------------------------
pub trait Ty: Copy + 'static {
    type S: Sc;
    const N: usize;
    const NAME: &'static str;
    fn from_elems(e: &[Self::S]) -> Self;
    fn elems(&self) -> Vec<Self::S>;
    /// byte offset of element k inside the in-memory value (padding excluded)
    fn offset(k: usize) -> usize {
        k * Self::S::SIZE
    }
}
macro_rules! ty_vec {
    ($T:ident, $S:ty, $N:expr) => {
        impl Ty for $T {
            type S = $S;
            const N: usize = $N;
            const NAME: &'static str = stringify!($T);
            fn from_elems(e: &[$S]) -> Self { <$T>::from_array(core::array::from_fn(|k| e[k])) }
            fn elems(&self) -> Vec<$S> { self.to_array().to_vec() }
        }
    };
}
macro_rules! ty_mat {
    ($T:ident, $S:ty, $N:expr, $stride:expr, $rows:expr) => {
        impl Ty for $T {
            type S = $S;
            const N: usize = $N;
            const NAME: &'static str = stringify!($T);
            fn from_elems(e: &[$S]) -> Self { <$T>::from_cols_array(&core::array::from_fn(|k| e[k])) }
            fn elems(&self) -> Vec<$S> { self.to_cols_array().to_vec() }
            fn offset(k: usize) -> usize { (k / $rows) * $stride + (k % $rows) * core::mem::size_of::<$S>() }
        }
    };
}
macro_rules! ty_mask {
    ($T:ident, $N:expr, [$($i:tt),*]) => {
        impl Ty for $T {
            type S = bool;
            const N: usize = $N;
            const NAME: &'static str = stringify!($T);
            fn from_elems(e: &[bool]) -> Self { <$T>::new($(e[$i]),*) }
            fn elems(&self) -> Vec<bool> { let a: [bool; $N] = (*self).into(); a.to_vec() }
        }
    };
}
macro_rules! all_vecs {
    ($m:ident) => {
        $m!(Vec2, f32, 2); $m!(Vec3, f32, 3); $m!(Vec3A, f32, 3); $m!(Vec4, f32, 4); $m!(Quat, f32, 4);
        $m!(DVec2, f64, 2); $m!(DVec3, f64, 3); $m!(DVec4, f64, 4); $m!(DQuat, f64, 4);
        $m!(I8Vec2, i8, 2); $m!(I8Vec3, i8, 3); $m!(I8Vec4, i8, 4); $m!(U8Vec2, u8, 2); $m!(U8Vec3, u8, 3); $m!(U8Vec4, u8, 4);
        $m!(I16Vec2, i16, 2); $m!(I16Vec3, i16, 3); $m!(I16Vec4, i16, 4); $m!(U16Vec2, u16, 2); $m!(U16Vec3, u16, 3); $m!(U16Vec4, u16, 4);
        $m!(IVec2, i32, 2); $m!(IVec3, i32, 3); $m!(IVec4, i32, 4); $m!(UVec2, u32, 2); $m!(UVec3, u32, 3); $m!(UVec4, u32, 4);
        $m!(I64Vec2, i64, 2); $m!(I64Vec3, i64, 3); $m!(I64Vec4, i64, 4); $m!(U64Vec2, u64, 2); $m!(U64Vec3, u64, 3); $m!(U64Vec4, u64, 4);
        $m!(USizeVec2, usize, 2); $m!(USizeVec3, usize, 3); $m!(USizeVec4, usize, 4);
    };
}
all_vecs!(ty_vec);
ty_mat!(Mat2, f32, 4, 8, 2);
ty_mat!(Mat3, f32, 9, 12, 3);
ty_mat!(Mat3A, f32, 9, 16, 3);
ty_mat!(Mat4, f32, 16, 16, 4);
ty_mat!(DMat2, f64, 4, 16, 2);
ty_mat!(DMat3, f64, 9, 24, 3);
ty_mat!(DMat4, f64, 16, 32, 4);
ty_mat!(Affine2, f32, 6, 8, 2);
ty_mat!(Affine3A, f32, 12, 16, 3);
ty_mat!(DAffine2, f64, 6, 16, 2);
ty_mat!(DAffine3, f64, 12, 24, 3);
ty_mask!(BVec2, 2, [0, 1]);
ty_mask!(BVec3, 3, [0, 1, 2]);
ty_mask!(BVec4, 4, [0, 1, 2, 3]);
ty_mask!(BVec3A, 3, [0, 1, 2]);
ty_mask!(BVec4A, 4, [0, 1, 2, 3]);

fn gen_elems<T: Ty>(r: &mut Rng, round: u64) -> Vec<T::S> {
    (0..T::N).map(|k| if round < 3 { T::S::from_bits(pattern(round, k)) } else { T::S::finite_val(r) }).collect()
}
fn pattern(round: u64, k: usize) -> u64 {
    // bit patterns incl. NaN payloads / -0 / extremes (interpreted per scalar type)
    let p: [u64; 6] = [0x7fc1_2345, 0x8000_0000, 0xffff_ffff_ffff_ffff, 0x7ff8_0000_dead_beef, 0x0000_0001, 0x8000_0000_0000_0000];
    p[(round as usize * 2 + k) % 6] ^ ((k as u64) << 8)
}
fn bits_of<T: Ty>(e: &[T::S]) -> Vec<u64> {
    e.iter().map(|x| x.bits()).collect()
}

// ---- serde ----------------------------------------------------------------------------------------------------
fn serde_check<T: Ty + serde::Serialize + for<'de> serde::Deserialize<'de>>(mon: &mut Monitor, json: &mut Vec<(String, String)>, miri: bool) {
    let Some(mut c) = mon.begin(T::NAME, "serde token stream / json") else { return };
    let mut rng = Rng::new(mon.op_seed(T::NAME, "serde"));
    let rounds = if miri { 3 } else { mon.n(40, 4000) };
    for round in 0..rounds {
        let e = gen_elems::<T>(&mut rng, round);
        let v = T::from_elems(&e);
        let e = v.elems(); // masks normalise
        let inp = || format!("{} elems {:?}", T::NAME, e);
        c.event(round % 64, true);
        // 1. serialise: TupleStruct{name, N}, N scalar tokens in lane / column-major order, End
        let mut ser = TokSer { toks: vec![] };
        let r = v.serialize(&mut ser);
        let mut want = vec![Tok::TupleStruct(T::NAME, T::N)];
        want.extend(e.iter().map(|x| x.tok()));
        want.push(Tok::End);
        if r.is_err() || ser.toks != want {
            c.violation("serde", &["serialize"], inp(), format!("{:?} {:?}", r.err(), ser.toks), format!("{:?}", want), "must serialise as a flat tuple struct of its N elements in order".into());
            continue;
        }
        if c.need_sample() { c.sample(format!("{} -> {:?}", T::NAME, ser.toks)); }
        // 2. deserialise the exact stream back
        let mut de = TokDe { elems: want[1..=T::N].to_vec(), requested: None, next_calls: 0, other_entry: None };
        match T::deserialize(&mut de) {
            Ok(back) => {
                if bits_of::<T>(&back.elems()) != bits_of::<T>(&e) {
                    c.violation("serde", &["roundtrip"], inp(), format!("{:?}", back.elems()), format!("{:?}", e), "deserialised value must be bit-identical".into());
                }
            }
            Err(err) => c.violation("serde", &["deserialize"], inp(), err.0, "Ok".into(), String::new()),
        }
        // the property fixes the shape (a flat sequence of exactly N elements), not the struct name handed to the
        // deserializer; a name mismatch is only noted (BVec3A passes the literal "$vec3")
        if de.requested.map(|r| r.1) != Some(T::N) {
            c.violation("serde", &["requested"], inp(), format!("{:?}", de.requested), format!("{:?}", (T::NAME, T::N)), "must request a tuple struct of exactly N elements".into());
        } else if de.requested.map(|r| r.0) != Some(T::NAME) {
            c.count("deserialize_requested_other_struct_name");
        }
        // 3. every other length 0..N+2
        if round < 4 {
            for len in 0..T::N + 3 {
                if len == T::N { continue; }
                let mut elems: Vec<Tok> = want[1..=T::N].to_vec();
                while elems.len() < len { elems.push(e[0].tok()); }
                elems.truncate(len);
                let mut de = TokDe { elems, requested: None, next_calls: 0, other_entry: None };
                let r = T::deserialize(&mut de);
                c.event(1000 + len as u64, true);
                if len < T::N {
                    if r.is_ok() {
                        c.violation("serde", &["short_accepted"], format!("{} sequence of {} elements", T::NAME, len), "Ok".into(), "Err(invalid length)".into(), "a sequence shorter than N must be rejected".into());
                    }
                } else {
                    // the format rejects the surplus when the visitor consumed exactly N and asked for exactly N
                    if de.requested.map(|r| r.1) != Some(T::N) || de.next_calls != T::N {
                        c.violation("serde", &["long_consumption"], format!("{} sequence of {} elements", T::NAME, len), format!("requested {:?}, consumed {}", de.requested, de.next_calls), format!("requested N, consumed {}", T::N), "must consume exactly N elements so that the carrier can reject the surplus".into());
                    }
                }
            }
        }
        // 4. serde_json text (finite values round-trip; strings recorded for the cross-build comparison)
        if round >= 3 && !miri {
            match serde_json::to_string(&v) {
                Ok(s) => {
                    if round < 20 { json.push((format!("{}#{}", T::NAME, round), s.clone())); }
                    match serde_json::from_str::<T>(&s) {
                        Ok(back) => { if bits_of::<T>(&back.elems()) != bits_of::<T>(&e) { c.violation("serde", &["json_roundtrip"], inp(), format!("{:?} via {}", back.elems(), s), format!("{:?}", e), String::new()); } }
                        Err(err) => c.violation("serde", &["json_parse"], inp(), format!("{} ({})", err, s), "Ok".into(), String::new()),
                    }
                    // one element more / fewer in the text must be rejected
                    let longer = format!("{},0]", &s[..s.len() - 1]).replace("0]", if core::any::TypeId::of::<T::S>() == core::any::TypeId::of::<bool>() { "true]" } else { "0]" });
                    if serde_json::from_str::<T>(&longer).is_ok() {
                        c.violation("serde", &["json_long_accepted"], longer, "Ok".into(), "Err".into(), "sequences of any other length must be rejected".into());
                    }
                    if let Some(p) = s.rfind(',') {
                        let shorter = format!("{}]", &s[..p]);
                        if serde_json::from_str::<T>(&shorter).is_ok() {
                            c.violation("serde", &["json_short_accepted"], shorter, "Ok".into(), "Err".into(), String::new());
                        }
                    }
                }
                Err(err) => c.violation("serde", &["json_serialize"], inp(), err.to_string(), "Ok".into(), String::new()),
            }
        }
    }
    mon.end(c);
}

// ---- bytemuck --------------------------------------------------------------------------------------------------
struct Probe<T>(PhantomData<T>);
trait NotPod { fn is_pod(&self) -> bool { false } }
impl<T> NotPod for &Probe<T> {}
impl<T: bytemuck::Pod> Probe<T> { fn is_pod(&self) -> bool { true } }
macro_rules! is_pod { ($T:ty) => { (&Probe::<$T>(PhantomData)).is_pod() }; }

fn elem_bytes<T: Ty>(e: &[T::S]) -> Vec<u8> {
    e.iter().flat_map(|x| x.ne_bytes()).collect()
}

fn pod_check<T: Ty + bytemuck::Pod>(mon: &mut Monitor, miri: bool) {
    let Some(mut c) = mon.begin(T::NAME, "bytemuck Pod") else { return };
    let mut rng = Rng::new(mon.op_seed(T::NAME, "pod"));
    let size = core::mem::size_of::<T>();
    c.event(0, true);
    if size != T::N * T::S::SIZE {
        c.violation("bytemuck", &["pod_with_padding"], T::NAME.into(), format!("size_of = {}", size), format!("{}", T::N * T::S::SIZE), "only types without padding may be Pod".into());
    }
    let z: T = bytemuck::Zeroable::zeroed();
    if bits_of::<T>(&z.elems()) != vec![T::S::zero().bits(); T::N] {
        c.violation("bytemuck", &["zeroed"], T::NAME.into(), format!("{:?}", z.elems()), "zero value".into(), String::new());
    }
    for round in 0..if miri { 3 } else { mon.n(40, 4000) } {
        let e: Vec<T::S> = (0..T::N).map(|k| if round < 3 { T::S::from_bits(pattern(round, k)) } else { T::S::from_bits(rng.next_u64()) }).collect();
        let want = elem_bytes::<T>(&e);
        let v = T::from_elems(&e);
        c.event(1 + round % 32, true);
        // bytes_of: the elements in order, native endianness (reads every byte: padding would be uninitialised under Miri)
        let b = bytemuck::bytes_of(&v);
        if b != &want[..] {
            c.violation("bytemuck", &["bytes_of"], format!("{} {:?}", T::NAME, e), format!("{:02x?}", b), format!("{:02x?}", want), "byte image must be the elements in order".into());
        }
        // there and back for every bit pattern
        let back: T = bytemuck::pod_read_unaligned(&want);
        if bytemuck::bytes_of(&back) != &want[..] || bits_of::<T>(&back.elems()) != bits_of::<T>(&e) {
            c.violation("bytemuck", &["cast_roundtrip"], format!("{} {:?}", T::NAME, e), format!("{:?}", back.elems()), format!("{:?}", e), "casting there and back must be the identity for every bit pattern".into());
        }
        let two = [v, back];
        let sl: &[T::S] = bytemuck_cast_slice::<T>(&two);
        if sl.len() != 2 * T::N || (0..T::N).any(|k| sl[k].bits() != e[k].bits() || sl[T::N + k].bits() != e[k].bits()) {
            c.violation("bytemuck", &["cast_slice"], format!("{} {:?}", T::NAME, e), format!("{:?}", sl), String::new(), String::new());
        }
        if c.need_sample() { c.sample(format!("{}: bytes_of({:?}) = {:02x?}", T::NAME, e, b)); }
    }
    mon.end(c);
}
fn bytemuck_cast_slice<T: Ty + bytemuck::Pod>(v: &[T]) -> &[T::S] {
    // T::S is Pod for every numeric scalar; expressed through raw parts because the bound is not nameable generically
    let bytes: &[u8] = bytemuck::cast_slice(v);
    unsafe { core::slice::from_raw_parts(bytes.as_ptr() as *const T::S, bytes.len() / T::S::SIZE) }
}

fn anybit_check<T: Ty + bytemuck::AnyBitPattern>(mon: &mut Monitor, miri: bool) {
    let Some(mut c) = mon.begin(T::NAME, "bytemuck AnyBitPattern") else { return };
    let mut rng = Rng::new(mon.op_seed(T::NAME, "anybit"));
    let size = core::mem::size_of::<T>();
    let z: T = bytemuck::Zeroable::zeroed();
    c.event(0, true);
    if bits_of::<T>(&z.elems()) != vec![T::S::zero().bits(); T::N] {
        c.violation("bytemuck", &["zeroed"], T::NAME.into(), format!("{:?}", z.elems()), "zero value".into(), String::new());
    }
    for round in 0..if miri { 3 } else { mon.n(40, 4000) } {
        // every byte random (padding included): the visible elements must decode from their offsets
        let bytes: Vec<u8> = (0..size).map(|_| rng.next_u32() as u8).collect();
        let v: T = bytemuck::pod_read_unaligned(&bytes);
        let got = v.elems();
        c.event(1 + round % 32, true);
        for k in 0..T::N {
            let off = T::offset(k);
            if got[k].ne_bytes() != bytes[off..off + T::S::SIZE] {
                c.violation("bytemuck", &["anybit_elements"], format!("{} bytes {:02x?}", T::NAME, bytes), format!("{:?}", got), String::new(), format!("element {} must be the bytes at offset {}", k, off));
                break;
            }
        }
    }
    c.sample(format!("{} ({} bytes, {} element bytes): AnyBitPattern + Zeroable, not Pod", T::NAME, size, T::N * T::S::SIZE));
    mon.end(c);
}

// ---- rkyv -------------------------------------------------------------------------------------------------------
fn rkyv_check<T>(mon: &mut Monitor, miri: bool)
where
    T: Ty + rkyv::Archive<Archived = T> + for<'a> rkyv::Serialize<rkyv::api::high::HighSerializer<rkyv::util::AlignedVec, rkyv::ser::allocator::ArenaHandle<'a>, rkyv::rancor::Error>> + rkyv::Portable + for<'a> rkyv::bytecheck::CheckBytes<rkyv::api::high::HighValidator<'a, rkyv::rancor::Error>> + rkyv::Deserialize<T, rkyv::api::high::HighDeserializer<rkyv::rancor::Error>>,
{
    let Some(mut c) = mon.begin(T::NAME, "rkyv archive") else { return };
    let mut rng = Rng::new(mon.op_seed(T::NAME, "rkyv"));
    for round in 0..if miri { 2 } else { mon.n(30, 3000) } {
        let e: Vec<T::S> = (0..T::N).map(|k| if round < 3 { T::S::from_bits(pattern(round, k)) } else { T::S::from_bits(rng.next_u64()) }).collect();
        let v = T::from_elems(&e);
        let e = v.elems();
        c.event(round % 32, true);
        let bytes = match rkyv::to_bytes::<rkyv::rancor::Error>(&v) {
            Ok(b) => b,
            Err(err) => { c.violation("rkyv", &["to_bytes"], T::NAME.into(), err.to_string(), "Ok".into(), String::new()); continue; }
        };
        // element bytes only (padding excluded): the elements in order, native endianness
        let base = bytes.len() - core::mem::size_of::<T>();
        for k in 0..T::N {
            let off = base + T::offset(k);
            if bytes[off..off + T::S::SIZE] != e[k].ne_bytes()[..] {
                c.violation("rkyv", &["byte_image"], format!("{} {:?}", T::NAME, e), format!("{:02x?}", &bytes[off..off + T::S::SIZE]), format!("{:02x?}", e[k].ne_bytes()), format!("element {} at offset {}", k, T::offset(k)));
                break;
            }
        }
        match rkyv::access::<T, rkyv::rancor::Error>(&bytes) {
            Ok(a) => {
                if bits_of::<T>(&a.elems()) != bits_of::<T>(&e) {
                    c.violation("rkyv", &["access"], format!("{} {:?}", T::NAME, e), format!("{:?}", a.elems()), String::new(), String::new());
                }
                match rkyv::deserialize::<T, rkyv::rancor::Error>(a) {
                    Ok(d) => { if bits_of::<T>(&d.elems()) != bits_of::<T>(&e) { c.violation("rkyv", &["deserialize"], format!("{} {:?}", T::NAME, e), format!("{:?}", d.elems()), String::new(), String::new()); } }
                    Err(err) => c.violation("rkyv", &["deserialize"], T::NAME.into(), err.to_string(), "Ok".into(), String::new()),
                }
            }
            Err(err) => c.violation("rkyv", &["access"], T::NAME.into(), err.to_string(), "Ok".into(), String::new()),
        }
        if c.need_sample() { c.sample(format!("{}: archive of {:?} is {} bytes", T::NAME, e, bytes.len())); }
    }
    mon.end(c);
}

// ---- mint ---------------------------------------------------------------------------------------------------------
fn mint_checks(mon: &mut Monitor) {
    macro_rules! v2 { ($T:ident, $S:ty) => {
        if let Some(mut c) = mon.begin(stringify!($T), "mint") {
            for round in 0..20u64 {
                let e: [$S; 2] = core::array::from_fn(|k| <$S as Sc>::from_bits(pattern(round % 3, k) ^ round));
                let v = <$T>::from_array(e);
                let p: mint::Point2<$S> = v.into();
                let w: mint::Vector2<$S> = v.into();
                let ok = p.x.bits() == e[0].bits() && p.y.bits() == e[1].bits() && w.x.bits() == e[0].bits() && w.y.bits() == e[1].bits() && bits_of::<$T>(&<$T>::from(p).elems()) == bits_of::<$T>(&e) && bits_of::<$T>(&<$T>::from(w).elems()) == bits_of::<$T>(&e);
                c.event(round, true);
                if !ok { c.violation("mint", &["vec2"], format!("{:?}", e), format!("{:?} {:?}", p, w), String::new(), "to mint and back must be the identity".into()); }
            }
            c.sample(format!("{} <-> mint::Point2/Vector2", stringify!($T)));
            mon.end(c);
        }
    }; }
    macro_rules! v3 { ($T:ident, $S:ty) => {
        if let Some(mut c) = mon.begin(stringify!($T), "mint") {
            for round in 0..20u64 {
                let e: [$S; 3] = core::array::from_fn(|k| <$S as Sc>::from_bits(pattern(round % 3, k) ^ round));
                let v = <$T>::from_array(e);
                let p: mint::Point3<$S> = v.into();
                let w: mint::Vector3<$S> = v.into();
                let ok = [p.x, p.y, p.z].iter().zip(e.iter()).all(|(a, b)| a.bits() == b.bits()) && [w.x, w.y, w.z].iter().zip(e.iter()).all(|(a, b)| a.bits() == b.bits()) && bits_of::<$T>(&<$T>::from(p).elems()) == bits_of::<$T>(&e) && bits_of::<$T>(&<$T>::from(w).elems()) == bits_of::<$T>(&e);
                c.event(round, true);
                if !ok { c.violation("mint", &["vec3"], format!("{:?}", e), format!("{:?} {:?}", p, w), String::new(), "to mint and back must be the identity".into()); }
            }
            c.sample(format!("{} <-> mint::Point3/Vector3", stringify!($T)));
            mon.end(c);
        }
    }; }
    macro_rules! v4 { ($T:ident, $S:ty) => {
        if let Some(mut c) = mon.begin(stringify!($T), "mint") {
            for round in 0..20u64 {
                let e: [$S; 4] = core::array::from_fn(|k| <$S as Sc>::from_bits(pattern(round % 3, k) ^ round));
                let v = <$T>::from_array(e);
                let w: mint::Vector4<$S> = v.into();
                let ok = [w.x, w.y, w.z, w.w].iter().zip(e.iter()).all(|(a, b)| a.bits() == b.bits()) && bits_of::<$T>(&<$T>::from(w).elems()) == bits_of::<$T>(&e);
                c.event(round, true);
                if !ok { c.violation("mint", &["vec4"], format!("{:?}", e), format!("{:?}", w), String::new(), "to mint and back must be the identity".into()); }
            }
            c.sample(format!("{} <-> mint::Vector4", stringify!($T)));
            mon.end(c);
        }
    }; }
    macro_rules! fam { ($S:ty, $A:ident, $B:ident, $C:ident) => { v2!($A, $S); v3!($B, $S); v4!($C, $S); }; }
    fam!(f32, Vec2, Vec3, Vec4); fam!(f64, DVec2, DVec3, DVec4); fam!(i8, I8Vec2, I8Vec3, I8Vec4); fam!(u8, U8Vec2, U8Vec3, U8Vec4);
    fam!(i16, I16Vec2, I16Vec3, I16Vec4); fam!(u16, U16Vec2, U16Vec3, U16Vec4); fam!(i32, IVec2, IVec3, IVec4); fam!(u32, UVec2, UVec3, UVec4);
    fam!(i64, I64Vec2, I64Vec3, I64Vec4); fam!(u64, U64Vec2, U64Vec3, U64Vec4); fam!(usize, USizeVec2, USizeVec3, USizeVec4);
    v3!(Vec3A, f32);
    macro_rules! quat { ($Q:ident, $S:ty) => {
        if let Some(mut c) = mon.begin(stringify!($Q), "mint") {
            for round in 0..20u64 {
                let e: [$S; 4] = core::array::from_fn(|k| <$S as Sc>::from_bits(pattern(round % 3, k) ^ round));
                let q = <$Q>::from_array(e);
                let m: mint::Quaternion<$S> = q.into();
                let ok = m.v.x.bits() == e[0].bits() && m.v.y.bits() == e[1].bits() && m.v.z.bits() == e[2].bits() && m.s.bits() == e[3].bits() && bits_of::<$Q>(&<$Q>::from(m).elems()) == bits_of::<$Q>(&e);
                c.event(round, true);
                if !ok { c.violation("mint", &["quat"], format!("{:?}", e), format!("{:?}", m), String::new(), "vector part = xyz, scalar = w".into()); }
            }
            c.sample(format!("{} <-> mint::Quaternion", stringify!($Q)));
            mon.end(c);
        }
    }; }
    quat!(Quat, f32);
    quat!(DQuat, f64);
    // matrices: column-major mint matrices carry the same columns, row-major ones the transposed layout: entry (r, c) preserved
    macro_rules! mat { ($M:ident, $S:ty, $n:expr, $Col:ident, $Row:ident, [$($f:ident),*]) => {
        if let Some(mut c) = mon.begin(stringify!($M), "mint") {
            for round in 0..20u64 {
                let e: [$S; $n * $n] = core::array::from_fn(|k| <$S as Sc>::from_bits(pattern(round % 3, k) ^ (round << 3) ^ ((k as u64) << 20)));
                let m = <$M>::from_cols_array(&e);
                let cm: mint::$Col<$S> = m.into();
                let rm: mint::$Row<$S> = m.into();
                let cols: Vec<Vec<$S>> = vec![$( { let a: [$S; $n] = cm.$f.into(); a.to_vec() } ),*];
                let rows: Vec<Vec<$S>> = vec![$( { let a: [$S; $n] = rm.$f.into(); a.to_vec() } ),*];
                let mut ok = true;
                for col in 0..$n { for row in 0..$n {
                    ok &= cols[col][row].bits() == e[col * $n + row].bits(); // column k of the mint matrix = column k
                    ok &= rows[row][col].bits() == e[col * $n + row].bits(); // row r of the row-major matrix holds entries (r, *)
                } }
                ok &= bits_of::<$M>(&<$M>::from(cm).elems()) == bits_of::<$M>(&e) && bits_of::<$M>(&<$M>::from(rm).elems()) == bits_of::<$M>(&e);
                c.event(round, true);
                if !ok { c.violation("mint", &["matrix"], format!("{:?}", e), format!("{:?} / {:?}", cols, rows), String::new(), "entry (r, c) must be preserved by column-major and row-major mint conversions".into()); }
            }
            c.sample(format!("{} <-> mint column-major and row-major matrices", stringify!($M)));
            mon.end(c);
        }
    }; }
    mat!(Mat2, f32, 2, ColumnMatrix2, RowMatrix2, [x, y]);
    mat!(Mat3, f32, 3, ColumnMatrix3, RowMatrix3, [x, y, z]);
    mat!(Mat3A, f32, 3, ColumnMatrix3, RowMatrix3, [x, y, z]);
    mat!(Mat4, f32, 4, ColumnMatrix4, RowMatrix4, [x, y, z, w]);
    mat!(DMat2, f64, 2, ColumnMatrix2, RowMatrix2, [x, y]);
    mat!(DMat3, f64, 3, ColumnMatrix3, RowMatrix3, [x, y, z]);
    mat!(DMat4, f64, 4, ColumnMatrix4, RowMatrix4, [x, y, z, w]);
}

fn canaries(mon: &mut Monitor) {
    #[derive(Clone, Copy)]
    struct Bad(Vec3);
    impl Ty for Bad { type S = f32; const N: usize = 3; const NAME: &'static str = "Bad"; fn from_elems(e: &[f32]) -> Self { Bad(Vec3::new(e[0], e[1], e[2])) } fn elems(&self) -> Vec<f32> { self.0.to_array().to_vec() } }
    impl serde::Serialize for Bad {
        fn serialize<S: serde::Serializer>(&self, s: S) -> Result<S::Ok, S::Error> {
            use serde::ser::SerializeTupleStruct;
            let mut st = s.serialize_tuple_struct("Bad", 3)?;
            st.serialize_field(&self.0.x)?; st.serialize_field(&self.0.z)?; st.serialize_field(&self.0.y)?; st.end()
        }
    }
    impl<'de> serde::Deserialize<'de> for Bad { fn deserialize<D: serde::Deserializer<'de>>(d: D) -> Result<Self, D::Error> { Vec3::deserialize(d).map(Bad) } }
    mon.canary("serialiser emitting lanes out of order", |m| { let mut j = vec![]; serde_check::<Bad>(m, &mut j, true); });
    #[derive(Clone, Copy)]
    struct Lenient(Vec2);
    impl Ty for Lenient { type S = f32; const N: usize = 2; const NAME: &'static str = "Vec2"; fn from_elems(e: &[f32]) -> Self { Lenient(Vec2::new(e[0], e[1])) } fn elems(&self) -> Vec<f32> { self.0.to_array().to_vec() } }
    impl serde::Serialize for Lenient { fn serialize<S: serde::Serializer>(&self, s: S) -> Result<S::Ok, S::Error> { self.0.serialize(s) } }
    impl<'de> serde::Deserialize<'de> for Lenient {
        fn deserialize<D: serde::Deserializer<'de>>(d: D) -> Result<Self, D::Error> {
            struct V;
            impl<'de> serde::de::Visitor<'de> for V {
                type Value = Lenient;
                fn expecting(&self, f: &mut std::fmt::Formatter<'_>) -> std::fmt::Result { f.write_str("2 floats") }
                fn visit_seq<A: serde::de::SeqAccess<'de>>(self, mut seq: A) -> Result<Lenient, A::Error> {
                    let x: f32 = seq.next_element()?.unwrap_or(0.0);
                    let y: f32 = seq.next_element()?.unwrap_or(0.0);
                    Ok(Lenient(Vec2::new(x, y)))
                }
            }
            d.deserialize_tuple_struct("Vec2", 2, V)
        }
    }
    mon.canary("deserialiser accepting short sequences", |m| { let mut j = vec![]; serde_check::<Lenient>(m, &mut j, true); });
}

fn main() {
    let args = Args::parse();
    let mut mon = args.monitor();
    vcommon::mon::quiet_panics();
    let miri = args.mode.as_deref() == Some("miri");
    let mut json: Vec<(String, String)> = vec![];
    if !miri { canaries(&mut mon); }
    macro_rules! serde_all { ($T:ident, $S:ty, $N:expr) => { serde_check::<$T>(&mut mon, &mut json, miri); }; }
    all_vecs!(serde_all);
    macro_rules! each { ($f:ident; $($T:ident),*) => { $( $f::<$T>(&mut mon, miri); )* }; }
    macro_rules! serde_each { ($($T:ident),*) => { $( serde_check::<$T>(&mut mon, &mut json, miri); )* }; }
    serde_each!(Mat2, Mat3, Mat3A, Mat4, DMat2, DMat3, DMat4, Affine2, Affine3A, DAffine2, DAffine3, BVec2, BVec3, BVec4);
    // the SIMD mask types have serde impls only outside scalar-math
    #[cfg(not(feature = "scalar-math"))]
    serde_each!(BVec3A, BVec4A);
    // bytemuck: Pod types (everything without padding) and the AnyBitPattern-only ones
    each!(pod_check; Vec2, Vec3, Vec4, Quat, Mat2, Mat3, Mat4, DVec2, DVec3, DVec4, DQuat, DMat2, DMat3, DMat4, DAffine2, DAffine3,
        I8Vec2, I8Vec3, I8Vec4, U8Vec2, U8Vec3, U8Vec4, I16Vec2, I16Vec3, I16Vec4, U16Vec2, U16Vec3, U16Vec4, IVec2, IVec3, IVec4, UVec2, UVec3, UVec4,
        I64Vec2, I64Vec3, I64Vec4, U64Vec2, U64Vec3, U64Vec4);
    each!(anybit_check; Vec3A, Mat3A, Affine2, Affine3A);
    // the Pod set itself: a newly added Pod impl on a padded type is caught here
    if let Some(mut c) = mon.begin("Pod set", "only types without padding are Pod") {
        let table: Vec<(&str, bool, usize, usize)> = vec![
            ("Vec3A", is_pod!(Vec3A), core::mem::size_of::<Vec3A>(), 12), ("Mat3A", is_pod!(Mat3A), core::mem::size_of::<Mat3A>(), 36),
            ("Affine2", is_pod!(Affine2), core::mem::size_of::<Affine2>(), 24), ("Affine3A", is_pod!(Affine3A), core::mem::size_of::<Affine3A>(), 48),
            ("Vec3", is_pod!(Vec3), core::mem::size_of::<Vec3>(), 12), ("Mat3", is_pod!(Mat3), core::mem::size_of::<Mat3>(), 36), ("Vec4", is_pod!(Vec4), core::mem::size_of::<Vec4>(), 16),
            ("BVec3A", is_pod!(BVec3A), core::mem::size_of::<BVec3A>(), 16), ("BVec4A", is_pod!(BVec4A), core::mem::size_of::<BVec4A>(), 16), ("BVec3", is_pod!(BVec3), 3, 3),
        ];
        for (n, pod, size, elem_bytes) in &table {
            c.event(hash_str(n), true);
            if *pod && size != elem_bytes {
                c.violation("bytemuck", &["pod_with_padding"], n.to_string(), format!("Pod with size {} but {} element bytes", size, elem_bytes), String::new(), "only types without padding are Pod".into());
            }
            if n.starts_with("BVec") && *pod {
                c.violation("bytemuck", &["pod_mask"], n.to_string(), "Pod".into(), "not Pod (not every bit pattern is a mask)".into(), String::new());
            }
        }
        c.sample(format!("{:?}", table));
        mon.end(c);
    }
    each!(rkyv_check; Vec2, Vec3, Vec3A, Vec4, Quat, Mat2, Mat3, Mat3A, Mat4, Affine2, Affine3A, DVec2, DVec3, DVec4, DQuat, DMat2, DMat3, DMat4, DAffine2, DAffine3,
        I8Vec2, I8Vec3, I8Vec4, U8Vec2, U8Vec3, U8Vec4, I16Vec2, I16Vec3, I16Vec4, U16Vec2, U16Vec3, U16Vec4, IVec2, IVec3, IVec4, UVec2, UVec3, UVec4,
        I64Vec2, I64Vec3, I64Vec4, U64Vec2, U64Vec3, U64Vec4);
    if !miri { mint_checks(&mut mon); }
    // cross-build: serde_json text of the same seeded values, one line per value
    if let Some(p) = &args.trace {
        let mut s = String::new();
        for (k, v) in &json { s.push_str(k); s.push('\t'); s.push_str(v); s.push('\n'); }
        std::fs::write(p, s).unwrap();
    }
    args.finish(&mon);
}

//! An exact in-memory token-stream Serializer / Deserializer: no text, so the carrier cannot round.
use serde::de::{self, DeserializeSeed, SeqAccess, Visitor};
use serde::ser::{self, Impossible, Serialize};
use std::fmt;

#[derive(Clone, Debug, PartialEq)]
pub enum Tok {
    TupleStruct(&'static str, usize),
    End,
    Bool(bool),
    I8(i8),
    U8(u8),
    I16(i16),
    U16(u16),
    I32(i32),
    U32(u32),
    I64(i64),
    U64(u64),
    F32(u32),
    F64(u64),
    Other(String),
}

#[derive(Debug)]
pub struct Error(pub String);
impl fmt::Display for Error {
    fn fmt(&self, f: &mut fmt::Formatter<'_>) -> fmt::Result {
        write!(f, "{}", self.0)
    }
}
impl std::error::Error for Error {}
impl ser::Error for Error {
    fn custom<T: fmt::Display>(m: T) -> Self {
        Error(m.to_string())
    }
}
impl de::Error for Error {
    fn custom<T: fmt::Display>(m: T) -> Self {
        Error(m.to_string())
    }
}

pub struct TokSer {
    pub toks: Vec<Tok>,
}
macro_rules! ser_scalar {
    ($f:ident, $t:ty, $v:ident, $e:expr) => {
        fn $f(self, $v: $t) -> Result<(), Error> {
            self.toks.push($e);
            Ok(())
        }
    };
}
macro_rules! unsupported {
    ($name:expr) => {
        Err(Error(format!("unexpected serializer call: {}", $name)))
    };
}
impl<'a> ser::Serializer for &'a mut TokSer {
    type Ok = ();
    type Error = Error;
    type SerializeSeq = Impossible<(), Error>;
    type SerializeTuple = Impossible<(), Error>;
    type SerializeTupleStruct = Self;
    type SerializeTupleVariant = Impossible<(), Error>;
    type SerializeMap = Impossible<(), Error>;
    type SerializeStruct = Impossible<(), Error>;
    type SerializeStructVariant = Impossible<(), Error>;
    ser_scalar!(serialize_bool, bool, v, Tok::Bool(v));
    ser_scalar!(serialize_i8, i8, v, Tok::I8(v));
    ser_scalar!(serialize_i16, i16, v, Tok::I16(v));
    ser_scalar!(serialize_i32, i32, v, Tok::I32(v));
    ser_scalar!(serialize_i64, i64, v, Tok::I64(v));
    ser_scalar!(serialize_u8, u8, v, Tok::U8(v));
    ser_scalar!(serialize_u16, u16, v, Tok::U16(v));
    ser_scalar!(serialize_u32, u32, v, Tok::U32(v));
    ser_scalar!(serialize_u64, u64, v, Tok::U64(v));
    ser_scalar!(serialize_f32, f32, v, Tok::F32(v.to_bits()));
    ser_scalar!(serialize_f64, f64, v, Tok::F64(v.to_bits()));
    fn serialize_char(self, _: char) -> Result<(), Error> { unsupported!("char") }
    fn serialize_str(self, _: &str) -> Result<(), Error> { unsupported!("str") }
    fn serialize_bytes(self, _: &[u8]) -> Result<(), Error> { unsupported!("bytes") }
    fn serialize_none(self) -> Result<(), Error> { unsupported!("none") }
    fn serialize_some<T: ?Sized + Serialize>(self, _: &T) -> Result<(), Error> { unsupported!("some") }
    fn serialize_unit(self) -> Result<(), Error> { unsupported!("unit") }
    fn serialize_unit_struct(self, _: &'static str) -> Result<(), Error> { unsupported!("unit_struct") }
    fn serialize_unit_variant(self, _: &'static str, _: u32, _: &'static str) -> Result<(), Error> { unsupported!("unit_variant") }
    fn serialize_newtype_struct<T: ?Sized + Serialize>(self, _: &'static str, _: &T) -> Result<(), Error> { unsupported!("newtype_struct") }
    fn serialize_newtype_variant<T: ?Sized + Serialize>(self, _: &'static str, _: u32, _: &'static str, _: &T) -> Result<(), Error> { unsupported!("newtype_variant") }
    fn serialize_seq(self, _: Option<usize>) -> Result<Self::SerializeSeq, Error> { unsupported!("seq") }
    fn serialize_tuple(self, _: usize) -> Result<Self::SerializeTuple, Error> { unsupported!("tuple") }
    fn serialize_tuple_struct(self, name: &'static str, len: usize) -> Result<Self, Error> {
        self.toks.push(Tok::TupleStruct(name, len));
        Ok(self)
    }
    fn serialize_tuple_variant(self, _: &'static str, _: u32, _: &'static str, _: usize) -> Result<Self::SerializeTupleVariant, Error> { unsupported!("tuple_variant") }
    fn serialize_map(self, _: Option<usize>) -> Result<Self::SerializeMap, Error> { unsupported!("map") }
    fn serialize_struct(self, _: &'static str, _: usize) -> Result<Self::SerializeStruct, Error> { unsupported!("struct") }
    fn serialize_struct_variant(self, _: &'static str, _: u32, _: &'static str, _: usize) -> Result<Self::SerializeStructVariant, Error> { unsupported!("struct_variant") }
}
impl<'a> ser::SerializeTupleStruct for &'a mut TokSer {
    type Ok = ();
    type Error = Error;
    fn serialize_field<T: ?Sized + Serialize>(&mut self, v: &T) -> Result<(), Error> {
        v.serialize(&mut **self)
    }
    fn end(self) -> Result<(), Error> {
        self.toks.push(Tok::End);
        Ok(())
    }
}

/// Deserializer over a list of scalar tokens; records what the visitor asked for.
pub struct TokDe {
    pub elems: Vec<Tok>,
    pub requested: Option<(&'static str, usize)>,
    pub next_calls: usize,
    pub other_entry: Option<String>,
}
impl<'de, 'a> de::Deserializer<'de> for &'a mut TokDe {
    type Error = Error;
    fn deserialize_any<V: Visitor<'de>>(self, _v: V) -> Result<V::Value, Error> {
        self.other_entry = Some("deserialize_any".into());
        Err(Error("glam types must ask for a tuple struct".into()))
    }
    fn deserialize_tuple_struct<V: Visitor<'de>>(self, name: &'static str, len: usize, visitor: V) -> Result<V::Value, Error> {
        self.requested = Some((name, len));
        visitor.visit_seq(Seq { de: self, pos: 0 })
    }
    serde::forward_to_deserialize_any! { bool i8 i16 i32 i64 i128 u8 u16 u32 u64 u128 f32 f64 char str string bytes byte_buf option unit unit_struct newtype_struct seq tuple map struct enum identifier ignored_any }
}
struct Seq<'a> {
    de: &'a mut TokDe,
    pos: usize,
}
impl<'de, 'a> SeqAccess<'de> for Seq<'a> {
    type Error = Error;
    fn next_element_seed<T: DeserializeSeed<'de>>(&mut self, seed: T) -> Result<Option<T::Value>, Error> {
        self.de.next_calls += 1;
        if self.pos >= self.de.elems.len() {
            return Ok(None);
        }
        let t = self.de.elems[self.pos].clone();
        self.pos += 1;
        seed.deserialize(ScalarDe(t)).map(Some)
    }
    fn size_hint(&self) -> Option<usize> {
        Some(self.de.elems.len() - self.pos)
    }
}
struct ScalarDe(Tok);
impl<'de> de::Deserializer<'de> for ScalarDe {
    type Error = Error;
    fn deserialize_any<V: Visitor<'de>>(self, v: V) -> Result<V::Value, Error> {
        match self.0 {
            Tok::Bool(x) => v.visit_bool(x),
            Tok::I8(x) => v.visit_i8(x),
            Tok::U8(x) => v.visit_u8(x),
            Tok::I16(x) => v.visit_i16(x),
            Tok::U16(x) => v.visit_u16(x),
            Tok::I32(x) => v.visit_i32(x),
            Tok::U32(x) => v.visit_u32(x),
            Tok::I64(x) => v.visit_i64(x),
            Tok::U64(x) => v.visit_u64(x),
            Tok::F32(x) => v.visit_f32(f32::from_bits(x)),
            Tok::F64(x) => v.visit_f64(f64::from_bits(x)),
            t => Err(Error(format!("not a scalar token: {:?}", t))),
        }
    }
    serde::forward_to_deserialize_any! { bool i8 i16 i32 i64 i128 u8 u16 u32 u64 u128 f32 f64 char str string bytes byte_buf option unit unit_struct newtype_struct seq tuple tuple_struct map struct enum identifier ignored_any }
}

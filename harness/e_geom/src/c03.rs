//! C03: matrix product, transpose, determinant and inverse are the true ones.

use crate::hp::*;
use glam::*;
use vcommon::dd::Real;
use vcommon::fl::Fl;
use vcommon::mon::*;
use vcommon::refm::*;
use vcommon::rng::Rng;

/// All closures work on column-major flat element lists (len n*n) and vectors (len n).
pub struct MatApi<S: HasR> {
    pub name: &'static str,
    pub n: usize,
    /// every way of multiplying two matrices (method, operator, assign): (label, f)
    pub mul_mat: Vec<(&'static str, Box<dyn Fn(&[S], &[S]) -> Vec<S>>)>,
    /// every way of multiplying matrix * vector
    pub mul_vec: Vec<(&'static str, Box<dyn Fn(&[S], &[S]) -> Vec<S>>)>,
    pub transpose: Box<dyn Fn(&[S]) -> Vec<S>>,
    pub determinant: Box<dyn Fn(&[S]) -> S>,
    pub inverse: Box<dyn Fn(&[S]) -> Vec<S>>,
    pub add: Vec<(&'static str, Box<dyn Fn(&[S], &[S]) -> Vec<S>>)>,
    pub sub: Vec<(&'static str, Box<dyn Fn(&[S], &[S]) -> Vec<S>>)>,
    pub neg: Box<dyn Fn(&[S]) -> Vec<S>>,
    pub scale: Vec<(&'static str, Box<dyn Fn(&[S], S) -> Vec<S>>)>,
    pub div_scalar: Vec<(&'static str, Box<dyn Fn(&[S], S) -> Vec<S>>)>,
}

macro_rules! mat_api {
    ($T:ident, $S:ty, $n:expr, $nn:expr, $V:ident, $mulm:ident, $mulv:ident, $addm:ident, $subm:ident, [$($extra_name:expr => $extra:expr),*]) => {{
        let m = |a: &[$S]| -> $T { let arr: [$S; $nn] = core::array::from_fn(|k| a[k]); <$T>::from_cols_array(&arr) };
        let v = |a: &[$S]| -> $V { let arr: [$S; $n] = core::array::from_fn(|k| a[k]); <$V>::from_array(arr) };
        let mut mul_vec: Vec<(&'static str, Box<dyn Fn(&[$S], &[$S]) -> Vec<$S>>)> = vec![
            (stringify!($mulv), Box::new(move |a, x| m(a).$mulv(v(x)).to_array().to_vec())),
            ("M*v", Box::new(move |a, x| (m(a) * v(x)).to_array().to_vec())),
        ];
        $( mul_vec.push(($extra_name, Box::new($extra))); )*
        MatApi::<$S> {
            name: stringify!($T),
            n: $n,
            mul_mat: vec![
                (stringify!($mulm), Box::new(move |a, b| m(a).$mulm(&m(b)).to_cols_array().to_vec())),
                ("A*B", Box::new(move |a, b| (m(a) * m(b)).to_cols_array().to_vec())),
                ("A*=B", Box::new(move |a, b| { let mut x = m(a); x *= m(b); x.to_cols_array().to_vec() })),
                ("Product[A,B]", Box::new(move |a, b| [m(a), m(b)].iter().product::<$T>().to_cols_array().to_vec())),
            ],
            mul_vec,
            transpose: Box::new(move |a| m(a).transpose().to_cols_array().to_vec()),
            determinant: Box::new(move |a| m(a).determinant()),
            inverse: Box::new(move |a| m(a).inverse().to_cols_array().to_vec()),
            add: vec![
                (stringify!($addm), Box::new(move |a, b| m(a).$addm(&m(b)).to_cols_array().to_vec())),
                ("A+B", Box::new(move |a, b| (m(a) + m(b)).to_cols_array().to_vec())),
                ("A+=B", Box::new(move |a, b| { let mut x = m(a); x += m(b); x.to_cols_array().to_vec() })),
                ("Sum[A,B]", Box::new(move |a, b| [m(a), m(b)].iter().sum::<$T>().to_cols_array().to_vec())),
            ],
            sub: vec![
                (stringify!($subm), Box::new(move |a, b| m(a).$subm(&m(b)).to_cols_array().to_vec())),
                ("A-B", Box::new(move |a, b| (m(a) - m(b)).to_cols_array().to_vec())),
                ("A-=B", Box::new(move |a, b| { let mut x = m(a); x -= m(b); x.to_cols_array().to_vec() })),
            ],
            neg: Box::new(move |a| (-m(a)).to_cols_array().to_vec()),
            scale: vec![
                ("mul_scalar", Box::new(move |a, s| m(a).mul_scalar(s).to_cols_array().to_vec())),
                ("A*s", Box::new(move |a, s| (m(a) * s).to_cols_array().to_vec())),
                ("s*A", Box::new(move |a, s| (s * m(a)).to_cols_array().to_vec())),
                ("A*=s", Box::new(move |a, s| { let mut x = m(a); x *= s; x.to_cols_array().to_vec() })),
            ],
            div_scalar: vec![
                ("div_scalar", Box::new(move |a, s| m(a).div_scalar(s).to_cols_array().to_vec())),
                ("A/s", Box::new(move |a, s| (m(a) / s).to_cols_array().to_vec())),
                ("A/=s", Box::new(move |a, s| { let mut x = m(a); x /= s; x.to_cols_array().to_vec() })),
            ],
        }
    }};
}

fn mref<S: HasR>(n: usize, a: &[S]) -> M<S::R> {
    let mut m = M::zero(n);
    for c in 0..n {
        for r in 0..n {
            m.a[c][r] = a[c * n + r].r();
        }
    }
    m
}

fn beq_list<S: Fl>(a: &[S], b: &[S]) -> bool {
    a.len() == b.len() && a.iter().zip(b).all(|(x, y)| x.bits() == y.bits())
}
fn ieq_list<S: Fl>(a: &[S], b: &[S]) -> bool {
    a.len() == b.len() && a.iter().zip(b).all(|(x, y)| vcommon::fl::ieq(*x, *y))
}

/// integer matrix generators
fn int_mat<S: HasR>(r: &mut Rng, n: usize, lo: i64, hi: i64, dense: bool) -> Vec<S> {
    (0..n * n)
        .map(|_| loop {
            let x = r.int_in(lo, hi);
            if !dense || x != 0 {
                break S::of(x as f64);
            }
        })
        .collect()
}
fn rank_deficient<S: HasR>(r: &mut Rng, n: usize) -> Vec<S> {
    // last column = integer combination of the others, then maybe transpose
    let mut m: Vec<i64> = (0..n * n).map(|_| r.int_in(-4, 4)).collect();
    let coef: Vec<i64> = (0..n - 1).map(|_| r.int_in(-2, 2)).collect();
    for row in 0..n {
        let mut s = 0;
        for c in 0..n - 1 {
            s += coef[c] * m[c * n + row];
        }
        m[(n - 1) * n + row] = s;
    }
    if r.bool() {
        let mut t = m.clone();
        for c in 0..n {
            for rr in 0..n {
                t[c * n + rr] = m[rr * n + c];
            }
        }
        m = t;
    }
    m.iter().map(|x| S::of(*x as f64)).collect()
}
fn perm_sign<S: HasR>(r: &mut Rng, n: usize) -> Vec<S> {
    let mut p: Vec<usize> = (0..n).collect();
    for i in (1..n).rev() {
        p.swap(i, r.idx(i + 1));
    }
    let mut m = vec![S::ZERO; n * n];
    for c in 0..n {
        m[c * n + p[c]] = S::of(if r.bool() { 1.0 } else { -1.0 });
    }
    m
}
/// random orthogonal n x n in f64 (product of Givens rotations)
fn rand_orth(r: &mut Rng, n: usize) -> M<f64> {
    let mut m: M<f64> = M::ident(n);
    for _ in 0..(2 * n) {
        let (i, j) = (r.idx(n), r.idx(n));
        if i == j {
            continue;
        }
        let (s, c) = r.range(-3.2, 3.2).sin_cos();
        let mut g: M<f64> = M::ident(n);
        g.set(i, i, c);
        g.set(j, j, c);
        g.set(i, j, -s);
        g.set(j, i, s);
        m = m.mul(&g);
    }
    m
}
/// real matrix with prescribed condition number (U * diag * V), rounded to S
fn cond_mat<S: HasR>(r: &mut Rng, n: usize, log10_kappa_max: f64) -> (Vec<S>, f64) {
    let kappa = 10f64.powf(r.range(0.0, log10_kappa_max));
    let scale = r.range(-8.0, 8.0).exp2();
    let u = rand_orth(r, n);
    let v = rand_orth(r, n);
    let mut d: M<f64> = M::zero(n);
    for i in 0..n {
        let t = if n == 1 { 0.0 } else { i as f64 / (n - 1) as f64 };
        let sv = scale * kappa.powf(-t);
        d.set(i, i, if r.below(4) == 0 { -sv } else { sv });
    }
    let m = u.mul(&d).mul(&v);
    (m.to_f64().iter().map(|x| S::of(*x)).collect(), kappa)
}

pub fn suite<S: HasR>(mon: &mut Monitor, api: &MatApi<S>) {
    let ty = api.name;
    let n = api.n;
    let nf = n as f64;
    let eps = S::EPS;
    let iters = mon.n(4_000, 400_000);
    let show_m = |a: &[S]| show(a);

    // ---------------- exact integer lattice ---------------------------------------------------------------
    let exact_check = |c: &mut OpCtx, a: &[S], b: &[S], x: &[S], tag: &'static str| {
        let (ra, rb) = (mref::<S>(n, a), mref::<S>(n, b));
        let inp = || format!("A={} B={} v={} ({})", show_m(a), show_m(b), show_m(x), tag);
        // product
        let ep: Vec<S> = ra.mul(&rb).to_f64().iter().map(|v| S::of(*v)).collect();
        for (nm, f) in &api.mul_mat {
            let g = f(a, b);
            if !ieq_list(&g, &ep) {
                c.violation("exact_mismatch", &["mul_mat", nm], inp(), show_m(&g), show_m(&ep), "integer matrix product must be exact".into());
            }
        }
        let rx = rs(x);
        let ev: Vec<S> = ra.mul_vec(&rx).iter().map(|v| S::of(v.to_f64())).collect();
        for (nm, f) in &api.mul_vec {
            let g = f(a, x);
            if !ieq_list(&g, &ev) {
                c.violation("exact_mismatch", &["mul_vec", nm], inp(), show_m(&g), show_m(&ev), "integer matrix*vector must be exact".into());
            }
        }
        for (nm, f) in &api.add {
            let g = f(a, b);
            let e: Vec<S> = (0..n * n).map(|k| S::of(a[k].f64() + b[k].f64())).collect();
            if !ieq_list(&g, &e) {
                c.violation("exact_mismatch", &["add", nm], inp(), show_m(&g), show_m(&e), String::new());
            }
        }
        for (nm, f) in &api.sub {
            let g = f(a, b);
            let e: Vec<S> = (0..n * n).map(|k| S::of(a[k].f64() - b[k].f64())).collect();
            if !ieq_list(&g, &e) {
                c.violation("exact_mismatch", &["sub", nm], inp(), show_m(&g), show_m(&e), String::new());
            }
        }
        for (nm, f) in &api.scale {
            let s = S::of(-3.0);
            let g = f(a, s);
            let e: Vec<S> = (0..n * n).map(|k| S::of(a[k].f64() * -3.0)).collect();
            if !ieq_list(&g, &e) {
                c.violation("exact_mismatch", &["scale", nm], inp(), show_m(&g), show_m(&e), String::new());
            }
        }
        for (nm, f) in &api.div_scalar {
            let s = S::of(-0.25);
            let g = f(a, s);
            let e: Vec<S> = (0..n * n).map(|k| S::of(a[k].f64() * -4.0)).collect();
            if !ieq_list(&g, &e) {
                c.violation("exact_mismatch", &["div_scalar", nm], inp(), show_m(&g), show_m(&e), String::new());
            }
        }
        // determinant
        let ed = ra.det().to_f64();
        let gd = (api.determinant)(a);
        if gd.f64() != ed {
            c.violation("exact_mismatch", &["determinant"], inp(), format!("{:?}", gd), format!("{}", ed), "determinant of an integer matrix must be the exact integer".into());
        }
        // transpose / neg exact
        let gt = (api.transpose)(a);
        let et: Vec<S> = ra.transpose().to_f64().iter().map(|v| S::of(*v)).collect();
        if !ieq_list(&gt, &et) {
            c.violation("exact_mismatch", &["transpose"], inp(), show_m(&gt), show_m(&et), String::new());
        }
        // inverse * det = adjugate (division by det is the only inexact step)
        if ed != 0.0 {
            let gi = (api.inverse)(a);
            let adj = ra.adjugate();
            let adj_abs = ra.adjugate_abs_terms();
            for col in 0..n {
                for row in 0..n {
                    let got = gi[col * n + row];
                    let exact = adj.a[col][row] / <S::R as Real>::from_f64(ed);
                    let sc = adj_abs.a[col][row].to_f64() / ed.abs();
                    hp::<S>(c, "inverse(int)", got, exact, sc.max(exact.to_f64().abs()), 4.0, &inp);
                }
            }
        }
    };

    if let Some(mut c) = mon.begin(ty, "integer lattice (exact)") {
        let mut rng = Rng::new(mon.op_seed(ty, "int"));
        let mut count = 0u64;
        if n == 2 {
            // all 2x2 with entries in [-8, 8]
            for idx in 0..17u64.pow(4) {
                let a: Vec<S> = (0..4).map(|k| S::of(((idx / 17u64.pow(k)) % 17) as f64 - 8.0)).collect();
                let b = int_mat::<S>(&mut rng, 2, -8, 8, idx % 2 == 0);
                let x: Vec<S> = (0..2).map(|_| S::of(rng.int_in(-8, 8) as f64)).collect();
                c.event(idx % 4096, true);
                exact_check(&mut c, &a, &b, &x, "exhaustive 2x2 [-8,8]");
                count += 1;
            }
            c.count_n("exhaustive_2x2", count);
        } else if n == 3 {
            let total = 5u64.pow(9);
            let stride = if mon.thorough() || mon.scratch { 1 } else { 7 };
            let mut idx = 0;
            while idx < total {
                let a: Vec<S> = (0..9).map(|k| S::of(((idx / 5u64.pow(k)) % 5) as f64 - 2.0)).collect();
                let b = int_mat::<S>(&mut rng, 3, -8, 8, idx % 2 == 0);
                let x: Vec<S> = (0..3).map(|_| S::of(rng.int_in(-8, 8) as f64)).collect();
                c.event(idx % 4096, true);
                exact_check(&mut c, &a, &b, &x, "3x3 [-2,2]");
                count += 1;
                idx += stride;
                if mon.scratch && count > 3000 {
                    break;
                }
            }
            c.count_n("lattice_3x3", count);
        }
        for it in 0..iters {
            let (a, tag): (Vec<S>, &'static str) = match it % 4 {
                0 => (int_mat::<S>(&mut rng, n, -8, 8, true), "dense int [-8,8]"),
                1 => (int_mat::<S>(&mut rng, n, -8, 8, false), "int [-8,8]"),
                2 => (rank_deficient::<S>(&mut rng, n), "rank deficient"),
                _ => (perm_sign::<S>(&mut rng, n), "signed permutation"),
            };
            let b = int_mat::<S>(&mut rng, n, -8, 8, it % 8 < 4);
            let x: Vec<S> = (0..n).map(|_| S::of(rng.int_in(-8, 8) as f64)).collect();
            c.event(vcommon::rng::hash_str(tag) ^ (it % 64), true);
            if c.need_sample() {
                c.sample(format!("{}: A={} det={:?}", ty, show_m(&a), (api.determinant)(&a)));
            }
            exact_check(&mut c, &a, &b, &x, tag);
            if tag == "rank deficient" && (api.determinant)(&a).f64() != 0.0 {
                c.violation("exact_mismatch", &["determinant", "rank_deficient"], show_m(&a), format!("{:?}", (api.determinant)(&a)), "0".into(), String::new());
            }
        }
        mon.end(c);
        if !mon.scratch {
            if n == 2 {
                mon.exhaustive.push(format!("{}: all 83521 2x2 matrices with integer entries in [-8,8] (det, inverse, transpose, products)", ty));
            } else if n == 3 && mon.thorough() {
                mon.exhaustive.push(format!("{}: all 1953125 3x3 matrices with integer entries in [-2,2]", ty));
            }
        }
    }

    // ---------------- bit-level: transpose / neg on arbitrary bit patterns -----------------------------------
    if let Some(mut c) = mon.begin(ty, "transpose/neg (bit patterns)") {
        let mut rng = Rng::new(mon.op_seed(ty, "bits"));
        for it in 0..iters / 4 {
            let a: Vec<S> = (0..n * n).map(|_| if it % 2 == 0 { S::random_bits(&mut rng) } else { *rng.pick(S::lattice()) }).collect();
            let t = (api.transpose)(&a);
            let mut e = a.clone();
            for col in 0..n {
                for row in 0..n {
                    e[col * n + row] = a[row * n + col];
                }
            }
            c.event(it % 64, true);
            if !beq_list(&t, &e) {
                c.violation("bit_mismatch", &["transpose"], show_m(&a), show_m(&t), show_m(&e), "transpose must move entries bit-for-bit".into());
            }
            let ng = (api.neg)(&a);
            for k in 0..n * n {
                let eb = (-a[k]).bits();
                // sign flip exact (NaN sign may or may not flip depending on the instruction; compare as IEEE values)
                if !(ng[k].bits() == eb || (ng[k].nan() && a[k].nan())) {
                    c.violation("bit_mismatch", &["neg"], show_m(&a), show_m(&ng), String::new(), format!("entry {} must be the sign-flipped input", k));
                    break;
                }
            }
        }
        // scalar scaling and entry-wise sums are one IEEE operation per stored entry: exact, for every scalar incl. subnormal,
        // huge and non-finite ones (a scalar division implemented as a multiplication by the reciprocal is off by an ulp for
        // most divisors and by everything for subnormal ones)
        fn prim<S: Fl>(op: u8, a: S, b: S) -> S {
            if S::NAME == "f32" {
                let (x, y) = (f32::from_bits(a.bits() as u32), f32::from_bits(b.bits() as u32));
                S::from_bits64((match op { 0 => x + y, 1 => x - y, 2 => x * y, _ => x / y }).to_bits() as u64)
            } else {
                let (x, y) = (f64::from_bits(a.bits()), f64::from_bits(b.bits()));
                S::from_bits64((match op { 0 => x + y, 1 => x - y, 2 => x * y, _ => x / y }).to_bits())
            }
        }
        for it in 0..iters / 4 {
            let pickv = |r: &mut Rng| -> S { match it % 3 { 0 => S::random_bits(r), 1 => *r.pick(S::lattice()), _ => vcommon::fl::hostile::<S>(r) } };
            let a: Vec<S> = (0..n * n).map(|_| pickv(&mut rng)).collect();
            let b: Vec<S> = (0..n * n).map(|_| pickv(&mut rng)).collect();
            let sc = pickv(&mut rng);
            c.event(64 + it % 64, true);
            let mut check = |c: &mut OpCtx, nm: &'static str, op: u8, got: Vec<S>, rhs: &dyn Fn(usize) -> S| {
                for k in 0..n * n {
                    let want = prim::<S>(op, a[k], rhs(k));
                    if !vcommon::fl::ieq(got[k], want) {
                        if c.wants_witness("entry_mismatch", &[nm]) {
                            c.violation("entry_mismatch", &[nm], format!("A={} rhs entry/scalar={}", show_m(&a), rhs(k).hex()), show_m(&got), format!("entry {}: {}", k, want.hex()), "one IEEE operation per stored entry".into());
                        } else {
                            c.st.violations += 1;
                        }
                        break;
                    }
                }
            };
            for (nm, f) in &api.scale { check(&mut c, nm, 2, f(&a, sc), &|_| sc); }
            for (nm, f) in &api.div_scalar { check(&mut c, nm, 3, f(&a, sc), &|_| sc); }
            for (nm, f) in &api.add { check(&mut c, nm, 0, f(&a, &b), &|k| b[k]); }
            for (nm, f) in &api.sub { check(&mut c, nm, 1, f(&a, &b), &|k| b[k]); }
        }
        c.sample(format!("{}: transpose/neg on random bit patterns and lattice values", ty));
        mon.end(c);
    }

    // ---------------- real matrices: products, determinant, inverse ------------------------------------------------
    if let Some(mut c) = mon.begin(ty, "real matrices (analytic bound)") {
        let mut rng = Rng::new(mon.op_seed(ty, "real"));
        let kmax = if S::NAME == "f32" { 4.0 } else { 10.0 };
        for it in 0..iters {
            let (a, kappa) = cond_mat::<S>(&mut rng, n, kmax);
            let (b, _) = cond_mat::<S>(&mut rng, n, 2.0);
            let x: Vec<S> = (0..n).map(|_| S::of(rng.logmag(-6.0, 6.0))).collect();
            let (ra, rb) = (mref::<S>(n, &a), mref::<S>(n, &b));
            let inp = || format!("A={} (cond~{:.1e}) B={} v={}", show_m(&a), kappa, show_m(&b), show_m(&x));
            c.event((kappa.log10() as u64) * 4 + it % 4, true);
            if c.need_sample() {
                c.sample(format!("{}: {}", ty, inp()));
            }
            // products
            let ep = ra.mul(&rb);
            let sp = ra.abs().mul(&rb.abs());
            for (_nm, f) in &api.mul_mat {
                let g = f(&a, &b);
                for col in 0..n {
                    for row in 0..n {
                        hp::<S>(&mut c, "mul_mat", g[col * n + row], ep.a[col][row], sp.a[col][row].to_f64(), nf + 1.0, &inp);
                    }
                }
            }
            let rx = rs(&x);
            let ev = ra.mul_vec(&rx);
            let sv = ra.abs().mul_vec(&rx.iter().map(|t| t.abs_()).collect::<Vec<_>>());
            for (_nm, f) in &api.mul_vec {
                let g = f(&a, &x);
                for row in 0..n {
                    hp::<S>(&mut c, "mul_vec", g[row], ev[row], sv[row].to_f64(), nf + 1.0, &inp);
                }
            }
            // scale / add / sub (one rounding each)
            let s = S::of(rng.logmag(-3.0, 3.0));
            for (_nm, f) in &api.scale {
                let g = f(&a, s);
                for k in 0..n * n {
                    hp::<S>(&mut c, "scale", g[k], a[k].r() * s.r(), (a[k].f64() * s.f64()).abs(), 1.0, &inp);
                }
            }
            for (_nm, f) in &api.div_scalar {
                let g = f(&a, s);
                for k in 0..n * n {
                    // A / s may be implemented as A * (1/s): two roundings
                    hp::<S>(&mut c, "div_scalar", g[k], a[k].r() / s.r(), (a[k].f64() / s.f64()).abs(), 2.5, &inp);
                }
            }
            for (_nm, f) in &api.add {
                let g = f(&a, &b);
                for k in 0..n * n {
                    hp::<S>(&mut c, "add", g[k], a[k].r() + b[k].r(), a[k].f64().abs() + b[k].f64().abs(), 1.0, &inp);
                }
            }
            // determinant
            let ed = ra.det();
            let sd = ra.det_abs_terms().to_f64();
            hp::<S>(&mut c, "determinant", (api.determinant)(&a), ed, sd, 2.0 * nf + 2.0, &inp);
            // inverse = adj(M)/det(M) (the documented formula). Each cofactor is a sum of products with
            // rounding error <= c eps * (sum of |terms|) =: adjabs, the determinant likewise with detabs, so
            //   |inv - M^-1|_ij <= k eps ( adjabs_ij / |det| + |M^-1|_ij * detabs / |det| ),
            // which is "epsilon times the condition number" measured on the terms actually combined.
            let inv = ra.inverse();
            let adjabs = ra.adjugate_abs_terms();
            let detf = ed.to_f64().abs();
            let k_inv = 2.0 * nf + 4.0;
            let gi = (api.inverse)(&a);
            let mut tmat = vec![0.0f64; n * n];
            for col in 0..n {
                for row in 0..n {
                    let sc = adjabs.a[col][row].to_f64() / detf + inv.a[col][row].to_f64().abs() * sd / detf;
                    tmat[col * n + row] = k_inv * eps * sc;
                    hp::<S>(&mut c, "inverse", gi[col * n + row], inv.a[col][row], sc, k_inv, &inp);
                }
            }
            // M * inv = inv * M = I within |M| * T and T * |M| (residuals evaluated in higher precision)
            let rgi = mref::<S>(n, &gi);
            let p1 = ra.mul(&rgi);
            let p2 = rgi.mul(&ra);
            for col in 0..n {
                for row in 0..n {
                    let id = if col == row { 1.0 } else { 0.0 };
                    let e1 = (p1.a[col][row].to_f64() - id).abs();
                    let e2 = (p2.a[col][row].to_f64() - id).abs();
                    let mut t1 = 0.0;
                    let mut t2 = 0.0;
                    for k in 0..n {
                        t1 += a[k * n + row].f64().abs() * tmat[col * n + k];
                        t2 += tmat[k * n + row] * a[col * n + k].f64().abs();
                    }
                    c.ratio(e1 / t1);
                    c.ratio(e2 / t2);
                    if e1 > t1 || e2 > t2 {
                        if c.wants_witness("accuracy", &["M*inv=I"]) {
                            c.violation("accuracy", &["M*inv=I"], inp(), show_m(&gi), String::new(), format!("residual ({},{}) = {:.3e}/{:.3e} exceeds {:.3e}/{:.3e}", row, col, e1, e2, t1, t2));
                        } else {
                            c.st.violations += 1;
                        }
                    }
                }
            }
        }
        mon.end(c);
    }
}

fn canaries(mon: &mut Monitor) {
    let mk = || mat_api!(Mat3, f32, 3, 9, Vec3, mul_mat3, mul_vec3, add_mat3, sub_mat3, []);
    mon.canary("determinant with a dropped sign", |m| {
        let mut api = mk();
        api.determinant = Box::new(|a| {
            let g = |c: usize, r: usize| a[c * 3 + r];
            g(0, 0) * (g(1, 1) * g(2, 2) - g(2, 1) * g(1, 2)) + g(1, 0) * (g(0, 1) * g(2, 2) - g(2, 1) * g(0, 2)) + g(2, 0) * (g(0, 1) * g(1, 2) - g(1, 1) * g(0, 2))
        });
        suite(m, &api);
    });
    mon.canary("mul_vec using rows instead of columns", |m| {
        let mut api = mk();
        api.mul_vec = vec![("mul_vec3", Box::new(|a, x| { let mt = Mat3::from_cols_array(&core::array::from_fn(|k| a[k])).transpose(); (mt * Vec3::new(x[0], x[1], x[2])).to_array().to_vec() }))];
        suite(m, &api);
    });
    mon.canary("inverse with one wrong cofactor", |m| {
        let mut api = mk();
        api.inverse = Box::new(|a| { let mut v = Mat3::from_cols_array(&core::array::from_fn(|k| a[k])).inverse().to_cols_array().to_vec(); v[5] = v[7]; v });
        suite(m, &api);
    });
    mon.canary("transpose leaving one pair unswapped", |m| {
        let mut api = mk();
        api.transpose = Box::new(|a| { let mut v = Mat3::from_cols_array(&core::array::from_fn(|k| a[k])).transpose().to_cols_array().to_vec(); v.swap(1, 3); v });
        suite(m, &api);
    });
    mon.canary("inverse in reduced precision", |m| {
        let mut api = mk();
        api.inverse = Box::new(|a| Mat3::from_cols_array(&core::array::from_fn(|k| a[k])).inverse().to_cols_array().iter().map(|x| x * (1.0 + 2e-4)).collect());
        suite(m, &api);
    });
}


/// Iterator folds over no element return the neutral element, over one element that element (bit-for-bit).
fn empty_folds(mon: &mut Monitor) {
    if let Some(mut c) = mon.begin("iterator folds", "empty and single-element Sum / Product") {
        macro_rules! chk {
            ($($T:ident),*) => {$({
                let t = stringify!($T);
                let m = <$T>::from_cols_array(&core::array::from_fn(|k| (k as f32 * 0.75 - 1.25) as _));
                let cases: Vec<(&'static str, $T, $T)> = vec![
                    ("Product of nothing (by value)", core::iter::empty::<$T>().product::<$T>(), <$T>::IDENTITY),
                    ("Product of nothing (by reference)", core::iter::empty::<&$T>().product::<$T>(), <$T>::IDENTITY),
                    ("Sum of nothing (by value)", core::iter::empty::<$T>().sum::<$T>(), <$T>::ZERO),
                    ("Sum of nothing (by reference)", core::iter::empty::<&$T>().sum::<$T>(), <$T>::ZERO),
                    ("Product of one (by value)", [m].into_iter().product::<$T>(), m),
                    ("Product of one (by reference)", [m].iter().product::<$T>(), m),
                    ("Sum of one (by value)", [m].into_iter().sum::<$T>(), m),
                    ("Sum of one (by reference)", [m].iter().sum::<$T>(), m),
                ];
                for (nm, got, want) in cases {
                    c.event(vcommon::rng::hash_str(nm) ^ vcommon::rng::hash_str(t), true);
                    if got.to_cols_array().iter().zip(want.to_cols_array().iter()).any(|(a, b)| a != b) {
                        c.violation("fold_identity", &[nm], format!("{} {}", t, nm), format!("{:?}", got), format!("{:?}", want), String::new());
                    }
                }
            })*};
        }
        chk!(Mat2, Mat3, Mat3A, Mat4, DMat2, DMat3, DMat4);
        c.sample("Sum / Product of empty and one-element iterators, by value and by reference, for the 7 matrix types".into());
        mon.end(c);
    }
}

pub fn run(mon: &mut Monitor) {
    empty_folds(mon);
    canaries(mon);
    suite(mon, &mat_api!(Mat2, f32, 2, 4, Vec2, mul_mat2, mul_vec2, add_mat2, sub_mat2, []));
    suite(mon, &mat_api!(Mat3, f32, 3, 9, Vec3, mul_mat3, mul_vec3, add_mat3, sub_mat3, [
        "mul_vec3a" => |a: &[f32], x: &[f32]| Mat3::from_cols_array(&core::array::from_fn(|k| a[k])).mul_vec3a(<Vec3A as crate::gen::FromLanes<f32, 3>>::mk([x[0], x[1], x[2]])).to_array().to_vec(),
        "M*Vec3A" => |a: &[f32], x: &[f32]| (Mat3::from_cols_array(&core::array::from_fn(|k| a[k])) * <Vec3A as crate::gen::FromLanes<f32, 3>>::mk([x[0], x[1], x[2]])).to_array().to_vec()
    ]));
    suite(mon, &mat_api!(Mat3A, f32, 3, 9, Vec3A, mul_mat3, mul_vec3a, add_mat3, sub_mat3, [
        "mul_vec3" => |a: &[f32], x: &[f32]| Mat3A::from_cols_array(&core::array::from_fn(|k| a[k])).mul_vec3(Vec3::new(x[0], x[1], x[2])).to_array().to_vec(),
        "M*Vec3" => |a: &[f32], x: &[f32]| (Mat3A::from_cols_array(&core::array::from_fn(|k| a[k])) * Vec3::new(x[0], x[1], x[2])).to_array().to_vec()
    ]));
    suite(mon, &mat_api!(Mat4, f32, 4, 16, Vec4, mul_mat4, mul_vec4, add_mat4, sub_mat4, []));
    suite(mon, &mat_api!(DMat2, f64, 2, 4, DVec2, mul_mat2, mul_vec2, add_mat2, sub_mat2, []));
    suite(mon, &mat_api!(DMat3, f64, 3, 9, DVec3, mul_mat3, mul_vec3, add_mat3, sub_mat3, []));
    suite(mon, &mat_api!(DMat4, f64, 4, 16, DVec4, mul_mat4, mul_vec4, add_mat4, sub_mat4, []));
}

//! O-hp: compare a glam result with a higher-precision value under an analytic bound k*eps*S.

use vcommon::dd::{Real, DD};
use vcommon::fl::Fl;
use vcommon::mon::OpCtx;

pub trait HasR: Fl {
    type R: Real;
    fn r(self) -> Self::R;
    const TINY: f64;
}
impl HasR for f32 {
    type R = f64;
    fn r(self) -> f64 {
        self as f64
    }
    const TINY: f64 = 1.2e-38;
}
impl HasR for f64 {
    type R = DD;
    fn r(self) -> DD {
        DD::new(self)
    }
    const TINY: f64 = 2.3e-308;
}

pub fn rs<S: HasR>(v: &[S]) -> Vec<S::R> {
    v.iter().map(|x| x.r()).collect()
}
pub fn fs<S: HasR>(v: &[S]) -> Vec<f64> {
    v.iter().map(|x| x.f64()).collect()
}
pub fn show<S: Fl>(v: &[S]) -> String {
    let p: Vec<String> = v.iter().map(|x| format!("{:?}", x)).collect();
    format!("[{}]", p.join(", "))
}

/// One scalar comparison. Returns false (and records a violation) when |got - exact| > k*eps*S.
pub fn hp<S: HasR>(c: &mut OpCtx, what: &'static str, got: S, exact: S::R, scale: f64, k: f64, input: &dyn Fn() -> String) -> bool {
    let g = got.f64();
    let err = exact.diff(g).abs();
    let tol = k * S::EPS * scale.abs() + S::TINY;
    let ratio = if g.is_finite() { err / tol } else { f64::INFINITY };
    c.ratio_t(what, ratio);
    if !(ratio <= 1.0) {
        if c.wants_witness("accuracy", &[what]) {
            c.violation(
                "accuracy",
                &[what],
                input(),
                format!("{:?}", got),
                format!("{:e}", exact.to_f64()),
                format!("{}: |err| = {:.3e} > {} * eps * S = {:.3e} (S = {:.3e}, ratio {:.2})", what, err, k, tol, scale, ratio),
            );
        } else {
            c.st.violations += 1;
        }
        return false;
    }
    true
}

/// absolute-tolerance comparison (angles etc.)
pub fn within<S: HasR>(c: &mut OpCtx, what: &'static str, got: f64, exact: f64, tol: f64, input: &dyn Fn() -> String) -> bool {
    let err = (got - exact).abs();
    let ratio = if got.is_finite() { err / tol } else { f64::INFINITY };
    c.ratio_t(what, ratio);
    if !(ratio <= 1.0) {
        if c.wants_witness("accuracy", &[what]) {
            c.violation("accuracy", &[what], input(), format!("{:e}", got), format!("{:e}", exact), format!("{}: |err| = {:.3e} > tol {:.3e} (ratio {:.2})", what, err, tol, ratio));
        } else {
            c.st.violations += 1;
        }
        return false;
    }
    true
}

//! C10: scale-rotation-translation composition and decomposition are mutually consistent.

use crate::gen::*;
use glam::*;
use vcommon::dd::DD;
use vcommon::mon::*;
use vcommon::refm::*;
use vcommon::rng::Rng;

fn scale_val(r: &mut Rng, neg: bool) -> f64 {
    let m = 10f64.powf(r.range(-3.0, 3.0));
    if neg {
        -m
    } else {
        m
    }
}

/// reference T*R*S as a 3x4 (columns 0..2 linear, column 3 translation), from the stored operand values
fn trs_ref(q: [f64; 4], s: [f64; 3], t: [f64; 3]) -> [[f64; 3]; 4] {
    let qd = [DD::new(q[0]), DD::new(q[1]), DD::new(q[2]), DD::new(q[3])];
    let r = qmat::<DD>(&qd);
    let mut m = [[0.0; 3]; 4];
    for c in 0..3 {
        for row in 0..3 {
            m[c][row] = (r.a[c][row] * DD::new(s[c])).hi;
        }
    }
    m[3] = t;
    m
}

macro_rules! trs3 {
    ($mon:expr, $tag:expr, $S:ty, $eps:expr, $Q:ident, $V3:ident, $M4:ident, $A3:ident, $M3:ident) => {{
        let mon: &mut Monitor = $mon;
        let iters = mon.n(8_000, 800_000);
        let eps: f64 = $eps;
        if let Some(mut c) = mon.begin($tag, "3-D compose/decompose") {
            let mut rng = Rng::new(mon.op_seed($tag, "trs3"));
            for it in 0..iters {
                let pattern = (it % 8) as usize;
                let (qv, lq) = unit_quat::<$S>(&mut rng, it / 8);
                let q = <$Q>::from_array(qv);
                let s = match (it / 8) % 5 {
                    // magnitudes within 1e-4 of 1 (a "rigid" shortcut must not swallow them) and nearly uniform scales whose
                    // magnitudes differ by a few ulps .. 1e-4 relative (a "uniform scale" shortcut must not either)
                    3 => { let d = |r: &mut Rng| 1.0 + 10f64.powf(-r.range(4.0, 7.5)) * if r.bool() { 1.0 } else { -1.0 }; let sg = |b: bool| if b { -1.0 } else { 1.0 }; <$V3>::new((d(&mut rng) * sg(pattern & 1 != 0)) as $S, (d(&mut rng) * sg(pattern & 2 != 0)) as $S, (d(&mut rng) * sg(pattern & 4 != 0)) as $S) }
                    4 => { let base = 10f64.powf(rng.range(-3.0, 3.0)); let d = |r: &mut Rng| 1.0 + 10f64.powf(-r.range(4.0, 8.0)) * [0.0, 1.0, -1.0][r.idx(3)]; let sg = |b: bool| if b { -1.0 } else { 1.0 }; <$V3>::new((base * d(&mut rng) * sg(pattern & 1 != 0)) as $S, (base * d(&mut rng) * sg(pattern & 2 != 0)) as $S, (base * d(&mut rng) * sg(pattern & 4 != 0)) as $S) }
                    _ => <$V3>::new(scale_val(&mut rng, pattern & 1 != 0) as $S, scale_val(&mut rng, pattern & 2 != 0) as $S, scale_val(&mut rng, pattern & 4 != 0) as $S),
                };
                // "all finite translations": every 7th one reaches up to the largest finite magnitudes
                let tmax = if it % 7 == 3 { <$S>::MAX_EXP as f64 - 2.0 } else { 10.0 };
                let t = <$V3>::new(rng.logmag(-6.0, tmax) as $S, rng.logmag(-6.0, tmax) as $S, if it % 5 == 0 { 0.0 } else { rng.logmag(-6.0, tmax) as $S });
                let qf = [q.x as f64, q.y as f64, q.z as f64, q.w as f64];
                let sf = [s.x as f64, s.y as f64, s.z as f64];
                let tf = [t.x as f64, t.y as f64, t.z as f64];
                let exact = trs_ref(qf, sf, tf);
                let inp = || format!("scale={:?} rotation={:?} ({}) translation={:?}", s, q, lq, t);
                // ---- compose: every constructor on every type --------------------------------------------
                let m4 = <$M4>::from_scale_rotation_translation(s, q, t);
                let a3 = <$A3>::from_scale_rotation_translation(s, q, t);
                let prod = <$M4>::from_translation(t) * <$M4>::from_quat(q) * <$M4>::from_scale(s);
                let aprod = <$A3>::from_translation(t) * <$A3>::from_quat(q) * <$A3>::from_scale(s);
                let m4c = m4.to_cols_array();
                let forms: Vec<(&'static str, [[f64; 3]; 4], bool)> = vec![
                    ("Mat4::from_scale_rotation_translation", core::array::from_fn(|c| core::array::from_fn(|r| m4c[c * 4 + r] as f64)), true),
                    ("Affine3::from_scale_rotation_translation", { let a = a3.to_cols_array(); core::array::from_fn(|c| core::array::from_fn(|r| a[c * 3 + r] as f64)) }, true),
                    ("T*R*S (Mat4 elementary constructors)", { let a = prod.to_cols_array(); core::array::from_fn(|c| core::array::from_fn(|r| a[c * 4 + r] as f64)) }, false),
                    ("T*R*S (Affine3 elementary constructors)", { let a = aprod.to_cols_array(); core::array::from_fn(|c| core::array::from_fn(|r| a[c * 3 + r] as f64)) }, false),
                ];
                // which matrix->quaternion branch the rotation takes (bookkeeping for the decomposition cells)
                let rm = qmat::<f64>(&qf);
                let (m00, m11, m22) = (rm.at(0, 0), rm.at(1, 1), rm.at(2, 2));
                let branch = if m22 <= 0.0 { if m11 - m00 <= 0.0 { "x" } else { "y" } } else { if m11 + m00 <= 0.0 { "z" } else { "w" } };
                c.event((pattern as u64) * 4 + vcommon::rng::hash_str(branch) % 4, true);
                c.count(&format!("cell_signs{:03b}_branch_{}", pattern, branch));
                if c.need_sample() { c.sample(format!("{}: {}", $tag, inp())); }
                for (nm, g, exact_t) in &forms {
                    for col in 0..3 {
                        for row in 0..3 {
                            let e = (g[col][row] - exact[col][row]).abs();
                            let tol = 8.0 * eps * sf[col].abs();
                            c.ratio_t("compose", e / tol);
                            if !(e <= tol) {
                                if c.wants_witness("accuracy", &["compose", nm]) { c.violation("accuracy", &["compose", nm], inp(), format!("{:?}", g), format!("{:?}", exact), format!("entry ({}, {}) off by {:.3e} > {:.3e}", row, col, e, tol)); } else { c.st.violations += 1; }
                            }
                        }
                    }
                    for row in 0..3 {
                        let bad = if *exact_t { g[3][row].to_bits() != exact[3][row].to_bits() && !(g[3][row] == 0.0 && exact[3][row] == 0.0) } else { (g[3][row] - exact[3][row]).abs() > 4.0 * eps * exact[3][row].abs() };
                        if bad {
                            c.violation("accuracy", &["compose_translation", nm], inp(), format!("{:?}", g[3]), format!("{:?}", exact[3]), "translation must be the last column".into());
                        }
                    }
                }
                if m4c[3] != 0.0 || m4c[7] != 0.0 || m4c[11] != 0.0 || m4c[15] != 1.0 {
                    c.violation("structure", &["Mat4 last row"], inp(), format!("{:?}", m4c), String::new(), String::new());
                }
                // rotation + translation only, and mat3 + translation
                let rt4 = <$M4>::from_rotation_translation(q, t).to_cols_array();
                let rta = <$A3>::from_rotation_translation(q, t).to_cols_array();
                // every 4x4 form of an affine transform has the homogeneous last row (0, 0, 0, 1) exactly
                let pc = prod.to_cols_array();
                for (nm, m) in [("Mat4::from_rotation_translation", &rt4), ("T*R*S (Mat4 elementary constructors)", &pc), ("Mat4::from_translation", &<$M4>::from_translation(t).to_cols_array()), ("Mat4::from_quat", &<$M4>::from_quat(q).to_cols_array()), ("Mat4::from_scale", &<$M4>::from_scale(s).to_cols_array())] {
                    if m[3] != 0.0 || m[7] != 0.0 || m[11] != 0.0 || m[15] != 1.0 {
                        if c.wants_witness("structure", &["Mat4 last row", nm]) { c.violation("structure", &["Mat4 last row", nm], inp(), format!("{:?}", m), "last row (0, 0, 0, 1)".into(), String::new()); } else { c.st.violations += 1; }
                    }
                }
                let exact_rt = trs_ref(qf, [1.0; 3], tf);
                for col in 0..4 {
                    for row in 0..3 {
                        let tol = if col == 3 { 0.0 } else { 8.0 * eps };
                        if (rt4[col * 4 + row] as f64 - exact_rt[col][row]).abs() > tol || (rta[col * 3 + row] as f64 - exact_rt[col][row]).abs() > tol {
                            c.violation("accuracy", &["from_rotation_translation"], inp(), format!("{:?} / {:?}", rt4, rta), format!("{:?}", exact_rt), String::new());
                        }
                    }
                }
                let m3 = <$M3>::from_cols_array(&core::array::from_fn(|k| exact[k / 3][k % 3] as $S));
                let mt = <$A3>::from_mat3_translation(m3, t).to_cols_array();
                let m3c = m3.to_cols_array();
                // the 4x4 form: linear block, translation column, homogeneous row (0, 0, 0, 1)
                let m4t = <$M4>::from_mat3_translation(m3, t).to_cols_array();
                let want4: [$S; 16] = [m3c[0], m3c[1], m3c[2], 0.0, m3c[3], m3c[4], m3c[5], 0.0, m3c[6], m3c[7], m3c[8], 0.0, t.x, t.y, t.z, 1.0];
                if (0..16).any(|k| m4t[k].to_bits() != want4[k].to_bits()) {
                    if c.wants_witness("structure", &["Mat4::from_mat3_translation"]) { c.violation("structure", &["Mat4::from_mat3_translation"], inp(), format!("{:?}", m4t), format!("{:?}", want4), "linear part, translation and last row must be stored unchanged".into()); } else { c.st.violations += 1; }
                }
                if (0..9).any(|k| mt[k].to_bits() != m3c[k].to_bits()) || mt[9].to_bits() != t.x.to_bits() || mt[10].to_bits() != t.y.to_bits() || mt[11].to_bits() != t.z.to_bits() {
                    c.violation("structure", &["from_mat3_translation"], inp(), format!("{:?}", mt), String::new(), "linear part and translation must be stored unchanged".into());
                }
                // ---- decompose ------------------------------------------------------------------------------
                for (nm, (ds, dq, dt), src) in [("Mat4", m4.to_scale_rotation_translation(), forms[0].1), ("Affine3", a3.to_scale_rotation_translation(), forms[1].1)] {
                    let dinp = || format!("{} -> {}::to_scale_rotation_translation = ({:?}, {:?}, {:?})", inp(), nm, ds, dq, dt);
                    let dtf = [dt.x as f64, dt.y as f64, dt.z as f64];
                    if (0..3).any(|r| dtf[r].to_bits() != src[3][r].to_bits() && !(dtf[r] == 0.0 && src[3][r] == 0.0)) {
                        c.violation("decompose", &["translation"], dinp(), format!("{:?}", dtf), format!("{:?}", src[3]), "translation must equal the last column".into());
                    }
                    let qn = ((dq.x as f64).powi(2) + (dq.y as f64).powi(2) + (dq.z as f64).powi(2) + (dq.w as f64).powi(2)).sqrt();
                    c.ratio_t("decompose unit", (qn - 1.0).abs() / (8.0 * eps));
                    if !((qn - 1.0).abs() <= 8.0 * eps) {
                        c.violation("decompose", &["unit rotation"], dinp(), format!("{}", qn), "1".into(), String::new());
                    }
                    let dsf = [ds.x as f64, ds.y as f64, ds.z as f64];
                    let det_neg = (pattern.count_ones() % 2) == 1;
                    for col in 0..3 {
                        let len = (src[col][0].powi(2) + src[col][1].powi(2) + src[col][2].powi(2)).sqrt();
                        c.ratio_t("decompose |scale|", (dsf[col].abs() - len).abs() / (4.0 * eps * len));
                        if !((dsf[col].abs() - len).abs() <= 4.0 * eps * len) {
                            c.violation("decompose", &["scale magnitude"], dinp(), format!("{:?}", dsf), format!("column length {}", len), String::new());
                        }
                    }
                    if (dsf[0] < 0.0) != det_neg || dsf[1] < 0.0 || dsf[2] < 0.0 {
                        c.violation("decompose", &["scale sign"], dinp(), format!("{:?}", dsf), format!("negative x scale iff determinant < 0 (det<0: {})", det_neg), String::new());
                    }
                    // recomposition reproduces the input
                    let back = trs_ref([dq.x as f64, dq.y as f64, dq.z as f64, dq.w as f64], dsf, dtf);
                    for col in 0..3 {
                        for row in 0..3 {
                            let e = (back[col][row] - src[col][row]).abs();
                            let tol = 32.0 * eps * sf[col].abs();
                            c.ratio_t("recompose", e / tol);
                            if !(e <= tol) {
                                if c.wants_witness("decompose", &["recompose", nm]) { c.violation("decompose", &["recompose", nm], dinp(), format!("{:?}", back), format!("{:?}", src), format!("entry ({}, {}) off by {:.3e} > {:.3e}", row, col, e, tol)); } else { c.st.violations += 1; }
                            }
                        }
                    }
                }
            }
            // every (sign pattern x branch) cell must have been exercised
            for p in 0..8 {
                for b in ["x", "y", "z", "w"] {
                    if c.st.counters.get(&format!("cell_signs{:03b}_branch_{}", p, b)).copied().unwrap_or(0) == 0 && !mon.scratch {
                        mon.inconclusive.push(format!("{}: cell (signs {:03b}, branch {}) never exercised", $tag, p, b));
                    }
                }
            }
            mon.end(c);
            if !mon.scratch { mon.exhaustive.push(format!("{}: all 8 scale sign patterns x 4 matrix->quaternion branches exercised", $tag)); }
        }
    }};
}

macro_rules! trs2 {
    ($mon:expr, $tag:expr, $S:ty, $eps:expr, $V2:ident, $M2:ident, $M3list:tt, $A2:ident) => {{
        let mon: &mut Monitor = $mon;
        let iters = mon.n(8_000, 800_000);
        let eps: f64 = $eps;
        if let Some(mut c) = mon.begin($tag, "2-D compose/decompose") {
            let mut rng = Rng::new(mon.op_seed($tag, "trs2"));
            for it in 0..iters {
                let pattern = (it % 4) as usize;
                let ang = match it % 3 { 0 => rng.range(-3.2, 3.2), 1 => rng.range(-13.0, 13.0), _ => core::f64::consts::FRAC_PI_2 * rng.int_in(-4, 4) as f64 + rng.range(-1e-3, 1e-3) } as $S;
                let s = <$V2>::new(scale_val(&mut rng, pattern & 1 != 0) as $S, scale_val(&mut rng, pattern & 2 != 0) as $S);
                let tmax = if it % 7 == 3 { <$S>::MAX_EXP as f64 - 2.0 } else { 10.0 };
                let t = <$V2>::new(rng.logmag(-6.0, tmax) as $S, rng.logmag(-6.0, tmax) as $S);
                let (sn, cs) = (ang as f64).sin_cos();
                let sf = [s.x as f64, s.y as f64];
                // T * R * S
                let exact = [[cs * sf[0], sn * sf[0]], [-sn * sf[1], cs * sf[1]], [t.x as f64, t.y as f64]];
                let inp = || format!("scale={:?} angle={:?} translation={:?}", s, ang, t);
                c.event(pattern as u64 * 8 + it % 8, true);
                c.count(&format!("signs{:02b}", pattern));
                if c.need_sample() { c.sample(format!("{}: {}", $tag, inp())); }
                let a2 = <$A2>::from_scale_angle_translation(s, ang, t);
                let a2c = a2.to_cols_array();
                let m2 = <$M2>::from_scale_angle(s, ang).to_cols_array();
                let ap = <$A2>::from_translation(t) * <$A2>::from_angle(ang) * <$A2>::from_scale(s);
                let apc = ap.to_cols_array();
                let mut forms: Vec<(&'static str, [[f64; 2]; 3], bool)> = vec![
                    ("Affine2::from_scale_angle_translation", core::array::from_fn(|c| core::array::from_fn(|r| a2c[c * 2 + r] as f64)), true),
                    ("Mat2::from_scale_angle", [[m2[0] as f64, m2[1] as f64], [m2[2] as f64, m2[3] as f64], exact[2]], true),
                    ("T*R*S (Affine2 elementary constructors)", core::array::from_fn(|c| core::array::from_fn(|r| apc[c * 2 + r] as f64)), false),
                ];
                trs2!(@m3 forms, $M3list, s, ang, t);
                for (nm, g, exact_t) in &forms {
                    for col in 0..2 {
                        for row in 0..2 {
                            let e = (g[col][row] - exact[col][row]).abs();
                            let tol = 6.0 * eps * sf[col].abs();
                            c.ratio_t("compose2", e / tol);
                            if !(e <= tol) {
                                if c.wants_witness("accuracy", &["compose", nm]) { c.violation("accuracy", &["compose", nm], inp(), format!("{:?}", g), format!("{:?}", exact), String::new()); } else { c.st.violations += 1; }
                            }
                        }
                    }
                    for row in 0..2 {
                        let bad = if *exact_t { g[2][row].to_bits() != exact[2][row].to_bits() } else { (g[2][row] - exact[2][row]).abs() > 4.0 * eps * exact[2][row].abs() };
                        if bad { c.violation("accuracy", &["compose_translation", nm], inp(), format!("{:?}", g[2]), format!("{:?}", exact[2]), String::new()); }
                    }
                }
                // angle+translation, mat2+translation
                let at = <$A2>::from_angle_translation(ang, t).to_cols_array();
                let e_at = [cs, sn, -sn, cs, t.x as f64, t.y as f64];
                if (0..4).any(|k| (at[k] as f64 - e_at[k]).abs() > 4.0 * eps) || at[4].to_bits() != t.x.to_bits() || at[5].to_bits() != t.y.to_bits() {
                    c.violation("accuracy", &["from_angle_translation"], inp(), format!("{:?}", at), format!("{:?}", e_at), String::new());
                }
                let mt = <$A2>::from_mat2_translation(a2.matrix2, t).to_cols_array();
                if (0..6).any(|k| mt[k].to_bits() != a2c[k].to_bits()) {
                    c.violation("structure", &["from_mat2_translation"], inp(), format!("{:?}", mt), format!("{:?}", a2c), String::new());
                }
                // ---- decompose ----
                let (ds, da, dt) = a2.to_scale_angle_translation();
                let dinp = || format!("{} -> ({:?}, {:?}, {:?})", inp(), ds, da, dt);
                if dt.x.to_bits() != a2c[4].to_bits() || dt.y.to_bits() != a2c[5].to_bits() {
                    c.violation("decompose", &["translation"], dinp(), format!("{:?}", dt), String::new(), String::new());
                }
                let det_neg = (pattern.count_ones() % 2) == 1;
                if ((ds.x as f64) < 0.0) != det_neg || (ds.y as f64) < 0.0 {
                    c.violation("decompose", &["scale sign"], dinp(), format!("{:?}", ds), format!("negative x scale iff determinant < 0 ({})", det_neg), String::new());
                }
                for col in 0..2 {
                    let len = ((a2c[col * 2] as f64).powi(2) + (a2c[col * 2 + 1] as f64).powi(2)).sqrt();
                    let g = [ds.x as f64, ds.y as f64][col].abs();
                    if !((g - len).abs() <= 4.0 * eps * len) {
                        c.violation("decompose", &["scale magnitude"], dinp(), format!("{}", g), format!("{}", len), String::new());
                    }
                }
                let (bs, bc) = (da as f64).sin_cos();
                let back = [[bc * ds.x as f64, bs * ds.x as f64], [-bs * ds.y as f64, bc * ds.y as f64]];
                for col in 0..2 {
                    for row in 0..2 {
                        let e = (back[col][row] - a2c[col * 2 + row] as f64).abs();
                        let tol = 16.0 * eps * sf[col].abs();
                        c.ratio_t("recompose2", e / tol);
                        if !(e <= tol) {
                            if c.wants_witness("decompose", &["recompose"]) { c.violation("decompose", &["recompose"], dinp(), format!("{:?}", back), format!("{:?}", a2c), String::new()); } else { c.st.violations += 1; }
                        }
                    }
                }
            }
            mon.end(c);
        }
    }};
    (@m3 $forms:ident, [$($M3:ident),*], $s:expr, $ang:expr, $t:expr) => {
        $( { let m = <$M3>::from_scale_angle_translation($s, $ang, $t).to_cols_array();
             $forms.push((concat!(stringify!($M3), "::from_scale_angle_translation"), [[m[0] as f64, m[1] as f64], [m[3] as f64, m[4] as f64], [m[6] as f64, m[7] as f64]], true));
             if m[2] != 0.0 || m[5] != 0.0 || m[8] != 1.0 { $forms.push(("bad last row", [[f64::NAN; 2]; 3], true)); } } )*
    };
}

fn canaries(mon: &mut Monitor) {
    mon.canary("S*R*T instead of T*R*S", |m| {
        if let Some(mut c) = m.begin("Canary", "trs") {
            let (s, q, t) = (Vec3::new(2.0, 3.0, 4.0), Quat::from_rotation_z(0.5), Vec3::new(1.0, 2.0, 3.0));
            let bad = Mat4::from_scale(s) * Mat4::from_quat(q) * Mat4::from_translation(t);
            let ex = trs_ref([q.x as f64, q.y as f64, q.z as f64, q.w as f64], [2.0, 3.0, 4.0], [1.0, 2.0, 3.0]);
            let g = bad.to_cols_array();
            if (0..4).any(|col| (0..3).any(|r| (g[col * 4 + r] as f64 - ex[col][r]).abs() > 1e-5)) {
                c.violation("accuracy", &[], String::new(), String::new(), String::new(), String::new());
            }
            c.event(0, true);
            m.end(c);
        }
    });
}

pub fn run(mon: &mut Monitor) {
    canaries(mon);
    trs3!(mon, "f32-3d", f32, f32::EPSILON as f64, Quat, Vec3, Mat4, Affine3A, Mat3);
    trs3!(mon, "f64-3d", f64, f64::EPSILON, DQuat, DVec3, DMat4, DAffine3, DMat3);
    trs2!(mon, "f32-2d", f32, f32::EPSILON as f64, Vec2, Mat2, [Mat3, Mat3A], Affine2);
    trs2!(mon, "f64-2d", f64, f64::EPSILON, DVec2, DMat2, [DMat3], DAffine2);
}

//! C12: interpolation, steering and clamping helpers hit endpoints and never overshoot.

use crate::gen::*;
use crate::hp::*;
use glam::*;
use vcommon::dd::Real;
use vcommon::fl::Fl;
use vcommon::mon::*;
use vcommon::refm::*;
use vcommon::rng::Rng;

pub struct SteerApi<S: HasR, const N: usize> {
    pub name: &'static str,
    pub lerp: Box<dyn Fn([S; N], [S; N], S) -> [S; N]>,
    pub move_towards: Box<dyn Fn([S; N], [S; N], S) -> [S; N]>,
    pub clamp_length: Box<dyn Fn([S; N], S, S) -> [S; N]>,
    pub clamp_length_max: Box<dyn Fn([S; N], S) -> [S; N]>,
    pub clamp_length_min: Box<dyn Fn([S; N], S) -> [S; N]>,
    pub rotate_towards: Option<Box<dyn Fn([S; N], [S; N], S) -> [S; N]>>,
    pub slerp: Option<Box<dyn Fn([S; N], [S; N], S) -> [S; N]>>,
    pub any_orthogonal_vector: Option<Box<dyn Fn([S; N]) -> [S; N]>>,
    pub any_orthonormal_vector: Option<Box<dyn Fn([S; N]) -> [S; N]>>,
    pub any_orthonormal_pair: Option<Box<dyn Fn([S; N]) -> ([S; N], [S; N])>>,
}

macro_rules! steer_api {
    ($T:ident, $S:ty, $N:expr, rot: $rot:tt, three: $three:tt) => {{
        let v = |a: [$S; $N]| <$T as crate::gen::FromLanes<$S, $N>>::mk(a);
        SteerApi::<$S, $N> {
            name: stringify!($T),
            lerp: Box::new(move |a, b, s| v(a).lerp(v(b), s).to_array()),
            move_towards: Box::new(move |a, b, d| v(a).move_towards(v(b), d).to_array()),
            clamp_length: Box::new(move |a, lo, hi| v(a).clamp_length(lo, hi).to_array()),
            clamp_length_max: Box::new(move |a, hi| v(a).clamp_length_max(hi).to_array()),
            clamp_length_min: Box::new(move |a, lo| v(a).clamp_length_min(lo).to_array()),
            rotate_towards: steer_api!(@opt $rot, Box::new(move |a, b, m| v(a).rotate_towards(v(b), m).to_array())),
            slerp: steer_api!(@opt $three, Box::new(move |a, b, s| v(a).slerp(v(b), s).to_array())),
            any_orthogonal_vector: steer_api!(@opt $three, Box::new(move |a| v(a).any_orthogonal_vector().to_array())),
            any_orthonormal_vector: steer_api!(@opt $three, Box::new(move |a| v(a).any_orthonormal_vector().to_array())),
            any_orthonormal_pair: steer_api!(@opt $three, Box::new(move |a| { let (p, q) = v(a).any_orthonormal_pair(); (p.to_array(), q.to_array()) })),
        }
    }};
    (@opt yes, $e:expr) => { Some($e) };
    (@opt no, $e:expr) => { None };
}

fn arr<S: HasR, const N: usize>(v: &[S]) -> [S; N] {
    core::array::from_fn(|k| v[k])
}
fn f64s<S: Fl>(v: &[S]) -> Vec<f64> {
    v.iter().map(|x| x.f64()).collect()
}
fn norm(v: &[f64]) -> f64 {
    v.iter().map(|x| x * x).sum::<f64>().sqrt()
}

/// tolerance of an angle-derived quantity at total angle theta
/// C12 holds angle-derived quantities to epsilon divided by the sine of the total angle (no fixed cap:
/// near 0 and pi the rotation plane / the arccosine are ill-conditioned), plus the documented accuracy of
/// the polynomial arccosine and sine approximations (1e-6 rad in f32).
fn ang_tol<S: HasR>(theta: f64) -> f64 {
    let a = if S::NAME == "f32" { 1e-6 } else { 16.0 * S::EPS };
    (a + 16.0 * S::EPS / theta.sin().abs().max(1e-300)).min(core::f64::consts::PI)
}

fn fail(c: &mut OpCtx, kind: &str, tags: &[&str], inp: &dyn Fn() -> String, got: String, exp: String, note: String) {
    if c.wants_witness(kind, tags) {
        c.violation(kind, tags, inp(), got, exp, note);
    } else {
        c.st.violations += 1;
    }
}

pub fn suite<S: HasR, const N: usize>(mon: &mut Monitor, api: &SteerApi<S, N>) {
    let ty = api.name;
    let eps = S::EPS;
    let iters = mon.n(6_000, 600_000);

    // ---- lerp end points exactly -------------------------------------------------------------------------
    if let Some(mut c) = mon.begin(ty, "lerp endpoints") {
        let lat: Vec<S> = S::lattice().iter().copied().filter(|x| x.finite()).collect();
        let mut rng = Rng::new(mon.op_seed(ty, "lerp"));
        for it in 0..(lat.len() * lat.len()) as u64 + iters {
            let (a, b): ([S; N], [S; N]) = if (it as usize) < lat.len() * lat.len() {
                let (i, j) = (it as usize / lat.len(), it as usize % lat.len());
                (core::array::from_fn(|k| lat[(i + k * 7) % lat.len()]), core::array::from_fn(|k| lat[(j + k * 11) % lat.len()]))
            } else {
                (arr(&vec_kind::<S>(&mut rng, N, it).0), arr(&vec_kind::<S>(&mut rng, N, it / 8 + 1).0))
            };
            let g0 = (api.lerp)(a, b, S::ZERO);
            let g1 = (api.lerp)(a, b, S::ONE);
            c.event(vcommon::fl::class_key(&a) ^ vcommon::fl::class_key(&b).rotate_left(9), true);
            if (0..N).any(|k| !vcommon::fl::ieq(g0[k], a[k])) {
                fail(&mut c, "endpoint", &["lerp(0)"], &|| format!("a={} b={}", show(&a), show(&b)), show(&g0), show(&a), "lerp at s = 0 must return the first operand exactly".into());
            }
            if (0..N).any(|k| !vcommon::fl::ieq(g1[k], b[k])) {
                fail(&mut c, "endpoint", &["lerp(1)"], &|| format!("a={} b={}", show(&a), show(&b)), show(&g1), show(&b), "lerp at s = 1 must return the second operand exactly".into());
            }
        }
        c.sample(format!("{}: lerp(a,b,0) = a and lerp(a,b,1) = b on all finite lattice pairs", ty));
        mon.end(c);
    }

    // ---- move_towards ---------------------------------------------------------------------------------------
    if let Some(mut c) = mon.begin(ty, "move_towards") {
        let mut rng = Rng::new(mon.op_seed(ty, "move"));
        for it in 0..iters {
            let (av, _) = vec_kind_r::<S>(&mut rng, N, it, 0.4);
            let a: [S; N] = arr(&av);
            // target: independent, or close to a (around the 1e-4 snap radius), or far
            let b: [S; N] = match it % 4 {
                0 => arr(&vec_kind_r::<S>(&mut rng, N, it / 4, 0.4).0),
                1 => { let u = unit::<f64>(&mut rng, N); let r = 10f64.powf(rng.range(-6.0, -2.0)); core::array::from_fn(|k| S::of(a[k].f64() + u[k] * r)) }
                _ => { let u = unit::<f64>(&mut rng, N); let r = 10f64.powf(rng.range(-2.0, 3.0)) * norm(&f64s(&a)).max(1e-3); core::array::from_fn(|k| S::of(a[k].f64() + u[k] * r)) }
            };
            let (ra, rb) = (rs(&a), rs(&b));
            let diff = vsub(&rb, &ra);
            let l = vlen(&diff).to_f64();
            let d = S::of(match it % 5 { 0 => 0.0, 1 => l * rng.range(0.0, 1.0), 2 => l * rng.range(0.9, 1.1), 3 => l * (1.0 + 10f64.powf(rng.range(-8.0, 1.0))), _ => l * 10f64.powf(rng.range(-6.0, 0.0)) });
            let g = (api.move_towards)(a, b, d);
            let inp = || format!("a={} b={} d={:?} (|b-a|={:e})", show(&a), show(&b), d, l);
            let scale = norm(&f64s(&a)).max(norm(&f64s(&b)));
            let slack = 8.0 * eps * scale + S::TINY;
            let df = d.f64();
            let zone = if df >= l + slack || l <= 1e-4 * (1.0 - 1e-3) - slack { "reach" } else if df <= l - slack && l >= 1e-4 * (1.0 + 1e-3) + slack { "partial" } else { "boundary" };
            c.event(vcommon::rng::hash_str(zone) ^ (it % 16), zone != "boundary");
            c.count(zone);
            if c.need_sample() && zone == "partial" { c.sample(format!("{}.move_towards: {} -> {}", ty, inp(), show(&g))); }
            let rg = rs(&g);
            match zone {
                "reach" => {
                    if (0..N).any(|k| g[k].bits() != b[k].bits()) {
                        fail(&mut c, "steer", &["move_towards", "target"], &inp, show(&g), show(&b), "within reach: must return the target itself".into());
                    }
                }
                "partial" => {
                    let moved = vlen(&vsub(&rg, &ra)).to_f64();
                    c.ratio_t("distance moved", (moved - df).abs() / (4.0 * eps * (scale + df) + S::TINY));
                    if !((moved - df).abs() <= 4.0 * eps * (scale + df) + S::TINY) {
                        fail(&mut c, "steer", &["move_towards", "distance"], &inp, format!("moved {:e}", moved), format!("{:e}", df), "must move exactly the requested distance".into());
                    }
                    // on the segment, not beyond
                    let t = vdot(&vsub(&rg, &ra), &diff).to_f64() / l;
                    let off = { let along: Vec<f64> = (0..N).map(|k| diff[k].to_f64() / l * t).collect(); (0..N).map(|k| (rg[k].to_f64() - ra[k].to_f64() - along[k]).powi(2)).sum::<f64>().sqrt() };
                    if !(off <= 8.0 * eps * (scale + df) + S::TINY) || !(t <= l + slack) || !(t >= -slack) {
                        fail(&mut c, "steer", &["move_towards", "segment"], &inp, show(&g), String::new(), format!("result must lie on the segment: along {:e} of {:e}, off-line {:e}", t, l, off));
                    }
                }
                _ => {
                    c.boundary();
                    // either the target or a point of the segment not beyond the target
                    let t = vdot(&vsub(&rg, &ra), &diff).to_f64() / l.max(1e-300);
                    if !(t <= l + 16.0 * slack + 1e-4 * 2e-3) {
                        fail(&mut c, "steer", &["move_towards", "overshoot"], &inp, show(&g), show(&b), "never passes the target".into());
                    }
                }
            }
        }
        mon.end(c);
    }

    // ---- clamp_length family ---------------------------------------------------------------------------------
    if let Some(mut c) = mon.begin(ty, "clamp_length*") {
        let mut rng = Rng::new(mon.op_seed(ty, "clamp"));
        for it in 0..iters {
            let (av, la) = vec_kind_r::<S>(&mut rng, N, it, 0.4);
            let a: [S; N] = arr(&av);
            let ra = rs(&a);
            let l = vlen(&ra).to_f64();
            if !(l > S::TINY.sqrt() * 1e3) { continue; }
            let lo = S::of(l * 10f64.powf(rng.range(-2.0, 1.0)));
            let hi = S::of(lo.f64() * (1.0 + 10f64.powf(rng.range(-3.0, 2.0))));
            let inp = || format!("a={} ({}) |a|={:e} min={:?} max={:?}", show(&a), la, l, lo, hi);
            c.event(vcommon::rng::hash_str(la) ^ ((l < lo.f64()) as u64) ^ (((l > hi.f64()) as u64) << 1), true);
            if c.need_sample() { c.sample(format!("{}.clamp_length: {} -> {}", ty, inp(), show(&(api.clamp_length)(a, lo, hi)))); }
            let check = |c: &mut OpCtx, nm: &'static str, g: [S; N], lo: f64, hi: f64| {
                let rg = rs(&g);
                let gl = vlen(&rg).to_f64();
                let tol = 4.0 * eps * gl.max(l);
                if !(gl >= lo - tol && gl <= hi + tol) {
                    fail(c, "steer", &[nm, "bounds"], &inp, format!("|r| = {:e}", gl), format!("[{:e}, {:e}]", lo, hi), "length must be inside the requested bounds".into());
                }
                // expected length: clamp(l)
                let el = l.max(lo).min(hi);
                c.ratio_t("clamp length", (gl - el).abs() / (4.0 * eps * el));
                if !((gl - el).abs() <= 4.0 * eps * el) {
                    fail(c, "steer", &[nm, "length"], &inp, format!("|r| = {:e}", gl), format!("{:e}", el), String::new());
                }
                // direction kept
                let d = vdot(&rg, &ra).to_f64();
                let resid: f64 = (0..N).map(|k| (rg[k].to_f64() - ra[k].to_f64() * d / (l * l)).powi(2)).sum::<f64>().sqrt();
                if !(d > 0.0) || !(resid <= 8.0 * eps * gl) {
                    fail(c, "steer", &[nm, "direction"], &inp, show(&g), String::new(), format!("direction must be kept (off by {:e})", resid));
                }
            };
            check(&mut c, "clamp_length", (api.clamp_length)(a, lo, hi), lo.f64(), hi.f64());
            check(&mut c, "clamp_length_max", (api.clamp_length_max)(a, hi), 0.0, hi.f64());
            check(&mut c, "clamp_length_min", (api.clamp_length_min)(a, lo), lo.f64(), f64::INFINITY);
        }
        mon.end(c);
    }

    // ---- rotate_towards (2-D and 3-D) --------------------------------------------------------------------------
    if let Some(rt) = &api.rotate_towards {
        if let Some(mut c) = mon.begin(ty, "rotate_towards") {
            let mut rng = Rng::new(mon.op_seed(ty, "rot"));
            use core::f64::consts::PI;
            for it in 0..iters {
                // magnitudes stay in a window (2^+-8 for f32, 2^+-60 for f64) in which no intermediate of the documented formulas
                // (dot / sqrt(|a|^2 |b|^2), the normalised cross product) leaves the normal range; see DESIGN.md, C12 scope
                let (av, _) = vec_kind_r::<S>(&mut rng, N, [0u64, 1, 7][(it % 3) as usize], 0.2);
                let a: [S; N] = arr(&av);
                let (bv, lb) = partner::<S>(&mut rng, &a, 1 + (it / 3) % 5);
                let b: [S; N] = arr(&bv);
                let (ra, rb) = (rs(&a), rs(&b));
                if vlen(&ra).to_f64() == 0.0 || vlen(&rb).to_f64() == 0.0 { continue; }
                let theta = angle_between(&ra, &rb);
                let m = S::of(match it % 6 { 0 => 0.0, 1 => theta * rng.unit(), 2 => theta * rng.range(0.9, 1.1), 3 => theta + rng.range(0.0, 3.0), 4 => -rng.range(0.0, 4.0), _ => rng.range(-0.5, 3.5) });
                let g = rt(a, b, m);
                let rg = rs(&g);
                let tol = ang_tol::<S>(theta) + 32.0 * eps;
                let mf = m.f64();
                // expected signed motion: clamp of the request to [theta - pi, theta]
                let moved = mf.max(theta - PI).min(theta);
                let inp = || format!("a={} b={} ({}) max_angle={:?} theta={:e}", show(&a), show(&b), lb, m, theta);
                c.event(vcommon::rng::hash_str(lb) ^ (it % 6), true);
                if c.need_sample() { c.sample(format!("{}.rotate_towards: {} -> {}", ty, inp(), show(&g))); }
                let la = vlen(&ra).to_f64();
                let lg = vlen(&rg).to_f64();

                c.ratio_t("length preserved", (lg - la).abs() / (16.0 * eps * la));
                if !((lg - la).abs() <= 16.0 * eps * la) {
                    fail(&mut c, "steer", &["rotate_towards", "length"], &inp, format!("{:e}", lg), format!("{:e}", la), "rotation must preserve the length".into());
                }
                let from_start = angle_between(&ra, &rg);
                let to_target = angle_between(&rg, &rb);
                // when the rotation plane is ill-defined (theta within tol of 0 or pi) only the angle from the start is constrained
                c.ratio_t("angle moved", (from_start - moved.abs()).abs() / tol);
                if !((from_start - moved.abs()).abs() <= tol) {
                    fail(&mut c, "steer", &["rotate_towards", "angle"], &inp, format!("moved {:e}", from_start), format!("{:e}", moved.abs()), "must rotate exactly the clamped request".into());
                }
                let plane_ok = theta.sin().abs() > 1e-3;
                if plane_ok {
                    let expect_to = theta - moved;
                    c.ratio_t("angle to target", (to_target - expect_to).abs() / tol);
                    if !((to_target - expect_to).abs() <= tol) {
                        fail(&mut c, "steer", &["rotate_towards", "toward"], &inp, format!("angle to target {:e}", to_target), format!("{:e}", expect_to), "must rotate toward the target within the plane of the two vectors, never past it".into());
                    }
                }
            }
            mon.end(c);
        }
    }

    // ---- vector slerp ---------------------------------------------------------------------------------------------
    if let Some(sl) = &api.slerp {
        if let Some(mut c) = mon.begin(ty, "slerp") {
            let mut rng = Rng::new(mon.op_seed(ty, "slerp"));
            for it in 0..iters {
                // every 4th pair uses (almost) the whole exponent range for which |a|^2 and |b|^2 are representable: the documented
                // formula divides the dot product by |a| * |b|, which must not be replaced by sqrt(|a|^2 * |b|^2)
                let wide = it % 4 == 3;
                let (av, _) = vec_kind_r::<S>(&mut rng, N, if wide { [0u64, 3, 7, 3][((it / 4) % 4) as usize] } else { [0u64, 1, 7][(it % 3) as usize] }, if wide { 0.95 } else { 0.2 });
                let a: [S; N] = arr(&av);
                let (bv, lb) = partner::<S>(&mut rng, &a, 1 + (it / 3) % 5);
                let b: [S; N] = arr(&bv);
                // references are computed on copies scaled by exact powers of two so that the double-double products stay in
                // range for operands near the ends of the exponent range; lengths are scaled back
                let pow2 = |v: &[S; N]| -> f64 { let m = v.iter().map(|x| x.f64().abs()).fold(0.0, f64::max); if m > 0.0 && m.is_finite() { m.log2().floor().exp2() } else { 1.0 } };
                let (pa, pb) = (pow2(&a), pow2(&b));
                let asc: [S; N] = core::array::from_fn(|k| S::of(a[k].f64() / pa));
                let bsc: [S; N] = core::array::from_fn(|k| S::of(b[k].f64() / pb));
                if (0..N).any(|k| asc[k].f64() * pa != a[k].f64() || bsc[k].f64() * pb != b[k].f64()) { continue; } // (subnormal lanes: scaling not exact)
                let (ra, rb) = (rs(&asc), rs(&bsc));
                let (la, lbn) = (vlen(&ra).to_f64() * pa, vlen(&rb).to_f64() * pb);
                if la == 0.0 || lbn == 0.0 || !la.is_finite() || !lbn.is_finite() { continue; }
                let theta = angle_between(&ra, &rb);
                let s = S::of(match it % 5 { 0 => 0.0, 1 => 1.0, 2 => 0.5, 3 => rng.range(-0.2, 1.2), _ => rng.unit() });
                let g = sl(a, b, s);
                let rg = rs(&g);
                let sf = s.f64();
                let near_anti = theta > core::f64::consts::PI - 0.1;
                let zone = if near_anti { "near_antiparallel" } else if theta < 1e-3 { "near_parallel" } else { "regular" };
                let tol = ang_tol::<S>(theta);
                let inp = || format!("a={} b={} ({}) s={:?} theta={:e}", show(&a), show(&b), lb, s, theta);
                c.event(vcommon::rng::hash_str(lb) ^ (it % 5) ^ vcommon::rng::hash_str(zone), true);
                c.count(zone);
                if c.need_sample() && !near_anti { c.sample(format!("{}.slerp: {} -> {}", ty, inp(), show(&g))); }
                // length interpolates linearly
                let el = la + (lbn - la) * sf;
                let lg = vlen(&rg).to_f64();
                let ltol = 8.0 * eps * (la.max(lbn)) + tol * el.abs();
                c.ratio_t(if near_anti { "slerp length (near antiparallel)" } else { "slerp length" }, (lg - el.abs()).abs() / ltol);
                // The two recorded findings (known_findings.json: F-vslerp-antiparallel, F-dvslerp-nearparallel) are accuracy
                // losses with a known envelope; anything outside that envelope is tagged "gross" and is not covered by them.
                //   near-opposite, general branch: error ~ eps / sin^2(theta);  fall-back branch (|cos| >= 1 - 3e-7): the
                //   length is exact and the direction is off by at most the distance of b from -a;
                //   near-parallel fall-back (lerp): angle off by at most theta, length by theta^2.
                // which branch the implementation takes is decided by its own rounded cosine (a handful of roundings, each
                // <= eps/2, typically ~1 eps in total): only inputs at least 5 eps away from the 1 - 3e-7 threshold are
                // attributed to one branch (for f32 that leaves 1 - |cos| <= 1e-9 for the fall-back), the rest get the union.
                let dth = if near_anti { core::f64::consts::PI - theta } else { theta };
                let omc = 2.0 * (dth / 2.0).sin().powi(2); // 1 - |cos theta|
                let in_fallback = omc <= 3e-7 - (5.0 * eps).min(3e-7 - 1e-9);
                let in_general = omc >= 3e-7 + 5.0 * eps;
                let s2 = (theta.sin() * theta.sin()).max(2.5e-7);
                let (genv_len, genv_ang) = if near_anti {
                    let g = 8.0 * eps / s2;
                    let fb = 2.0 * (core::f64::consts::PI - theta) + 64.0 * eps;
                    if in_fallback { (32.0 * eps, fb) } else if in_general { (g, g) } else { (g, g.max(fb)) }
                } else {
                    (theta * theta + 64.0 * eps / s2.max(theta * theta), theta + 64.0 * eps / s2.max(theta * theta).sqrt())
                };
                if !((lg - el.abs()).abs() <= ltol) {
                    let gross = !((lg - el.abs()).abs() <= ltol + genv_len * la.max(lbn));
                    if near_anti { c.ratio_t("slerp length (near antiparallel) vs known envelope", (lg - el.abs()).abs() / (ltol + genv_len * la.max(lbn))); }
                    let tags: &[&str] = if gross { &["slerp", "length", zone, "gross"] } else { &["slerp", "length", zone] };
                    fail(&mut c, "interp", tags, &inp, format!("{:e}", lg), format!("{:e}", el), "length must be linearly interpolated".into());
                }
                // angle from the start = s * theta (for s in [0,1]); extrapolation keeps the same law in magnitude
                if lg > 0.0 && el.abs() > 1e-3 * la.max(lbn) {
                    let from_start = angle_between(&ra, &rg);
                    let want = (sf * theta).abs().min(2.0 * core::f64::consts::PI - (sf * theta).abs());
                    c.ratio_t(if near_anti { "slerp angle (near antiparallel)" } else { "slerp angle" }, (from_start - want).abs() / tol);
                    if !((from_start - want).abs() <= tol) {
                        let gross = !((from_start - want).abs() <= tol + genv_ang);
                        if near_anti { c.ratio_t("slerp angle (near antiparallel) vs known envelope", (from_start - want).abs() / (tol + genv_ang)); }
                        let tags: &[&str] = if gross { &["slerp", "angle", zone, "gross"] } else { &["slerp", "angle", zone] };
                        fail(&mut c, "interp", tags, &inp, format!("angle from start {:e}", from_start), format!("{:e}", want), "angle from the start must be s times the total angle".into());
                    }
                    if theta.sin().abs() > 1e-3 && sf >= 0.0 && sf <= 1.0 {
                        let to_end = angle_between(&rg, &rb);
                        if !((to_end - (1.0 - sf) * theta).abs() <= tol) {
                            let gross = !((to_end - (1.0 - sf) * theta).abs() <= tol + genv_ang);
                            let tags: &[&str] = if gross { &["slerp", "plane", zone, "gross"] } else { &["slerp", "plane", zone] };
                            fail(&mut c, "interp", tags, &inp, format!("angle to end {:e}", to_end), format!("{:e}", (1.0 - sf) * theta), "result must lie on the arc between the operands".into());
                        }
                    }
                }
            }
            mon.end(c);
        }
    }

    // ---- orthogonal basis helpers -----------------------------------------------------------------------------------
    if let (Some(ov), Some(onv), Some(onp)) = (&api.any_orthogonal_vector, &api.any_orthonormal_vector, &api.any_orthonormal_pair) {
        if let Some(mut c) = mon.begin(ty, "any_orthogonal/orthonormal") {
            let mut rng = Rng::new(mon.op_seed(ty, "ortho"));
            for it in 0..iters {
                // whole sphere incl. the poles z = -1, z = +-0 and axis-aligned inputs
                let u: [S; N] = match it % 8 {
                    0 => core::array::from_fn(|k| S::of([0.0, 0.0, -1.0][k])),
                    1 => core::array::from_fn(|k| S::of([0.0, 0.0, 1.0][k])),
                    2 => core::array::from_fn(|k| S::of([1.0, 0.0, -0.0][k])),
                    3 => core::array::from_fn(|k| S::of([0.0, -1.0, 0.0][k])),
                    4 => { let t = rng.range(0.0, 6.3); let e = 10f64.powf(-rng.range(3.0, 9.0)); let raw = [t.cos() * e, t.sin() * e, -(1.0 - e * e).sqrt()]; core::array::from_fn(|k| S::of(raw[k])) }
                    5 => { let t = rng.range(0.0, 6.3); let raw = [t.cos(), t.sin(), if rng.bool() { 0.0 } else { -0.0 }]; core::array::from_fn(|k| S::of(raw[k])) }
                    _ => arr(&unit_hostile::<S>(&mut rng, N)),
                };
                let ru = rs(&u);
                let inp = || format!("v={}", show(&u));
                c.event(it % 8, true);
                if c.need_sample() { c.sample(format!("{}.any_orthonormal_pair: {} -> {:?}", ty, inp(), { let (p, q) = onp(u); (show(&p), show(&q)) })); }
                let unit_ok = |c: &mut OpCtx, nm: &'static str, w: &[S; N]| {
                    let l = vlen(&rs(w)).to_f64();
                    c.ratio_t("unit", (l - 1.0).abs() / (8.0 * eps));
                    if !((l - 1.0).abs() <= 8.0 * eps) { fail(c, "basis", &[nm, "unit"], &inp, show(w), format!("|w| = {}", l), String::new()); }
                };
                let orth_ok = |c: &mut OpCtx, nm: &'static str, w: &[S; N], x: &[S; N]| {
                    let (rw, rx) = (rs(w), rs(x));
                    let d = vdot(&rw, &rx).to_f64().abs();
                    let sc = vlen(&rw).to_f64() * vlen(&rx).to_f64();
                    c.ratio_t("orthogonal", d / (8.0 * eps * sc));
                    if !(d <= 8.0 * eps * sc) || !(sc > 0.0) { fail(c, "basis", &[nm, "orthogonal"], &inp, format!("{} . {} = {:e}", show(w), show(x), d), "0".into(), String::new()); }
                };
                // non-unit inputs for any_orthogonal_vector
                let scl = S::of(10f64.powf(rng.range(-6.0, 6.0)));
                let big: [S; N] = core::array::from_fn(|k| u[k] * scl);
                let o = ov(big);
                orth_ok(&mut c, "any_orthogonal_vector", &o, &big);
                let on = onv(u);
                orth_ok(&mut c, "any_orthonormal_vector", &on, &u);
                unit_ok(&mut c, "any_orthonormal_vector", &on);
                let (p, q) = onp(u);
                orth_ok(&mut c, "any_orthonormal_pair.0", &p, &u);
                orth_ok(&mut c, "any_orthonormal_pair.1", &q, &u);
                orth_ok(&mut c, "any_orthonormal_pair.0x1", &p, &q);
                unit_ok(&mut c, "any_orthonormal_pair.0", &p);
                unit_ok(&mut c, "any_orthonormal_pair.1", &q);
                let _ = ru;
            }
            mon.end(c);
        }
    }
}

// ---- quaternions ---------------------------------------------------------------------------------------------------------
fn qangle(a: &[f64; 4], b: &[f64; 4]) -> f64 {
    // angle between the rotations (handles q ~ -q): 2 * atan2(|a - b|, |a + b|) on the 3-sphere, folded
    let d: f64 = (0..4).map(|k| (a[k] - b[k]).powi(2)).sum::<f64>().sqrt();
    let s: f64 = (0..4).map(|k| (a[k] + b[k]).powi(2)).sum::<f64>().sqrt();
    2.0 * d.min(s).atan2(d.max(s))
}

macro_rules! quat_suite {
    ($mon:expr, $tag:expr, $S:ty, $Q:ident, $V3:ident, $V2:ident) => {{
        let mon: &mut Monitor = $mon;
        let iters = mon.n(8_000, 800_000);
        let eps = <$S as Fl>::EPS;
        if let Some(mut c) = mon.begin($tag, "lerp/slerp/rotate_towards") {
            let mut rng = Rng::new(mon.op_seed($tag, "q"));
            for it in 0..iters {
                let (qa, la) = unit_quat::<$S>(&mut rng, it);
                // partner: independent, or at a prescribed small / near-pi angle from qa
                let qb: [$S; 4] = match it % 4 {
                    0 => unit_quat::<$S>(&mut rng, it / 4 + 1).0,
                    1 => { let ax = unit::<f64>(&mut rng, 3); let ang = 10f64.powf(-rng.range(0.5, 7.5)); let (s, co) = (ang * 0.5).sin_cos(); let r = [ax[0] * s, ax[1] * s, ax[2] * s, co]; let p = qmul::<f64>(&[qa[0] as f64, qa[1] as f64, qa[2] as f64, qa[3] as f64], &r); let n = (p[0] * p[0] + p[1] * p[1] + p[2] * p[2] + p[3] * p[3]).sqrt(); [(p[0] / n) as $S, (p[1] / n) as $S, (p[2] / n) as $S, (p[3] / n) as $S] }
                    2 => { let ax = unit::<f64>(&mut rng, 3); let ang = core::f64::consts::PI - 10f64.powf(-rng.range(0.5, 7.0)); let (s, co) = (ang * 0.5).sin_cos(); let r = [ax[0] * s, ax[1] * s, ax[2] * s, co]; let p = qmul::<f64>(&[qa[0] as f64, qa[1] as f64, qa[2] as f64, qa[3] as f64], &r); let n = (p[0] * p[0] + p[1] * p[1] + p[2] * p[2] + p[3] * p[3]).sqrt(); [(-p[0] / n) as $S, (-p[1] / n) as $S, (-p[2] / n) as $S, (-p[3] / n) as $S] }
                    _ => unit_quat::<$S>(&mut rng, it / 4 + 2).0,
                };
                let (a, b) = (<$Q>::from_array(qa), <$Q>::from_array(qb));
                let (af, bf) = ([qa[0] as f64, qa[1] as f64, qa[2] as f64, qa[3] as f64], [qb[0] as f64, qb[1] as f64, qb[2] as f64, qb[3] as f64]);
                let dot: f64 = (0..4).map(|k| af[k] * bf[k]).sum();
                let bs: [f64; 4] = if dot < 0.0 { [-bf[0], -bf[1], -bf[2], -bf[3]] } else { bf };
                // total angle on the 3-sphere between a and the sign-corrected b (half the rotation angle)
                let omega = { let d: f64 = (0..4).map(|k| (af[k] - bs[k]).powi(2)).sum::<f64>().sqrt(); let s: f64 = (0..4).map(|k| (af[k] + bs[k]).powi(2)).sum::<f64>().sqrt(); 2.0 * d.atan2(s) };
                // s in [0, 1], slightly outside, and far extrapolation (several turns along the great circle: slerp stays on
                // the unit sphere and keeps angle = s * total for every s)
                let far = it % 7 == 4;
                let s = if far { rng.range(-60.0, 60.0) } else { match it % 6 { 0 => 0.0, 1 => 1.0, 2 => 0.5, 3 => rng.range(-0.2, 1.2), _ => rng.unit() } } as $S;
                let sf = s as f64;
                let inp = || format!("a={:?} ({}) b={:?} s={:?} omega={:e}", a, la, b, s, omega);
                let tol = ang_tol::<$S>(omega) * 2.0 * sf.abs().max(1.0);
                c.event(vcommon::rng::hash_str(la) ^ (it % 24) ^ ((far as u64) << 7), true);
                if c.need_sample() { c.sample(format!("{}: slerp {} -> {:?}", $tag, inp(), a.slerp(b, s))); }
                // exact references along the shorter arc; when the operands are orthogonal on the 3-sphere
                // (|dot| within rounding of 0) both arcs are equally short and either is accepted
                let refs = |bs: &[f64; 4], omega: f64| -> ([f64; 4], [f64; 4]) {
                    let mut nl: [f64; 4] = core::array::from_fn(|k| af[k] + (bs[k] - af[k]) * sf);
                    let n = nl.iter().map(|x| x * x).sum::<f64>().sqrt();
                    for x in nl.iter_mut() { *x /= n; }
                    let sl: [f64; 4] = if omega < 1e-7 { nl } else { let so = omega.sin(); let (w0, w1) = (((1.0 - sf) * omega).sin() / so, (sf * omega).sin() / so); core::array::from_fn(|k| af[k] * w0 + bs[k] * w1) };
                    (nl, sl)
                };
                let (nl, sl) = refs(&bs, omega);
                let ambiguous = dot.abs() <= 8.0 * eps;
                let alt = { let nb = [-bs[0], -bs[1], -bs[2], -bs[3]]; refs(&nb, core::f64::consts::PI - omega) };
                for (nm, g, exact, exact_alt) in [("Quat::lerp", a.lerp(b, s), nl, alt.0), ("Quat::slerp", a.slerp(b, s), sl, alt.1)] {
                    if far && nm == "Quat::lerp" { continue; } // a far-extrapolated chord can pass through the origin
                    let gf = [g.x as f64, g.y as f64, g.z as f64, g.w as f64];
                    let gn = gf.iter().map(|x| x * x).sum::<f64>().sqrt();
                    c.ratio_t("unit", (gn - 1.0).abs() / (16.0 * eps + if nm == "Quat::slerp" { tol } else { 0.0 }));
                    if !((gn - 1.0).abs() <= 16.0 * eps + if nm == "Quat::slerp" { tol } else { 0.0 }) {
                        fail(&mut c, "interp", &[nm, "unit"], &inp, format!("{:?} norm {}", g, gn), "1".into(), String::new());
                    }
                    let mut e = qangle(&gf, &exact);
                    if ambiguous {
                        c.boundary();
                        e = e.min(qangle(&gf, &exact_alt));
                    }
                    c.ratio_t(nm, e / tol);
                    if !(e <= tol) {
                        fail(&mut c, "interp", &[nm, "angle"], &inp, format!("{:?}", g), format!("{:?}", exact), format!("{:e} rad from the exact interpolant along the shorter arc (tol {:e})", e, tol));
                    }
                }
                // rotate_towards
                let rot_total = 2.0 * omega; // rotation angle between the orientations
                let m = match it % 5 { 0 => 0.0, 1 => rot_total * rng.unit(), 2 => rot_total * rng.range(0.9, 1.1), 3 => rot_total + rng.range(0.0, 2.0), _ => rng.range(0.0, 3.5) } as $S;
                let g = a.rotate_towards(b, m);
                let gf = [g.x as f64, g.y as f64, g.z as f64, g.w as f64];
                let mf = m as f64;
                let rinp = || format!("a={:?} b={:?} max_angle={:?} total={:e}", a, b, m, rot_total);
                let snap = 1e-4;
                let rtol = 2.0 * tol + 64.0 * eps;
                // rotation angle between orientations = twice the angle on the 3-sphere
                let moved = 2.0 * qangle(&af, &gf);
                let remaining = 2.0 * qangle(&gf, &bf);
                if rot_total <= snap * (1.0 - 1e-2) - rtol || mf >= rot_total + rtol {
                    // within reach: the target (as a rotation)
                    c.count("rt_reach");
                    if !(remaining <= rtol) {
                        fail(&mut c, "steer", &["Quat::rotate_towards", "target"], &rinp, format!("{:?} ({:e} rad from target)", g, remaining), format!("{:?}", b), "within reach: must return the target".into());
                    }
                } else if rot_total >= snap * (1.0 + 1e-2) + rtol && mf <= rot_total - rtol {
                    c.count("rt_partial");
                    c.ratio_t("rotate_towards moved", (moved - mf).abs() / rtol);
                    if !((moved - mf).abs() <= rtol) || !((remaining - (rot_total - mf)).abs() <= rtol) {
                        fail(&mut c, "steer", &["Quat::rotate_towards", "angle"], &rinp, format!("moved {:e}, remaining {:e}", moved, remaining), format!("{:e} / {:e}", mf, rot_total - mf), "must rotate exactly the requested angle toward the target".into());
                    }
                } else {
                    c.boundary();
                    if !(moved <= rot_total + rtol) {
                        fail(&mut c, "steer", &["Quat::rotate_towards", "overshoot"], &rinp, format!("moved {:e}", moved), format!("<= {:e}", rot_total), "never passes the target".into());
                    }
                }
            }
            mon.end(c);
        }
        if let Some(mut c) = mon.begin($tag, "from_rotation_arc*") {
            let mut rng = Rng::new(mon.op_seed($tag, "arc"));
            for it in 0..iters {
                let a: Vec<$S> = unit_hostile::<$S>(&mut rng, 3);
                let (bv, lb) = match it % 6 {
                    0 => (a.iter().map(|x| -*x).collect::<Vec<$S>>(), "exactly-opposite"),
                    1 => (a.clone(), "equal"),
                    _ => { let (b, l) = partner::<$S>(&mut rng, &a, 1 + (it / 6) % 5); let bl = norm(&f64s(&b)); (b.iter().map(|x| (*x as f64 / bl) as $S).collect(), l) }
                };
                let (va, vb) = (<$V3>::new(a[0], a[1], a[2]), <$V3>::new(bv[0], bv[1], bv[2]));
                let (ra, rb) = (rs(&a), rs(&bv));
                let theta = angle_between(&ra, &rb);
                let inp = || format!("from={:?} to={:?} ({}) theta={:e}", va, vb, lb, theta);
                c.event(vcommon::rng::hash_str(lb) ^ (it % 6), true);
                if c.need_sample() { c.sample(format!("{}: from_rotation_arc {} -> {:?}", $tag, inp(), <$Q>::from_rotation_arc(va, vb))); }
                let tol = 16.0 * eps * (1.0 + 1.0 / theta.sin().abs().max(1e-300)).min(2.0 / (16.0 * eps).sqrt());
                let q = <$Q>::from_rotation_arc(va, vb);
                let r = q * va;
                let e = ((r.x as f64 - vb.x as f64).powi(2) + (r.y as f64 - vb.y as f64).powi(2) + (r.z as f64 - vb.z as f64).powi(2)).sqrt();
                c.ratio_t("from_rotation_arc", e / tol);
                if !(e <= tol) {
                    fail(&mut c, "steer", &["from_rotation_arc"], &inp, format!("q*from = {:?}", r), format!("{:?}", vb), format!("off by {:e} > {:e}", e, tol));
                }
                let qn = ((q.x as f64).powi(2) + (q.y as f64).powi(2) + (q.z as f64).powi(2) + (q.w as f64).powi(2)).sqrt();
                if !((qn - 1.0).abs() <= 16.0 * eps) {
                    fail(&mut c, "steer", &["from_rotation_arc", "unit"], &inp, format!("{}", qn), "1".into(), String::new());
                }
                let qc = <$Q>::from_rotation_arc_colinear(va, vb);
                let rc = qc * va;
                let ep = ((rc.x as f64 - vb.x as f64).powi(2) + (rc.y as f64 - vb.y as f64).powi(2) + (rc.z as f64 - vb.z as f64).powi(2)).sqrt();
                let em = ((rc.x as f64 + vb.x as f64).powi(2) + (rc.y as f64 + vb.y as f64).powi(2) + (rc.z as f64 + vb.z as f64).powi(2)).sqrt();
                c.ratio_t("from_rotation_arc_colinear", ep.min(em) / tol);
                if !(ep.min(em) <= tol) {
                    fail(&mut c, "steer", &["from_rotation_arc_colinear"], &inp, format!("q*from = {:?}", rc), format!("+-{:?}", vb), String::new());
                }
                // 2-D
                let t1 = rng.range(-3.2, 3.2);
                let t2 = match it % 4 { 0 => t1 + core::f64::consts::PI, 1 => t1 + 10f64.powf(-rng.range(1.0, 7.0)), _ => rng.range(-3.2, 3.2) };
                let (f2, to2) = (<$V2>::new(t1.cos() as $S, t1.sin() as $S), <$V2>::new(t2.cos() as $S, t2.sin() as $S));
                let q2 = <$Q>::from_rotation_arc_2d(f2, to2);
                let r2 = q2 * <$V3>::new(f2.x, f2.y, 0.0);
                let th2 = angle_between(&[f2.x as f64, f2.y as f64], &[to2.x as f64, to2.y as f64]);
                let tol2 = 16.0 * eps * (1.0 + 1.0 / th2.sin().abs().max(1e-300)).min(2.0 / (16.0 * eps).sqrt());
                let e2 = ((r2.x as f64 - to2.x as f64).powi(2) + (r2.y as f64 - to2.y as f64).powi(2) + (r2.z as f64).powi(2)).sqrt();
                c.ratio_t("from_rotation_arc_2d", e2 / tol2);
                if !(e2 <= tol2) {
                    fail(&mut c, "steer", &["from_rotation_arc_2d"], &|| format!("from={:?} to={:?}", f2, to2), format!("{:?}", r2), format!("{:?}", to2), String::new());
                }
            }
            mon.end(c);
        }
    }};
}

fn float_ext(mon: &mut Monitor) {
    let iters = mon.n(20_000, 2_000_000);
    macro_rules! fe {
        ($tag:expr, $S:ty) => {
            if let Some(mut c) = mon.begin($tag, "FloatExt lerp/inverse_lerp/remap") {
                let mut rng = Rng::new(mon.op_seed($tag, "fe"));
                for it in 0..iters {
                    let a = rng.logmag(-8.0, 8.0) as $S;
                    let b = if it % 5 == 0 { a * (1.0 + rng.range(1e-3, 1.0) as $S) } else { rng.logmag(-8.0, 8.0) as $S };
                    let t = match it % 4 { 0 => 0.0, 1 => 1.0, 2 => rng.range(-1.0, 2.0), _ => rng.unit() } as $S;
                    let (ra, rb, rt) = (<$S as HasR>::r(a), <$S as HasR>::r(b), <$S as HasR>::r(t));
                    let inp = || format!("a={:?} b={:?} t={:?}", a, b, t);
                    c.event(it % 16, true);
                    let g = FloatExt::lerp(a, b, t);
                    hp::<$S>(&mut c, "FloatExt::lerp", g, ra + (rb - ra) * rt, (a as f64).abs() + ((a as f64).abs() + (b as f64).abs()) * (t as f64).abs(), 4.0, &inp);
                    if b != a {
                        let v = rng.logmag(-8.0, 8.0) as $S;
                        let rv = <$S as HasR>::r(v);
                        let gi = FloatExt::inverse_lerp(a, b, v);
                        let sc = ((v as f64).abs() + (a as f64).abs()) / ((b as f64) - (a as f64)).abs();
                        // (v - a) and (b - a) are each rounded once: relative eps of |v|+|a| and of |b|+|a| over |b - a|
                        let cond = (1.0 + ((a as f64).abs() + (b as f64).abs()) / ((b as f64) - (a as f64)).abs()) * sc.max(1e-300);
                        hp::<$S>(&mut c, "FloatExt::inverse_lerp", gi, (rv - ra) / (rb - ra), cond, 4.0, &|| format!("a={:?} b={:?} v={:?}", a, b, v));
                        let (c2, d2) = (rng.logmag(-8.0, 8.0) as $S, rng.logmag(-8.0, 8.0) as $S);
                        let gr = FloatExt::remap(v, a, b, c2, d2);
                        let tt = (rv - ra) / (rb - ra);
                        let ex = <$S as HasR>::r(c2) + (<$S as HasR>::r(d2) - <$S as HasR>::r(c2)) * tt;
                        let s2 = (c2 as f64).abs() + ((c2 as f64).abs() + (d2 as f64).abs()) * (tt.to_f64().abs() + 4.0 * <$S as Fl>::EPS * cond * 0.0) + ((c2 as f64).abs() + (d2 as f64).abs()) * cond;
                        hp::<$S>(&mut c, "FloatExt::remap", gr, ex, s2, 8.0, &|| format!("v={:?} [{:?},{:?}] -> [{:?},{:?}]", v, a, b, c2, d2));
                    }
                }
                c.sample(format!("{}: FloatExt::lerp / inverse_lerp / remap against exact affine maps", $tag));
                mon.end(c);
            }
        };
    }
    fe!("f32", f32);
    fe!("f64", f64);
}

fn canaries(mon: &mut Monitor) {
    let mk = || steer_api!(Vec3, f32, 3, rot: yes, three: yes);
    mon.canary("move_towards overshooting", |m| {
        let mut api = mk();
        api.move_towards = Box::new(|a, b, d| Vec3::from_array(a).move_towards(Vec3::from_array(b), d * 1.0001 + 1e-6).to_array());
        suite(m, &api);
    });
    mon.canary("rotate_towards passing the target", |m| {
        let mut api = mk();
        api.rotate_towards = Some(Box::new(|a, b, mx| { let (x, y) = (Vec3::from_array(a), Vec3::from_array(b)); let th = x.angle_between(y); (Quat::from_axis_angle(x.cross(y).try_normalize().unwrap_or(Vec3::X), mx.max(th - 3.14159).min(th * 1.01 + 1e-3)) * x).to_array() }));
        suite(m, &api);
    });
    mon.canary("slerp as normalised lerp", |m| {
        let mut api = mk();
        api.slerp = Some(Box::new(|a, b, s| { let (x, y) = (Vec3::from_array(a), Vec3::from_array(b)); let l = x.length() + (y.length() - x.length()) * s; (x.normalize().lerp(y.normalize(), s).normalize_or_zero() * l).to_array() }));
        suite(m, &api);
    });
    mon.canary("clamp_length_max rescaling by the squared length", |m| {
        let mut api = mk();
        api.clamp_length_max = Box::new(|a, hi| { let x = Vec3::from_array(a); let l2 = x.length_squared(); if l2 > hi * hi { (x * (hi / l2)).to_array() } else { a } });
        suite(m, &api);
    });
    mon.canary("orthonormal pair failing at z = -1", |m| {
        let mut api = mk();
        api.any_orthonormal_pair = Some(Box::new(|a| { let n = Vec3::from_array(a); let s = 1.0f32; let k = -1.0 / (s + n.z); let b = n.x * n.y * k; (Vec3::new(1.0 + s * n.x * n.x * k, s * b, -s * n.x).to_array(), Vec3::new(b, s + n.y * n.y * k, -n.y).to_array()) }));
        suite(m, &api);
    });
    mon.canary("lerp as a + (b - a) * s (misses the end point)", |m| {
        let mut api = mk();
        api.lerp = Box::new(|a, b, s| core::array::from_fn(|k| a[k] + (b[k] - a[k]) * s));
        suite(m, &api);
    });
}

pub fn run(mon: &mut Monitor) {
    canaries(mon);
    suite(mon, &steer_api!(Vec2, f32, 2, rot: yes, three: no));
    suite(mon, &steer_api!(Vec3, f32, 3, rot: yes, three: yes));
    suite(mon, &steer_api!(Vec3A, f32, 3, rot: yes, three: yes));
    suite(mon, &steer_api!(Vec4, f32, 4, rot: no, three: no));
    suite(mon, &steer_api!(DVec2, f64, 2, rot: yes, three: no));
    suite(mon, &steer_api!(DVec3, f64, 3, rot: yes, three: yes));
    suite(mon, &steer_api!(DVec4, f64, 4, rot: no, three: no));
    quat_suite!(mon, "Quat", f32, Quat, Vec3, Vec2);
    quat_suite!(mon, "DQuat", f64, DQuat, DVec3, DVec2);
    float_ext(mon);
}

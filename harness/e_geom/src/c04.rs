//! C04: quaternion algebra: Hamilton product, conjugate, rotation of vectors.

use crate::gen::*;
use crate::hp::*;
use glam::*;
use vcommon::dd::Real;
use vcommon::fl::Fl;
use vcommon::mon::*;
use vcommon::refm::*;
use vcommon::rng::Rng;

type F2<S> = Box<dyn Fn([S; 4], [S; 4]) -> [S; 4]>;
type FR<S> = Box<dyn Fn([S; 4], [S; 3]) -> [S; 3]>;

pub struct QuatApi<S: HasR> {
    pub name: &'static str,
    pub mul: Vec<(&'static str, F2<S>)>,
    pub rot: Vec<(&'static str, FR<S>)>,
    pub conjugate: Box<dyn Fn([S; 4]) -> [S; 4]>,
    pub inverse: Box<dyn Fn([S; 4]) -> [S; 4]>,
    pub add: F2<S>,
    pub sub: F2<S>,
    pub neg: Box<dyn Fn([S; 4]) -> [S; 4]>,
    pub mul_s: Box<dyn Fn([S; 4], S) -> [S; 4]>,
    pub div_s: Box<dyn Fn([S; 4], S) -> [S; 4]>,
    pub dot: Box<dyn Fn([S; 4], [S; 4]) -> S>,
    pub length: Box<dyn Fn([S; 4]) -> S>,
    pub length_squared: Box<dyn Fn([S; 4]) -> S>,
    pub length_recip: Box<dyn Fn([S; 4]) -> S>,
    pub normalize: Box<dyn Fn([S; 4]) -> [S; 4]>,
}

macro_rules! quat_api {
    ($Q:ident, $S:ty, $V:ident, [$($en:expr => $ef:expr),*]) => {{
        let q = |a: [$S; 4]| <$Q>::from_array(a);
        let mut rot: Vec<(&'static str, FR<$S>)> = vec![
            ("mul_vec3", Box::new(move |a, v| q(a).mul_vec3(<$V>::from_array(v)).to_array())),
            ("q*v", Box::new(move |a, v| (q(a) * <$V>::from_array(v)).to_array())),
        ];
        $( rot.push(($en, Box::new($ef))); )*
        QuatApi::<$S> {
            name: stringify!($Q),
            mul: vec![
                ("mul_quat", Box::new(move |a, b| q(a).mul_quat(q(b)).to_array())),
                ("q*p", Box::new(move |a, b| (q(a) * q(b)).to_array())),
                ("q*=p", Box::new(move |a, b| { let mut x = q(a); x *= q(b); x.to_array() })),
                ("Product[q,p]", Box::new(move |a, b| [q(a), q(b)].iter().product::<$Q>().to_array())),
            ],
            rot,
            conjugate: Box::new(move |a| q(a).conjugate().to_array()),
            inverse: Box::new(move |a| q(a).inverse().to_array()),
            add: Box::new(move |a, b| (q(a) + q(b)).to_array()),
            sub: Box::new(move |a, b| (q(a) - q(b)).to_array()),
            neg: Box::new(move |a| (-q(a)).to_array()),
            mul_s: Box::new(move |a, s| (q(a) * s).to_array()),
            div_s: Box::new(move |a, s| (q(a) / s).to_array()),
            dot: Box::new(move |a, b| q(a).dot(q(b))),
            length: Box::new(move |a| q(a).length()),
            length_squared: Box::new(move |a| q(a).length_squared()),
            length_recip: Box::new(move |a| q(a).length_recip()),
            normalize: Box::new(move |a| q(a).normalize().to_array()),
        }
    }};
}

fn r4<S: HasR>(a: &[S; 4]) -> [S::R; 4] {
    [a[0].r(), a[1].r(), a[2].r(), a[3].r()]
}

pub fn suite<S: HasR>(mon: &mut Monitor, api: &QuatApi<S>) {
    let ty = api.name;
    let eps = S::EPS;
    let iters = mon.n(8_000, 800_000);

    if let Some(mut c) = mon.begin(ty, "Hamilton product (integer lattice, exact)") {
        let mut rng = Rng::new(mon.op_seed(ty, "int"));
        for it in 0..iters {
            let dense = it % 2 == 0;
            let g = |r: &mut Rng| -> [S; 4] { core::array::from_fn(|_| loop { let x = r.int_in(-8, 8); if !dense || x != 0 { break S::of(x as f64); } }) };
            let (a, b) = (g(&mut rng), g(&mut rng));
            let e = qmul(&r4(&a), &r4(&b));
            c.event(it % 128, true);
            for (nm, f) in &api.mul {
                let got = f(a, b);
                if (0..4).any(|k| got[k].f64() != e[k].to_f64()) {
                    c.violation("exact_mismatch", &["mul_quat", nm], format!("a={} b={}", show(&a), show(&b)), show(&got), format!("{:?}", e.iter().map(|x| x.to_f64()).collect::<Vec<_>>()), "Hamilton product of integer quaternions must be the exact integer 4-tuple".into());
                }
            }
            if c.need_sample() {
                c.sample(format!("{}: {} * {} = {}", ty, show(&a), show(&b), show(&(api.mul[0].1)(a, b))));
            }
        }
        mon.end(c);
    }

    if let Some(mut c) = mon.begin(ty, "conjugate/neg (bit patterns)") {
        let mut rng = Rng::new(mon.op_seed(ty, "bits"));
        let sign: u64 = 1u64 << (if S::NAME == "f32" { 31 } else { 63 });
        for it in 0..iters / 2 {
            let a: [S; 4] = core::array::from_fn(|_| if it % 2 == 0 { S::random_bits(&mut rng) } else { *rng.pick(S::lattice()) });
            let g = (api.conjugate)(a);
            c.event(it % 64, true);
            let ok = (0..3).all(|k| g[k].bits() == (a[k].bits() ^ sign) || (a[k].nan() && g[k].nan())) && (g[3].bits() == a[3].bits() || (a[3].nan() && g[3].nan()));
            if !ok {
                c.violation("bit_mismatch", &["conjugate"], show(&a), show(&g), String::new(), "conjugate negates exactly x, y, z and leaves w".into());
            }
            let ng = (api.neg)(a);
            if !(0..4).all(|k| ng[k].bits() == (a[k].bits() ^ sign) || (a[k].nan() && ng[k].nan())) {
                c.violation("bit_mismatch", &["neg"], show(&a), show(&ng), String::new(), String::new());
            }
        }
        c.sample(format!("{}: conjugate / neg on random bit patterns", ty));
        mon.end(c);
    }

    // +, -, scalar * and / are single IEEE operations per component, "like the 4-vector operations": exact.
    if let Some(mut c) = mon.begin(ty, "component-wise ops equal the primitive per component (exact)") {
        let mut rng = Rng::new(mon.op_seed(ty, "exact"));
        fn prim<S: Fl>(op: u8, a: S, b: S) -> S {
            if S::NAME == "f32" {
                let (x, y) = (f32::from_bits(a.bits() as u32), f32::from_bits(b.bits() as u32));
                let r = match op { 0 => x + y, 1 => x - y, 2 => x * y, _ => x / y };
                S::from_bits64(r.to_bits() as u64)
            } else {
                let (x, y) = (f64::from_bits(a.bits()), f64::from_bits(b.bits()));
                let r = match op { 0 => x + y, 1 => x - y, 2 => x * y, _ => x / y };
                S::from_bits64(r.to_bits())
            }
        }
        for it in 0..iters {
            let pickv = |r: &mut Rng| -> S { match it % 3 { 0 => S::random_bits(r), 1 => *r.pick(S::lattice()), _ => vcommon::fl::hostile::<S>(r) } };
            let a: [S; 4] = core::array::from_fn(|_| pickv(&mut rng));
            let b: [S; 4] = core::array::from_fn(|_| pickv(&mut rng));
            let s = pickv(&mut rng);
            c.event(vcommon::fl::class_key(&[a[0], b[0], s]), true);
            let res: [(&'static str, u8, [S; 4], [S; 4]); 4] = [
                ("add", 0, (api.add)(a, b), b),
                ("sub", 1, (api.sub)(a, b), b),
                ("mul_scalar", 2, (api.mul_s)(a, s), [s; 4]),
                ("div_scalar", 3, (api.div_s)(a, s), [s; 4]),
            ];
            for (nm, op, got, rhs) in res {
                for k in 0..4 {
                    let want = prim::<S>(op, a[k], rhs[k]);
                    if !vcommon::fl::ieq(got[k], want) {
                        if c.wants_witness("lane_mismatch", &[nm]) {
                            c.violation("lane_mismatch", &[nm], format!("a={} rhs={}", show(&a), show(&rhs)), show(&got), format!("component {}: {}", k, want.hex()), "component-wise like the 4-vector operation: one IEEE operation per component".into());
                        } else {
                            c.st.violations += 1;
                        }
                        break;
                    }
                }
            }
        }
        c.sample(format!("{}: q+p, q-p, q*s, q/s on random bit patterns, the special-value lattice and hostile values vs the primitive per component", ty));
        mon.end(c);
    }

    if let Some(mut c) = mon.begin(ty, "component-wise ops and product (analytic bound)") {
        let mut rng = Rng::new(mon.op_seed(ty, "hp"));
        for it in 0..iters {
            let (a, la): ([S; 4], &str) = if it % 2 == 0 { unit_quat::<S>(&mut rng, it / 2) } else { let (v, l) = vec_kind_r::<S>(&mut rng, 4, it / 2, 0.5); ([v[0], v[1], v[2], v[3]], l) };
            let (b, lb): ([S; 4], &str) = if it % 3 == 0 { unit_quat::<S>(&mut rng, it / 3) } else { let (v, l) = vec_kind_r::<S>(&mut rng, 4, it / 3, 0.5); ([v[0], v[1], v[2], v[3]], l) };
            let (ra, rb) = (r4(&a), r4(&b));
            let inp = || format!("a={} ({}) b={} ({})", show(&a), la, show(&b), lb);
            c.event(vcommon::rng::hash_str(la) ^ vcommon::rng::hash_str(lb).rotate_left(9), true);
            if c.need_sample() { c.sample(format!("{}: {}", ty, inp())); }
            let e = qmul(&ra, &rb);
            let sa = qmul_abs_terms(&ra, &rb);
            for (_nm, f) in &api.mul {
                let g = f(a, b);
                for k in 0..4 {
                    hp::<S>(&mut c, "mul_quat", g[k], e[k], sa[k], 5.0, &inp);
                }
            }
            let (ga, gs) = ((api.add)(a, b), (api.sub)(a, b));
            for k in 0..4 {
                hp::<S>(&mut c, "add", ga[k], ra[k] + rb[k], a[k].f64().abs() + b[k].f64().abs(), 1.0, &inp);
                hp::<S>(&mut c, "sub", gs[k], ra[k] - rb[k], a[k].f64().abs() + b[k].f64().abs(), 1.0, &inp);
            }
            let s = S::of(rng.logmag(-3.0, 3.0));
            let (gm, gd) = ((api.mul_s)(a, s), (api.div_s)(a, s));
            for k in 0..4 {
                hp::<S>(&mut c, "mul_scalar", gm[k], ra[k] * s.r(), (a[k].f64() * s.f64()).abs(), 1.0, &inp);
                hp::<S>(&mut c, "div_scalar", gd[k], ra[k] / s.r(), (a[k].f64() / s.f64()).abs(), 2.5, &inp);
            }
            hp::<S>(&mut c, "dot", (api.dot)(a, b), vdot(&ra, &rb), vdot_abs(&ra, &rb), 5.0, &inp);
            let l2 = vdot(&ra, &ra);
            hp::<S>(&mut c, "length_squared", (api.length_squared)(a), l2, l2.to_f64(), 5.0, &inp);
            let l = l2.sqrt_();
            hp::<S>(&mut c, "length", (api.length)(a), l, l.to_f64(), 4.5, &inp);
            let rec = <S::R as Real>::one() / l;
            hp::<S>(&mut c, "length_recip", (api.length_recip)(a), rec, rec.to_f64(), 5.5, &inp);
            let nq = (api.normalize)(a);
            for k in 0..4 {
                hp::<S>(&mut c, "normalize", nq[k], ra[k] / l, (a[k].f64() / l.to_f64()).abs().max(eps), 6.0, &inp);
            }
        }
        mon.end(c);
    }

    if let Some(mut c) = mon.begin(ty, "rotation of vectors") {
        let mut rng = Rng::new(mon.op_seed(ty, "rot"));
        for it in 0..iters {
            let (q, lq) = unit_quat::<S>(&mut rng, it);
            let (p, _lp) = unit_quat::<S>(&mut rng, it / 8 + 3);
            let (vv, lv) = vec_kind_r::<S>(&mut rng, 3, it / 8, 0.9);
            let v: [S; 3] = [vv[0], vv[1], vv[2]];
            let rq = r4(&q);
            let rv = rs(&v);
            let vn = vlen(&rv).to_f64();
            let e = qrot(&rq, &rv);
            let inp = || format!("q={} ({}) v={} ({})", show(&q), lq, show(&v), lv);
            c.event(vcommon::rng::hash_str(lq) ^ vcommon::rng::hash_str(lv).rotate_left(9), true);
            if c.need_sample() { c.sample(format!("{}: {} -> {}", ty, inp(), show(&(api.rot[0].1)(q, v)))); }
            let mut first: Option<[S; 3]> = None;
            for (nm, f) in &api.rot {
                let g = f(q, v);
                for k in 0..3 {
                    hp::<S>(&mut c, "q*v", g[k], e[k], vn, 16.0, &|| format!("{} via {}", inp(), nm));
                }
                // |q*v| = |v|
                let gl = vlen(&rs(&g)).to_f64();
                let r = (gl - vn).abs() / (16.0 * eps * vn + S::TINY);
                c.ratio_t("length_preserved", r);
                if r > 1.0 {
                    c.violation("accuracy", &["length_preserved"], inp(), show(&g), format!("|v| = {:e}", vn), format!("via {}", nm));
                }
                match &first {
                    None => first = Some(g),
                    Some(f0) => {
                        for k in 0..3 {
                            let d = (g[k].f64() - f0[k].f64()).abs() / (32.0 * eps * vn + S::TINY);
                            c.ratio_t("forms_agree", d);
                            if d > 1.0 {
                                c.violation("accuracy", &["forms_agree"], inp(), show(&g), show(f0), format!("{} vs {}", nm, api.rot[0].0));
                                break;
                            }
                        }
                    }
                }
            }
            let rotf = &api.rot[(it as usize) % api.rot.len()].1;
            let mulf = &api.mul[(it as usize) % api.mul.len()].1;
            // (q*p)*v = q*(p*v)
            let lhs = rotf(mulf(q, p), v);
            let rhs = rotf(q, rotf(p, v));
            // q^-1 * (q*v) = v ; (-q)*v = q*v
            let back = rotf((api.inverse)(q), rotf(q, v));
            let negq = rotf((api.neg)(q), v);
            let qv = rotf(q, v);
            for k in 0..3 {
                let t = 64.0 * eps * vn + S::TINY;
                let r1 = (lhs[k].f64() - rhs[k].f64()).abs() / t;
                let r2 = (back[k].f64() - v[k].f64()).abs() / t;
                let r3 = (negq[k].f64() - qv[k].f64()).abs() / t;
                c.ratio_t("composition", r1);
                c.ratio_t("inverse_undoes", r2);
                c.ratio_t("minus_q_same", r3);
                if r1 > 1.0 || r2 > 1.0 || r3 > 1.0 {
                    c.violation("accuracy", &["rotation_laws"], format!("{} p={}", inp(), show(&p)), format!("(qp)v={} q(pv)={} q^-1(qv)={} (-q)v={}", show(&lhs), show(&rhs), show(&back), show(&negq)), String::new(), format!("ratios {:.2} {:.2} {:.2}", r1, r2, r3));
                    break;
                }
            }
        }
        mon.end(c);
    }
}

fn canaries(mon: &mut Monitor) {
    let mk = || quat_api!(Quat, f32, Vec3, []);
    mon.canary("Hamilton product with one wrong sign", |m| {
        let mut api = mk();
        api.mul = vec![("mul_quat", Box::new(|a, b| { let (ax, ay, az, aw) = (a[0], a[1], a[2], a[3]); let (bx, by, bz, bw) = (b[0], b[1], b[2], b[3]); [aw * bx + ax * bw + ay * bz - az * by, aw * by - ax * bz + ay * bw + az * bx, aw * bz + ax * by - ay * bx + az * bw, aw * bw - ax * bx - ay * by + az * bz] }))];
        suite(m, &api);
    });
    mon.canary("conjugate touching w", |m| {
        let mut api = mk();
        api.conjugate = Box::new(|a| [-a[0], -a[1], -a[2], -a[3]]);
        suite(m, &api);
    });
    mon.canary("w leaking into mul_vec3 dot product", |m| {
        let mut api = mk();
        api.rot = vec![("mul_vec3", Box::new(|q, v| { let w = q[3]; let b = Vec3::new(q[0], q[1], q[2]); let vv = Vec3::from_array(v); let b2 = b.dot(b) + w * 1e-4; (vv * (w * w - b2) + b * (vv.dot(b) * 2.0) + b.cross(vv) * (w * 2.0)).to_array() }))];
        suite(m, &api);
    });
    mon.canary("rotation about the inverse direction", |m| {
        let mut api = mk();
        api.rot = vec![("mul_vec3", Box::new(|q, v| (Quat::from_array(q).inverse() * Vec3::from_array(v)).to_array()))];
        suite(m, &api);
    });
}


fn empty_folds(mon: &mut Monitor) {
    if let Some(mut c) = mon.begin("iterator folds", "empty and single-element Sum / Product of quaternions") {
        macro_rules! chk {
            ($($Q:ident),*) => {$({
                let t = stringify!($Q);
                let q = <$Q>::from_xyzw(0.5, -1.25, 2.0, 0.75);
                let zero = <$Q>::from_xyzw(0.0, 0.0, 0.0, 0.0);
                let cases: Vec<(&'static str, $Q, $Q)> = vec![
                    ("Product of nothing (by value)", core::iter::empty::<$Q>().product::<$Q>(), <$Q>::IDENTITY),
                    ("Product of nothing (by reference)", core::iter::empty::<&$Q>().product::<$Q>(), <$Q>::IDENTITY),
                    ("Sum of nothing (by value)", core::iter::empty::<$Q>().sum::<$Q>(), zero),
                    ("Sum of nothing (by reference)", core::iter::empty::<&$Q>().sum::<$Q>(), zero),
                    ("Product of one (by value)", [q].into_iter().product::<$Q>(), q),
                    ("Product of one (by reference)", [q].iter().product::<$Q>(), q),
                    ("Sum of one (by value)", [q].into_iter().sum::<$Q>(), q),
                    ("Sum of one (by reference)", [q].iter().sum::<$Q>(), q),
                    ("Sum of two (by value)", [q, q].into_iter().sum::<$Q>(), q + q),
                    ("Product of two non-unit (by value)", [q, q].into_iter().product::<$Q>(), q * q),
                    ("Product of two non-unit (by reference)", [q, q].iter().product::<$Q>(), q * q),
                ];
                for (nm, got, want) in cases {
                    c.event(vcommon::rng::hash_str(nm) ^ vcommon::rng::hash_str(t), true);
                    if got.to_array().iter().zip(want.to_array().iter()).any(|(a, b)| a != b) {
                        c.violation("fold_identity", &[nm], format!("{} {}", t, nm), format!("{:?}", got), format!("{:?}", want), String::new());
                    }
                }
            })*};
        }
        chk!(Quat, DQuat);
        c.sample("Sum / Product of empty, one- and two-element iterators of (non-unit) quaternions, by value and by reference".into());
        mon.end(c);
    }
}

pub fn run(mon: &mut Monitor) {
    empty_folds(mon);
    canaries(mon);
    suite(mon, &quat_api!(Quat, f32, Vec3, [
        "mul_vec3a" => |a: [f32; 4], v: [f32; 3]| Quat::from_array(a).mul_vec3a(<Vec3A as crate::gen::FromLanes<f32, 3>>::mk(v)).to_array(),
        "q*Vec3A" => |a: [f32; 4], v: [f32; 3]| (Quat::from_array(a) * <Vec3A as crate::gen::FromLanes<f32, 3>>::mk(v)).to_array()
    ]));
    suite(mon, &quat_api!(DQuat, f64, DVec3, []));
}

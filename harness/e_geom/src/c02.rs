//! C02: vector geometry (dot, cross, length, normalize, project, angle) is accurate.

use crate::gen::*;
use crate::hp::*;
use glam::*;
use vcommon::dd::Real;
use vcommon::fl::Fl;
use vcommon::mon::*;
use vcommon::refm::*;
use vcommon::rng::Rng;

pub struct VecApi<S: HasR, const N: usize> {
    pub name: &'static str,
    pub dot: Box<dyn Fn([S; N], [S; N]) -> S>,
    pub dot_into_vec: Box<dyn Fn([S; N], [S; N]) -> [S; N]>,
    pub length: Box<dyn Fn([S; N]) -> S>,
    pub length_squared: Box<dyn Fn([S; N]) -> S>,
    pub length_recip: Box<dyn Fn([S; N]) -> S>,
    pub distance: Box<dyn Fn([S; N], [S; N]) -> S>,
    pub distance_squared: Box<dyn Fn([S; N], [S; N]) -> S>,
    pub element_sum: Box<dyn Fn([S; N]) -> S>,
    pub element_product: Box<dyn Fn([S; N]) -> S>,
    pub lerp: Box<dyn Fn([S; N], [S; N], S) -> [S; N]>,
    pub midpoint: Box<dyn Fn([S; N], [S; N]) -> [S; N]>,
    pub project_onto: Box<dyn Fn([S; N], [S; N]) -> [S; N]>,
    pub reject_from: Box<dyn Fn([S; N], [S; N]) -> [S; N]>,
    pub project_onto_normalized: Box<dyn Fn([S; N], [S; N]) -> [S; N]>,
    pub reject_from_normalized: Box<dyn Fn([S; N], [S; N]) -> [S; N]>,
    pub reflect: Box<dyn Fn([S; N], [S; N]) -> [S; N]>,
    pub refract: Box<dyn Fn([S; N], [S; N], S) -> [S; N]>,
    pub normalize: Box<dyn Fn([S; N]) -> [S; N]>,
    pub try_normalize: Box<dyn Fn([S; N]) -> Option<[S; N]>>,
    pub normalize_or: Box<dyn Fn([S; N], [S; N]) -> [S; N]>,
    pub normalize_or_zero: Box<dyn Fn([S; N]) -> [S; N]>,
    pub normalize_and_length: Box<dyn Fn([S; N]) -> ([S; N], S)>,
    pub angle_between: Option<Box<dyn Fn([S; N], [S; N]) -> S>>,
    pub angle_to: Option<Box<dyn Fn([S; N], [S; N]) -> S>>,
    pub cross: Option<Box<dyn Fn([S; N], [S; N]) -> [S; N]>>,
    pub perp_dot: Option<Box<dyn Fn([S; N], [S; N]) -> S>>,
}

macro_rules! vec_api {
    ($T:ident, $S:ty, $N:expr, ab: $ab:tt, at: $at:tt, cross: $cr:tt, pd: $pd:tt) => {{
        let v = |a: [$S; $N]| <$T as crate::gen::FromLanes<$S, $N>>::mk(a);
        VecApi::<$S, $N> {
            name: stringify!($T),
            dot: Box::new(move |a, b| v(a).dot(v(b))),
            dot_into_vec: Box::new(move |a, b| v(a).dot_into_vec(v(b)).to_array()),
            length: Box::new(move |a| v(a).length()),
            length_squared: Box::new(move |a| v(a).length_squared()),
            length_recip: Box::new(move |a| v(a).length_recip()),
            distance: Box::new(move |a, b| v(a).distance(v(b))),
            distance_squared: Box::new(move |a, b| v(a).distance_squared(v(b))),
            element_sum: Box::new(move |a| v(a).element_sum()),
            element_product: Box::new(move |a| v(a).element_product()),
            lerp: Box::new(move |a, b, s| v(a).lerp(v(b), s).to_array()),
            midpoint: Box::new(move |a, b| v(a).midpoint(v(b)).to_array()),
            project_onto: Box::new(move |a, b| v(a).project_onto(v(b)).to_array()),
            reject_from: Box::new(move |a, b| v(a).reject_from(v(b)).to_array()),
            project_onto_normalized: Box::new(move |a, b| v(a).project_onto_normalized(v(b)).to_array()),
            reject_from_normalized: Box::new(move |a, b| v(a).reject_from_normalized(v(b)).to_array()),
            reflect: Box::new(move |a, b| v(a).reflect(v(b)).to_array()),
            refract: Box::new(move |a, b, e| v(a).refract(v(b), e).to_array()),
            normalize: Box::new(move |a| v(a).normalize().to_array()),
            try_normalize: Box::new(move |a| v(a).try_normalize().map(|x| x.to_array())),
            normalize_or: Box::new(move |a, f| v(a).normalize_or(v(f)).to_array()),
            normalize_or_zero: Box::new(move |a| v(a).normalize_or_zero().to_array()),
            normalize_and_length: Box::new(move |a| { let (n, l) = v(a).normalize_and_length(); (n.to_array(), l) }),
            angle_between: vec_api!(@opt $ab, Box::new(move |a, b| v(a).angle_between(v(b)))),
            angle_to: vec_api!(@opt $at, Box::new(move |a, b| v(a).angle_to(v(b)))),
            cross: vec_api!(@opt $cr, Box::new(move |a, b| v(a).cross(v(b)).to_array())),
            perp_dot: vec_api!(@opt $pd, Box::new(move |a, b| v(a).perp_dot(v(b)))),
        }
    }};
    (@opt yes, $e:expr) => { Some($e) };
    (@opt no, $e:expr) => { None };
}

fn arr<S: HasR, const N: usize>(v: &[S]) -> [S; N] {
    core::array::from_fn(|k| v[k])
}

pub fn suite<S: HasR, const N: usize>(mon: &mut Monitor, api: &VecApi<S, N>) {
    let ty = api.name;
    let iters = mon.n(6_000, 600_000);
    let eps = S::EPS;
    let nf = N as f64;

    // ---------------- pairs: dot, cross, perp_dot, distance, lerp, midpoint, project, reject, angle ----
    macro_rules! op {
        ($name:expr, $body:expr) => { op!($name, 1.0, $body) };
        ($name:expr, $frac:expr, $body:expr) => {
            if let Some(mut c) = mon.begin(ty, $name) {
                let mut rng = Rng::new(mon.op_seed(ty, $name));
                for it in 0..iters {
                    let (a, la) = vec_kind_r::<S>(&mut rng, N, it, $frac);
                    let (b, lb) = partner::<S>(&mut rng, &a, if $frac < 1.0 { 1 + (it / 8) % 5 } else { it / 8 });
                    let a: [S; N] = arr(&a);
                    let b: [S; N] = arr(&b);
                    let key = vcommon::rng::hash_str(la) ^ vcommon::rng::hash_str(lb).rotate_left(7);
                    let f: &dyn Fn(&mut OpCtx, &mut Rng, [S; N], [S; N], u64, &dyn Fn() -> String) = &$body;
                    let inp = || format!("a={} ({}) b={} ({})", show(&a), la, show(&b), lb);
                    f(&mut c, &mut rng, a, b, key, &inp);
                }
                mon.end(c);
            }
        };
    }

    op!("dot", |c, _r, a, b, key, inp| {
        let (ra, rb) = (rs(&a), rs(&b));
        let exact = vdot(&ra, &rb);
        let s = vdot_abs(&ra, &rb);
        let got = (api.dot)(a, b);
        c.event(key, exact.to_f64().abs() > 1e3 * eps * s);
        if c.need_sample() { c.sample(format!("{}.dot: {} -> {:?}", ty, inp(), got)); }
        hp::<S>(c, "dot", got, exact, s, nf + 1.0, inp);
        let dv = (api.dot_into_vec)(a, b);
        for k in 0..N {
            if dv[k].bits() != got.bits() {
                c.violation("relational", &["dot_into_vec"], inp(), show(&dv), format!("{:?}", got), "dot_into_vec must splat dot".into());
                break;
            }
        }
    });

    if let Some(cross) = &api.cross {
        op!("cross", |c, _r, a, b, key, inp| {
            let (ra, rb) = (rs(&a), rs(&b));
            let exact = vcross(&ra, &rb);
            let got = cross(a, b);
            let mut nt = false;
            for k in 0..3 {
                let (i, j) = ((k + 1) % 3, (k + 2) % 3);
                let s = (ra[i] * rb[j]).to_f64().abs() + (ra[j] * rb[i]).to_f64().abs();
                nt |= exact[k].to_f64().abs() > 1e3 * eps * s;
                hp::<S>(c, "cross", got[k], exact[k], s, 3.0, inp);
            }
            c.event(key, nt);
            if c.need_sample() { c.sample(format!("{}.cross: {} -> {}", ty, inp(), show(&got))); }
        });
    }
    if let Some(pd) = &api.perp_dot {
        op!("perp_dot", |c, _r, a, b, key, inp| {
            let (ra, rb) = (rs(&a), rs(&b));
            let exact = ra[0] * rb[1] - ra[1] * rb[0];
            let s = (ra[0] * rb[1]).to_f64().abs() + (ra[1] * rb[0]).to_f64().abs();
            let got = pd(a, b);
            c.event(key, exact.to_f64().abs() > 1e3 * eps * s);
            if c.need_sample() { c.sample(format!("{}.perp_dot: {} -> {:?}", ty, inp(), got)); }
            hp::<S>(c, "perp_dot", got, exact, s, 3.0, inp);
        });
    }
    op!("distance/distance_squared", |c, _r, a, b, key, inp| {
        let (ra, rb) = (rs(&a), rs(&b));
        // the subtraction is rounded per component (relative eps each), then squared and summed
        let d = vsub(&ra, &rb);
        let d2 = vdot(&d, &d);
        let dist = d2.sqrt_();
        let g2 = (api.distance_squared)(a, b);
        let g = (api.distance)(a, b);
        c.event(key, d2.to_f64() > 0.0);
        if c.need_sample() { c.sample(format!("{}.distance: {} -> {:?}", ty, inp(), g)); }
        // components of (a-b) may underflow to subnormal in extreme mixes; scale guards that
        hp::<S>(c, "distance_squared", g2, d2, d2.to_f64(), nf + 4.0, inp);
        hp::<S>(c, "distance", g, dist, dist.to_f64(), nf / 2.0 + 3.0, inp);
    });
    op!("lerp/midpoint", |c, r, a, b, key, inp| {
        let (ra, rb) = (rs(&a), rs(&b));
        let s: S = match r.below(6) { 0 => S::ZERO, 1 => S::ONE, 2 => S::of(0.5), 3 => S::of(r.range(-0.5, 1.5)), _ => S::of(r.unit()) };
        let rsv = s.r();
        let got = (api.lerp)(a, b, s);
        let mid = (api.midpoint)(a, b);
        c.event(key ^ s.bits(), true);
        if c.need_sample() { c.sample(format!("{}.lerp: {} s={:?} -> {}", ty, inp(), s, show(&got))); }
        for k in 0..N {
            let exact = ra[k] + (rb[k] - ra[k]) * rsv;
            // |a||1-s| + |b||s| covers both `a + (b-a)*s` and `a*(1-s) + b*s` evaluation orders;
            // the (b-a) form adds |a|+|b| times |s|
            let sc = ra[k].to_f64().abs() * ((1.0 - s.f64()).abs() + s.f64().abs()) + rb[k].to_f64().abs() * s.f64().abs();
            hp::<S>(c, "lerp", got[k], exact, sc, 4.0, &|| format!("{} s={:?}", inp(), s));
            let em = (ra[k] + rb[k]) * <S::R as Real>::from_f64(0.5);
            hp::<S>(c, "midpoint", mid[k], em, ra[k].to_f64().abs() + rb[k].to_f64().abs(), 2.0, inp);
        }
    });
    op!("project_onto/reject_from", 0.25, |c, _r, a, b, key, inp| {
        let (ra, rb) = (rs(&a), rs(&b));
        let bb = vdot(&rb, &rb);
        if bb.to_f64() == 0.0 { return; }
        let ab = vdot(&ra, &rb);
        let sab = vdot_abs(&ra, &rb);
        let coef = ab / bb;
        let scoef = sab / bb.to_f64();
        // domain: the documented formula is (b * (a.b)) * (1 / b.b); an intermediate b_k * (a.b) that
        // underflows to a subnormal is afterwards amplified by 1/(b.b). The property quantifies over
        // inputs whose products do not underflow, so such events are counted and skipped.
        let abf = ab.to_f64().abs();
        if abf != 0.0 && (abf < S::TINY * 4.0 || b.iter().any(|x| x.f64() != 0.0 && (x.f64() * abf).abs() < S::TINY * 4.0) || bb.to_f64() < S::TINY * 4.0) {
            c.count("out_of_domain_underflow");
            return;
        }
        let p = (api.project_onto)(a, b);
        let rj = (api.reject_from)(a, b);
        c.event(key, ab.to_f64().abs() > 1e3 * eps * sab);
        if c.need_sample() { c.sample(format!("{}.project_onto: {} -> {}", ty, inp(), show(&p))); }
        for k in 0..N {
            let ep = rb[k] * coef;
            let sp = rb[k].to_f64().abs() * scoef;
            // dot (n+1) + length_recip/ division (n/2+3) + multiply: generous k = 2n + 8
            hp::<S>(c, "project_onto", p[k], ep, sp, 2.0 * nf + 8.0, inp);
            hp::<S>(c, "reject_from", rj[k], ra[k] - ep, ra[k].to_f64().abs() + sp, 2.0 * nf + 9.0, inp);
        }
    });
    op!("project_onto_normalized/reject_from_normalized", 0.5, |c, r, a, _b, key, inp| {
        let u: [S; N] = arr(&unit_hostile::<S>(r, N));
        let (ra, ru) = (rs(&a), rs(&u));
        let au = vdot(&ra, &ru);
        let sau = vdot_abs(&ra, &ru);
        let p = (api.project_onto_normalized)(a, u);
        let rj = (api.reject_from_normalized)(a, u);
        c.event(key, true);
        if c.need_sample() { c.sample(format!("{}.project_onto_normalized: {} u={} -> {}", ty, inp(), show(&u), show(&p))); }
        let inp2 = || format!("{} unit={}", inp(), show(&u));
        for k in 0..N {
            let ep = ru[k] * au;
            let sp = ru[k].to_f64().abs() * sau;
            hp::<S>(c, "project_onto_normalized", p[k], ep, sp, nf + 3.0, &inp2);
            hp::<S>(c, "reject_from_normalized", rj[k], ra[k] - ep, ra[k].to_f64().abs() + sp, nf + 4.0, &inp2);
        }
    });
    op!("reflect", 0.5, |c, r, a, _b, key, inp| {
        let u: [S; N] = arr(&unit_hostile::<S>(r, N));
        let (ra, ru) = (rs(&a), rs(&u));
        let au = vdot(&ra, &ru);
        let sau = vdot_abs(&ra, &ru);
        let got = (api.reflect)(a, u);
        c.event(key, true);
        if c.need_sample() { c.sample(format!("{}.reflect: {} n={} -> {}", ty, inp(), show(&u), show(&got))); }
        let two = <S::R as Real>::from_f64(2.0);
        for k in 0..N {
            let e = ra[k] - two * au * ru[k];
            let sc = ra[k].to_f64().abs() + 2.0 * sau * ru[k].to_f64().abs();
            hp::<S>(c, "reflect", got[k], e, sc, nf + 4.0, &|| format!("{} normal={}", inp(), show(&u)));
        }
    });
    op!("refract", |c, r, _a, _b, key, _inp| {
        // unit incident and normal, eta in (0.3, 3): both branches and the boundary
        let i: [S; N] = arr(&unit_hostile::<S>(r, N));
        let nrm: [S; N] = arr(&unit_hostile::<S>(r, N));
        let eta = S::of(match r.below(4) { 0 => 1.0, 1 => r.range(0.3, 1.0), 2 => r.range(1.0, 3.0), _ => 1.0 / 1.5 });
        let (ri, rn) = (rs(&i), rs(&nrm));
        let ndi = vdot(&rn, &ri);
        let sndi = vdot_abs(&rn, &ri);
        let e = eta.r();
        let one = <S::R as Real>::one();
        let kk = one - e * e * (one - ndi * ndi);
        let got = (api.refract)(i, nrm, eta);
        let inp = || format!("incident={} normal={} eta={:?}", show(&i), show(&nrm), eta);
        // slack of k: rounding of n.i, squares and the final subtraction
        let ef = eta.f64();
        let dndi = (nf + 1.0) * eps * sndi;
        let dk = eps * (1.0 + 3.0 * ef * ef * (1.0 + ndi.to_f64().powi(2))) + 2.0 * ef * ef * ndi.to_f64().abs() * dndi;
        let kf = kk.to_f64();
        c.event(key ^ ((kf >= 0.0) as u64), true);
        if c.need_sample() { c.sample(format!("{}.refract: {} -> {}", ty, inp(), show(&got))); }
        if kf.abs() <= 4.0 * dk {
            c.boundary();
            // either side of the total-internal-reflection boundary is allowed; the result must still be finite
            if got.iter().any(|x| !x.finite()) {
                c.violation("nonfinite", &["refract"], inp(), show(&got), String::new(), "finite result required near the boundary".into());
            }
            return;
        }
        if kf < 0.0 {
            if got.iter().any(|x| x.f64() != 0.0) {
                c.violation("fallback", &["refract"], inp(), show(&got), "zero vector".into(), "total internal reflection must return zero".into());
            }
            return;
        }
        let sq = kk.sqrt_();
        let coef = e * ndi + sq;
        let dsq = dk / (2.0 * kf.sqrt()) + eps * kf.sqrt();
        let dcoef = eps * (ef * ndi.to_f64()).abs() + ef.abs() * dndi + dsq + eps * coef.to_f64().abs();
        for k in 0..N {
            let ex = e * ri[k] - coef * rn[k];
            let tol_abs = 2.0 * eps * (ef * ri[k].to_f64()).abs() + dcoef * rn[k].to_f64().abs() + 2.0 * eps * (coef.to_f64() * rn[k].to_f64()).abs();
            // express as k*eps*S with S = tol_abs/eps and safety factor 2
            hp::<S>(c, "refract", got[k], ex, tol_abs / eps, 2.0, &inp);
        }
    });

    let angle_check = |mon: &mut Monitor, name: &'static str, f: &dyn Fn([S; N], [S; N]) -> S, signed: bool| {
        if let Some(mut c) = mon.begin(ty, name) {
            let mut rng = Rng::new(mon.op_seed(ty, name));
            // documented polynomial arccos accuracy: 1e-6 rad (f32); library acos (f64): 4 eps
            let p = if S::NAME == "f32" { 1e-6 } else { 4.0 * eps };
            for it in 0..iters {
                let (a, la) = vec_kind_r::<S>(&mut rng, N, [0u64, 1, 7, 4, 6][(it % 5) as usize], 0.25); // dense / moderate / unit / ints / sparse, narrow window: (|a||b|)^2 must not under/overflow
                if a.iter().all(|x| x.f64() == 0.0) { continue; }
                let (b, lb) = partner::<S>(&mut rng, &a, 1 + (it / 5) % 5); // related partners only (same scale window)
                if b.iter().all(|x| x.f64() == 0.0) { continue; }
                let a: [S; N] = arr(&a);
                let b: [S; N] = arr(&b);
                let (ra, rb) = (rs(&a), rs(&b));
                let mut exact = angle_between(&ra, &rb);
                if signed {
                    let crossz = (ra[0] * rb[1] - ra[1] * rb[0]).to_f64();
                    if crossz < 0.0 { exact = -exact; }
                }
                let got = f(a, b).f64();
                let sn = exact.sin().abs();
                let tol = p + (8.0 * eps / sn.max(1e-300)).min(4.0 * eps.sqrt());
                let key = vcommon::rng::hash_str(la) ^ vcommon::rng::hash_str(lb).rotate_left(7) ^ ((exact.abs() * 8.0) as u64);
                c.event(key, exact.abs() > 1e-3);
                let inp = || format!("a={} ({}) b={} ({})", show(&a), la, show(&b), lb);
                if c.need_sample() { c.sample(format!("{}.{}: {} -> {:e} (exact {:e})", ty, name, inp(), got, exact)); }
                if signed && (exact.abs() < tol || (core::f64::consts::PI - exact.abs()) < tol) {
                    // sign undetermined within tolerance of 0 / pi
                    within::<S>(&mut c, name, got.abs(), exact.abs(), tol, &inp);
                } else {
                    within::<S>(&mut c, name, got, exact, tol, &inp);
                }
            }
            mon.end(c);
        }
    };
    if let Some(f) = &api.angle_between {
        // Vec2/DVec2::angle_between is the (deprecated) alias of the signed angle_to
        angle_check(mon, "angle_between", &**f, N == 2);
    }
    if let Some(f) = &api.angle_to {
        angle_check(mon, "angle_to", &**f, true);
    }

    // ---------------- unary: length family, element_sum/product ------------------------------------------
    if let Some(mut c) = mon.begin(ty, "length/length_squared/length_recip/element_sum/element_product") {
        let mut rng = Rng::new(mon.op_seed(ty, "length"));
        for it in 0..iters {
            let (a, la) = vec_kind::<S>(&mut rng, N, it);
            let a: [S; N] = arr(&a);
            let ra = rs(&a);
            let l2 = vdot(&ra, &ra);
            let l = l2.sqrt_();
            c.event(vcommon::rng::hash_str(la), true);
            let inp = || format!("a={} ({})", show(&a), la);
            if c.need_sample() { c.sample(format!("{}.length: {} -> {:?}", ty, inp(), (api.length)(a))); }
            hp::<S>(&mut c, "length_squared", (api.length_squared)(a), l2, l2.to_f64(), nf + 1.0, &inp);
            // squares of components below 2^-63 (f32) lose bits to underflow: the property's range excludes that,
            // but "single-axis"/"mixed" kinds can mix; scale guard: only demand relative accuracy when every
            // non-zero component's square is normal
            let normal_sq = a.iter().all(|x| x.f64() == 0.0 || (x.f64() * x.f64()).abs() >= S::TINY * 4.0);
            if normal_sq && l.to_f64() > 0.0 {
                hp::<S>(&mut c, "length", (api.length)(a), l, l.to_f64(), nf / 2.0 + 2.5, &inp);
                let rec = <S::R as Real>::one() / l;
                hp::<S>(&mut c, "length_recip", (api.length_recip)(a), rec, rec.to_f64(), nf / 2.0 + 3.5, &inp);
            }
            let mut sum = <S::R as Real>::zero();
            let mut sabs = 0.0;
            let mut prod = <S::R as Real>::one();
            for k in 0..N {
                sum = sum + ra[k];
                sabs += ra[k].to_f64().abs();
                prod = prod * ra[k];
            }
            hp::<S>(&mut c, "element_sum", (api.element_sum)(a), sum, sabs, nf, &inp);
            let pf = prod.to_f64().abs();
            if pf == 0.0 || (pf > S::TINY * 1e6 && pf < 1e30 / S::TINY.sqrt().recip().recip().max(1e-300)) {
                // partial products must stay in range for a relative bound
                let partial_ok = { let mut p = 1.0f64; let mut ok = true; for k in 0..N { p *= a[k].f64(); if p != 0.0 && (p.abs() < S::TINY * 1e3 || !S::of(p).finite()) { ok = false; } } ok };
                if partial_ok {
                    hp::<S>(&mut c, "element_product", (api.element_product)(a), prod, pf, nf, &inp);
                }
            }
        }
        mon.end(c);
    }

    // ---------------- normalize family -----------------------------------------------------------------------
    if let Some(mut c) = mon.begin(ty, "normalize family") {
        let mut rng = Rng::new(mon.op_seed(ty, "normalize"));
        let lat = S::lattice();
        let fallback: [S; N] = core::array::from_fn(|k| S::of(if k == 1 % N { 1.0 } else { 0.0 }));
        for it in 0..iters {
            // regular vectors, plus lattice-built degenerate ones (zero, subnormal, tiny, huge, non-finite)
            let (a, la): ([S; N], &'static str) = if it % 3 == 2 {
                let mut v = [S::ZERO; N];
                let mode = (it / 3) % 5;
                // mode 4: a single lane holding +-2^e: the squared length 2^(2e) is computed exactly, so the representability
                // boundaries are hit exactly (2e = MIN_EXP - 1: the smallest normal squared length must still normalise)
                let e4 = { let half = ((S::MIN_EXP2 - 1.0) / 2.0).round(); let hi = (S::MAX_EXP2 / 2.0).round(); match rng.below(3) { 0 => rng.int_in((S::MIN_EXP2 - 30.0) as i64, S::MAX_EXP2 as i64 - 1) as f64, 1 => half + rng.int_in(-13, 3) as f64, _ => hi + rng.int_in(-3, 2) as f64 } };
                let k4 = rng.idx(N);
                let s4 = if rng.bool() { 1.0 } else { -1.0 };
                for k in 0..N {
                    v[k] = match mode {
                        4 => if k == k4 { S::of(s4 * e4.exp2()) } else { S::ZERO },
                        0 => *rng.pick(lat),
                        1 => if k == (it as usize % N) { *rng.pick(lat) } else { S::ZERO },
                        2 => S::of(rng.normal() * (S::TINY * 1e3).sqrt() * 10f64.powf(rng.range(-4.0, 4.0))), // around the sqrt of MIN_POSITIVE
                        _ => S::of(rng.normal() * 10f64.powf(rng.range(-1.0, 1.0)) / (S::TINY * 4.0).sqrt() * 0.5), // around sqrt(MAX)
                    };
                }
                (v, "degenerate")
            } else {
                let (v, l) = vec_kind::<S>(&mut rng, N, it);
                (arr(&v), l)
            };
            let ra = rs(&a);
            let finite_in = a.iter().all(|x| x.finite());
            let l2 = if finite_in { vdot(&ra, &ra).to_f64() } else { f64::NAN };
            // what glam computes: length_squared in S arithmetic; classify by the exact value with slack
            let l2_s = S::of(l2); // rounded exact squared length
            // a single power-of-two lane: no rounding anywhere in the squared length, hence no slack at the boundary
            let exact_l2 = finite_in && a.iter().filter(|x| x.f64() != 0.0).count() == 1 && a.iter().all(|x| x.f64() == 0.0 || x.f64().abs().log2().fract() == 0.0);
            let normal_l2 = finite_in && l2_s.finite() && (l2 >= S::TINY * 8.0 || (exact_l2 && l2 >= S::MIN_EXP2.exp2())) && (exact_l2 || a.iter().all(|x| x.f64() == 0.0 || (x.f64() * x.f64()) >= S::TINY * 8.0 || (x.f64() * x.f64()) < l2 * eps * 1e-3));
            // exact 1/length is not finite-positive: zero vector, or non-finite input, or overflowing square
            let l2_over = finite_in && l2 > (1.0 / S::TINY) * 3.9; // > MAX with slack handled below
            let max_f = (2.0 - S::EPS) * (1.0 / S::TINY) * 2.0; // MAX
            let degenerate_sure = !finite_in && a.iter().any(|x| x.nan() || !x.finite()) || (finite_in && l2 == 0.0) || (finite_in && l2 > max_f * (1.0 + 8.0 * eps));
            let _ = l2_over;
            let inp = || format!("a={} ({})", show(&a), la);
            let n1 = (api.normalize)(a);
            let tn = (api.try_normalize)(a);
            let no = (api.normalize_or)(a, fallback);
            let nz = (api.normalize_or_zero)(a);
            let (nl, ll) = (api.normalize_and_length)(a);
            c.event(vcommon::rng::hash_str(la) ^ (normal_l2 as u64) ^ ((degenerate_sure as u64) << 1), true);
            if c.need_sample() && normal_l2 { c.sample(format!("{}.normalize: {} -> {}", ty, inp(), show(&n1))); }
            // checked forms never return a non-finite vector
            for (nm, v) in [("try_normalize", tn.unwrap_or([S::ZERO; N])), ("normalize_or", no), ("normalize_or_zero", nz), ("normalize_and_length", nl)] {
                if v.iter().any(|x| !x.finite()) {
                    c.violation("nonfinite", &[nm], inp(), show(&v), String::new(), "checked normalize forms never return a non-finite vector".into());
                }
            }
            if !ll.finite() && finite_in && l2 <= max_f {
                c.violation("nonfinite", &["normalize_and_length.len"], inp(), format!("{:?}", ll), String::new(), String::new());
            }
            if normal_l2 {
                let l = l2.sqrt();
                let check_unit = |c: &mut OpCtx, nm: &'static str, v: &[S; N]| {
                    let rv = rs(v);
                    let len = vlen(&rv);
                    hp::<S>(c, nm, S::of(len.to_f64()), <S::R as Real>::one(), 1.0, 4.0, &inp);
                    // direction: v x a = 0 and v . a > 0, tested through the residual a - (a.v) v
                    let d = vdot(&rv, &ra);
                    if !(d.to_f64() > 0.0) {
                        c.violation("direction", &[nm], inp(), show(v), String::new(), "result must point along the input".into());
                    }
                    for k in 0..N {
                        let resid = (ra[k] - d * rv[k]).to_f64().abs();
                        let r = resid / (8.0 * eps * l + S::TINY);
                        c.ratio(r);
                        if r > 1.0 {
                            c.violation("direction", &[nm], inp(), show(v), String::new(), format!("component {} deviates from the input direction by {:.3e} (|a| = {:.3e})", k, resid, l));
                            break;
                        }
                    }
                };
                check_unit(&mut c, "normalize", &n1);
                match &tn {
                    Some(v) => check_unit(&mut c, "try_normalize", v),
                    None => c.violation("fallback", &["try_normalize"], inp(), "None".into(), "Some(unit vector)".into(), "squared length is a normal finite number".into()),
                }
                check_unit(&mut c, "normalize_or", &no);
                check_unit(&mut c, "normalize_or_zero", &nz);
                check_unit(&mut c, "normalize_and_length", &nl);
                hp::<S>(&mut c, "normalize_and_length.len", ll, <S::R as Real>::from_f64(l), l, nf / 2.0 + 2.5, &inp);
            } else if degenerate_sure {
                c.count("fallback_events");
                if tn.is_some() {
                    c.violation("fallback", &["try_normalize"], inp(), format!("{:?}", tn.map(|v| show(&v))), "None".into(), "1/length is not finite and positive".into());
                }
                if (0..N).any(|k| no[k].bits() != fallback[k].bits()) {
                    c.violation("fallback", &["normalize_or"], inp(), show(&no), show(&fallback), "must return the given fallback".into());
                }
                if nz.iter().any(|x| x.f64() != 0.0) {
                    c.violation("fallback", &["normalize_or_zero"], inp(), show(&nz), "zero".into(), String::new());
                }
                let x_axis: [S; N] = core::array::from_fn(|k| if k == 0 { S::ONE } else { S::ZERO });
                if (0..N).any(|k| nl[k].bits() != x_axis[k].bits()) || ll.f64() != 0.0 {
                    c.violation("fallback", &["normalize_and_length"], inp(), format!("({}, {:?})", show(&nl), ll), "(X, 0)".into(), String::new());
                }
            } else {
                c.boundary();
            }
        }
        mon.end(c);
    }
}

fn canaries(mon: &mut Monitor) {
    let mk = || vec_api!(Vec3, f32, 3, ab: yes, at: no, cross: yes, pd: no);
    mon.canary("dot3 reading a 4th lane", |m| {
        let mut api = mk();
        api.dot = Box::new(|a, b| a[0] * b[0] + a[1] * b[1] + a[2] * b[2] + a[2] * b[2] * 1e-6);
        suite(m, &api);
    });
    mon.canary("cross with a wrong shuffle", |m| {
        let mut api = mk();
        api.cross = Some(Box::new(|a, b| [a[1] * b[2] - a[2] * b[1], a[2] * b[0] - a[0] * b[2], a[0] * b[1] - a[1] * b[2]]));
        suite(m, &api);
    });
    mon.canary("length via rsqrt approximation", |m| {
        let mut api = mk();
        api.length = Box::new(|a| { let l = (a[0] * a[0] + a[1] * a[1] + a[2] * a[2]).sqrt(); l * (1.0 + 3.0e-4) });
        suite(m, &api);
    });
    mon.canary("perturbed acos coefficient", |m| {
        let mut api = mk();
        api.angle_between = Some(Box::new(|a, b| { let (x, y) = (Vec3::from_array(a), Vec3::from_array(b)); x.angle_between(y) * (1.0 + 4e-6) + 3e-6 }));
        suite(m, &api);
    });
    mon.canary("try_normalize without the finite guard", |m| {
        let mut api = mk();
        api.try_normalize = Box::new(|a| Some(Vec3::from_array(a).normalize().to_array()));
        suite(m, &api);
    });
    mon.canary("normalize_or_zero returning the fallback X", |m| {
        let mut api = mk();
        api.normalize_or_zero = Box::new(|a| Vec3::from_array(a).normalize_or(Vec3::X).to_array());
        suite(m, &api);
    });
    mon.canary("lerp overshooting by 1e-5", |m| {
        let mut api = mk();
        api.lerp = Box::new(|a, b, s| Vec3::from_array(a).lerp(Vec3::from_array(b), s * 1.00002).to_array());
        suite(m, &api);
    });
}

pub fn run(mon: &mut Monitor) {
    canaries(mon);
    suite(mon, &vec_api!(Vec2, f32, 2, ab: yes, at: yes, cross: no, pd: yes));
    suite(mon, &vec_api!(Vec3, f32, 3, ab: yes, at: no, cross: yes, pd: no));
    suite(mon, &vec_api!(Vec3A, f32, 3, ab: yes, at: no, cross: yes, pd: no));
    suite(mon, &vec_api!(Vec4, f32, 4, ab: no, at: no, cross: no, pd: no));
    suite(mon, &vec_api!(DVec2, f64, 2, ab: yes, at: yes, cross: no, pd: yes));
    suite(mon, &vec_api!(DVec3, f64, 3, ab: yes, at: no, cross: yes, pd: no));
    suite(mon, &vec_api!(DVec4, f64, 4, ab: no, at: no, cross: no, pd: no));
}

//! Structured input generators for the geometry monitors. All values are returned already rounded to
//! the scalar type under test.

use crate::hp::HasR;
use vcommon::rng::Rng;

/// A vector of n components with magnitudes in the range the accuracy properties quantify over.
/// `kind` selects the shape; returns (values, label).
pub fn vec_kind<S: HasR>(r: &mut Rng, n: usize, kind: u64) -> (Vec<S>, &'static str) {
    vec_kind_r::<S>(r, n, kind, 1.0)
}

/// Same, with the exponent range scaled by `frac` (operations whose documented formula multiplies three
/// or four factors need a narrower window so that no intermediate product under- or overflows, which
/// is the domain the accuracy property quantifies over).
pub fn vec_kind_r<S: HasR>(r: &mut Rng, n: usize, kind: u64, frac: f64) -> (Vec<S>, &'static str) {
    let lr = S::LOG_RANGE * frac; // 40 for f32, 300 for f64
    let mut v = vec![S::ZERO; n];
    let label;
    match kind % 8 {
        0 => {
            // dense, common scale
            let s = r.range(-lr * 0.75, lr * 0.75).exp2();
            for x in v.iter_mut() {
                *x = S::of(s * nonzero_normal(r));
            }
            label = "dense";
        }
        1 => {
            // moderate dense
            for x in v.iter_mut() {
                *x = S::of(r.logmag(-3.0, 3.0));
            }
            label = "moderate";
        }
        2 => {
            // independent magnitudes over a wide (but product-safe) range
            for x in v.iter_mut() {
                *x = S::of(r.logmag(-lr * 0.5, lr * 0.5));
            }
            label = "mixed-magnitude";
        }
        3 => {
            // single axis
            let k = r.idx(n);
            v[k] = S::of(r.logmag(-lr, lr));
            label = "single-axis";
        }
        4 => {
            // small integers (exact arithmetic)
            for x in v.iter_mut() {
                *x = S::of(r.int_in(-8, 8) as f64);
            }
            if v.iter().all(|x| x.f64() == 0.0) {
                v[0] = S::ONE;
            }
            label = "small-integers";
        }
        5 => {
            // extreme ends of the range
            let s = if r.bool() { lr } else { -lr };
            for x in v.iter_mut() {
                *x = S::of((s - r.range(0.0, 2.0) * s.signum()).exp2() * if r.bool() { 1.0 } else { -1.0 });
            }
            label = "range-edge";
        }
        6 => {
            // some zero components
            let s = r.range(-lr * 0.5, lr * 0.5).exp2();
            for x in v.iter_mut() {
                *x = if r.below(3) == 0 { S::ZERO } else { S::of(s * nonzero_normal(r)) };
            }
            if v.iter().all(|x| x.f64() == 0.0) {
                v[0] = S::of(s);
            }
            label = "sparse";
        }
        _ => {
            // unit-ish
            let raw: Vec<f64> = (0..n).map(|_| r.normal()).collect();
            let l = raw.iter().map(|x| x * x).sum::<f64>().sqrt().max(1e-3);
            for (x, y) in v.iter_mut().zip(raw.iter()) {
                *x = S::of(y / l);
            }
            label = "unit";
        }
    }
    (v, label)
}

fn nonzero_normal(r: &mut Rng) -> f64 {
    let x = r.normal();
    if x.abs() < 1e-3 {
        0.5
    } else {
        x
    }
}

/// Unit vector, uniformly distributed (rounded to S).
pub fn unit<S: HasR>(r: &mut Rng, n: usize) -> Vec<S> {
    loop {
        let raw: Vec<f64> = (0..n).map(|_| r.normal()).collect();
        let l = raw.iter().map(|x| x * x).sum::<f64>().sqrt();
        if l > 1e-3 {
            return raw.iter().map(|x| S::of(x / l)).collect();
        }
    }
}

/// Unit vector, either uniform or axis aligned / near axis.
pub fn unit_hostile<S: HasR>(r: &mut Rng, n: usize) -> Vec<S> {
    match r.below(4) {
        0 => {
            let mut v = vec![S::ZERO; n];
            v[r.idx(n)] = S::of(if r.bool() { 1.0 } else { -1.0 });
            v
        }
        1 => {
            // near an axis
            let k = r.idx(n);
            let mut raw: Vec<f64> = (0..n).map(|_| r.normal() * 10f64.powf(-r.range(1.0, 7.0))).collect();
            raw[k] = if r.bool() { 1.0 } else { -1.0 };
            let l = raw.iter().map(|x| x * x).sum::<f64>().sqrt();
            raw.iter().map(|x| S::of(x / l)).collect()
        }
        _ => unit(r, n),
    }
}

/// A partner for `a` with a prescribed relation: (values, label)
pub fn partner<S: HasR>(r: &mut Rng, a: &[S], kind: u64) -> (Vec<S>, &'static str) {
    let n = a.len();
    let af: Vec<f64> = a.iter().map(|x| x.f64()).collect();
    let la = af.iter().map(|x| x * x).sum::<f64>().sqrt();
    let scale = r.range(-2.0, 2.0).exp2();
    match kind % 6 {
        0 => {
            let k = r.next_u64();
            let (v, _) = vec_kind::<S>(r, n, k);
            (v, "independent")
        }
        1 | 2 => {
            // nearly parallel / anti-parallel with angular offset 1e-7..1e-1
            let off = 10f64.powf(-r.range(1.0, 7.0));
            let p = perp_of(r, &af);
            let sign = if kind % 6 == 1 { 1.0 } else { -1.0 };
            let v: Vec<S> = (0..n).map(|i| S::of(scale * (sign * af[i] + off * la * p[i]))).collect();
            (v, if sign > 0.0 { "near-parallel" } else { "near-antiparallel" })
        }
        3 => {
            // nearly orthogonal
            let off = if r.bool() { 0.0 } else { 10f64.powf(-r.range(1.0, 7.0)) };
            let p = perp_of(r, &af);
            let v: Vec<S> = (0..n).map(|i| S::of(scale * (la * p[i] + off * af[i]))).collect();
            (v, "near-orthogonal")
        }
        4 => {
            // exactly parallel / equal (power-of-two factor), or parallel up to the rounding of an arbitrary factor: the
            // computed cosine is then 1 +- a few ulps, on either side of 1
            if r.bool() {
                let s = if r.bool() { 1.0 } else { -1.0 } * if r.bool() { 1.0 } else { 2.0 };
                (af.iter().map(|x| S::of(x * s)).collect(), "exactly-(anti)parallel")
            } else {
                let s = if r.bool() { 1.0 } else { -1.0 } * r.range(0.05, 20.0);
                (af.iter().map(|x| S::of(x * s)).collect(), "(anti)parallel-up-to-rounding")
            }
        }
        _ => {
            // same scale, random direction
            let u = unit::<f64>(r, n);
            (u.iter().map(|x| S::of(x * la * scale)).collect(), "same-scale")
        }
    }
}

/// unit vector perpendicular to `a` (in f64)
pub fn perp_of(r: &mut Rng, a: &[f64]) -> Vec<f64> {
    let n = a.len();
    let la2: f64 = a.iter().map(|x| x * x).sum();
    if la2 == 0.0 {
        let mut v = vec![0.0; n];
        v[0] = 1.0;
        return v;
    }
    loop {
        let w: Vec<f64> = (0..n).map(|_| r.normal()).collect();
        let d: f64 = w.iter().zip(a).map(|(x, y)| x * y).sum::<f64>() / la2;
        let p: Vec<f64> = w.iter().zip(a).map(|(x, y)| x - d * y).collect();
        let lp = p.iter().map(|x| x * x).sum::<f64>().sqrt();
        if lp > 1e-3 {
            return p.iter().map(|x| x / lp).collect();
        }
    }
}

/// Unit quaternion (x, y, z, w) from the structured generator; returns also a label.
pub fn unit_quat<S: HasR>(r: &mut Rng, kind: u64) -> ([S; 4], &'static str) {
    let (q, l): ([f64; 4], &'static str) = match kind % 8 {
        0 | 1 => {
            let u = unit::<f64>(r, 4);
            ([u[0], u[1], u[2], u[3]], "uniform")
        }
        2 => {
            // angle within 1e-3 of 0
            let ax = unit::<f64>(r, 3);
            let ang = r.range(-1e-3, 1e-3) * if r.bool() { 1.0 } else { 1e-3 };
            qaa(&ax, ang, "near-identity")
        }
        3 => {
            // angle within 1e-3 of pi (half-turns: trace <= 0 branches)
            let ax = unit_hostile::<f64>(r, 3);
            let ang = core::f64::consts::PI + r.range(-1e-3, 1e-3) * if r.bool() { 1.0 } else { 1e-3 };
            qaa(&ax, ang, "near-half-turn")
        }
        4 => {
            // exact half-turn about an arbitrary axis (w = 0)
            let ax = unit_hostile::<f64>(r, 3);
            ([ax[0], ax[1], ax[2], 0.0], "exact-half-turn")
        }
        5 => {
            // single axis rotation
            let mut ax = [0.0; 3];
            ax[r.idx(3)] = 1.0;
            let ang = r.range(-core::f64::consts::PI, core::f64::consts::PI);
            qaa(&ax, ang, "single-axis")
        }
        6 => {
            // w near 0 with uniform vector part
            let ax = unit::<f64>(r, 3);
            let w = r.range(-1e-4, 1e-4);
            let s = (1.0 - w * w).sqrt();
            ([ax[0] * s, ax[1] * s, ax[2] * s, w], "w-near-0")
        }
        _ => {
            let ax = unit::<f64>(r, 3);
            let ang = r.range(-2.0 * core::f64::consts::PI, 2.0 * core::f64::consts::PI);
            qaa(&ax, ang, "axis-angle")
        }
    };
    // round to S, then renormalise in S precision as well as possible (one Newton step in f64, re-round)
    let n = (q[0] * q[0] + q[1] * q[1] + q[2] * q[2] + q[3] * q[3]).sqrt();
    ([S::of(q[0] / n), S::of(q[1] / n), S::of(q[2] / n), S::of(q[3] / n)], l)
}

fn qaa(ax: &[f64], ang: f64, l: &'static str) -> ([f64; 4], &'static str) {
    let (s, c) = (ang * 0.5).sin_cos();
    ([ax[0] * s, ax[1] * s, ax[2] * s, c], l)
}


/// Build a vector from its visible lanes the ways users come by one.  For the padded SIMD type `Vec3A` the unused fourth
/// lane is not determined by the visible lanes: `new`/`from_array`/`From<Vec3>` copy z into it, `from_vec4` keeps whatever
/// the Vec4 held, arithmetic leaves the lane-wise result of the operands' fourth lanes.  The route is a deterministic
/// function of the lane bits, so a given input always takes the same route but the routes are mixed across inputs.
pub trait FromLanes<S, const N: usize>: Sized {
    fn mk(a: [S; N]) -> Self;
}
macro_rules! plain_from_lanes {
    ($($T:ident, $S:ty, $N:expr);*) => {$(
        impl FromLanes<$S, $N> for glam::$T { fn mk(a: [$S; $N]) -> Self { glam::$T::from_array(a) } }
    )*};
}
plain_from_lanes!(Vec2, f32, 2; Vec3, f32, 3; Vec4, f32, 4; DVec2, f64, 2; DVec3, f64, 3; DVec4, f64, 4);
impl FromLanes<f32, 3> for glam::Vec3A {
    fn mk(a: [f32; 3]) -> Self {
        use glam::{Vec3A, Vec4};
        let h = vcommon::rng::mix(a[0].to_bits() as u64 | ((a[1].to_bits() as u64) << 32), a[2].to_bits() as u64 ^ 0x9e37);
        let junk = [0.0f32, 1.0, -7.5e3, f32::INFINITY, f32::NEG_INFINITY, f32::NAN, 1e-40, 3e38][((h >> 8) % 8) as usize];
        // (a division would quiet a signalling NaN in a visible lane: NaN inputs only take the copying routes)
        let route = if a.iter().any(|x| x.is_nan()) { h % 3 } else { h % 4 };
        match route {
            0 => Vec3A::from_array(a),
            1 | 2 => Vec3A::from_vec4(Vec4::new(a[0], a[1], a[2], junk)),
            _ => {
                // computed: the quotient by (1, 1, 1 | 0) keeps the visible lanes bit-for-bit, the unused lane is junk/0
                let d = Vec3A::from_vec4(Vec4::new(1.0, 1.0, 1.0, 0.0));
                Vec3A::from_vec4(Vec4::new(a[0], a[1], a[2], junk)) / d
            }
        }
    }
}

pub fn mkv<T: FromLanes<S, N>, S, const N: usize>(a: [S; N]) -> T {
    T::mk(a)
}

//! e_geom: higher-precision / exact-integer reference monitors (C02-C06, C09-C12).
#![cfg_attr(feature = "core-simd", feature(portable_simd))]
#![allow(clippy::all)]

mod c02;
mod c03;
mod c04;
mod c05;
mod c06;
mod c09;
mod c10;
mod c11;
mod c12;
mod gen;
mod hp;

use vcommon::mon::Args;

fn main() {
    let args = Args::parse();
    let mut mon = args.monitor();
    // the quick tier of the geometric monitors runs in well under a second per property: take 20x the base sample counts
    mon.quick_scale = 20;
    vcommon::mon::quiet_panics();
    let r = std::panic::catch_unwind(std::panic::AssertUnwindSafe(|| run(&args, &mut mon)));
    if r.is_err() {
        let msg = vcommon::mon::last_panic();
        // These monitors only feed inputs that meet the documented preconditions, so a panic raised inside the crate
        // (e.g. a glam_assert! in a glam-assert build, a NaN-bounded clamp) is a violation of the property being
        // monitored; a panic located in the harness itself is a harness defect (infrastructure error).
        let loc = msg.lines().next().unwrap_or("").to_string();
        if loc.contains("/harness/") || loc.contains("/verif/") && !loc.contains("/repo") {
            eprintln!("HARNESS PANIC escaped every monitor: {}", msg);
            std::process::exit(3);
        }
        if let Some(mut c) = mon.begin_unsharded("panic", "a call on valid inputs panicked inside the crate") {
            c.event(0, true);
            c.violation("panic_on_valid_input", &["escaped"], format!("{} monitor, config {}, seed {}, shard {}/{}", args.prop, mon.config, mon.seed, mon.shard.0, mon.shard.1), msg.clone(), "no panic".into(), "the monitor stopped at the first panic; the inputs of the interrupted operation are those of the next event of this shard".into());
            mon.end(c);
        }
    }
    args.finish(&mon);
}

fn run(args: &Args, mon: &mut vcommon::mon::Monitor) {
    match args.prop.as_str() {
        "C02" => c02::run(mon),
        "C03" => c03::run(mon),
        "C04" => c04::run(mon),
        "C05" => c05::run(mon),
        "C06" => c06::run(mon),
        "C09" => c09::run(mon),
        "C10" => c10::run(mon),
        "C11" => c11::run(mon),
        "C12" => c12::run(mon),
        p => {
            eprintln!("e_geom: unknown property {}", p);
            std::process::exit(2);
        }
    }
}

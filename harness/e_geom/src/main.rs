//! e_geom: higher-precision / exact-integer reference monitors (C02-C06, C09-C12).
#![cfg_attr(feature = "core-simd", feature(portable_simd))]
#![allow(clippy::all)]

mod c02;
mod c03;
mod c04;
mod c05;
mod c06;
mod c09;
mod c10;
mod c11;
mod c12;
mod gen;
mod hp;

use vcommon::mon::Args;

fn main() {
    let args = Args::parse();
    let mut mon = args.monitor();
    // the quick tier of the geometric monitors runs in well under a second per property: take 20x the base sample counts
    mon.quick_scale = 20;
    vcommon::mon::quiet_panics();
    let r = std::panic::catch_unwind(std::panic::AssertUnwindSafe(|| run(&args, &mut mon)));
    if r.is_err() {
        eprintln!("HARNESS PANIC escaped every monitor: {}", vcommon::mon::last_panic());
        std::process::exit(3);
    }
    args.finish(&mon);
}

fn run(args: &Args, mon: &mut vcommon::mon::Monitor) {
    match args.prop.as_str() {
        "C02" => c02::run(mon),
        "C03" => c03::run(mon),
        "C04" => c04::run(mon),
        "C05" => c05::run(mon),
        "C06" => c06::run(mon),
        "C09" => c09::run(mon),
        "C10" => c10::run(mon),
        "C11" => c11::run(mon),
        "C12" => c12::run(mon),
        p => {
            eprintln!("e_geom: unknown property {}", p);
            std::process::exit(2);
        }
    }
}

//! C09: rotation constructors and all 24 Euler orders follow the documented conventions.

use crate::gen::*;
use glam::*;
use vcommon::dd::{Real, DD};
use vcommon::mon::*;
use vcommon::refm::*;
use vcommon::rng::Rng;

pub const ORDERS: [(EulerRot, &str, [usize; 3], bool); 24] = [
    (EulerRot::ZYX, "ZYX", [2, 1, 0], false),
    (EulerRot::ZXY, "ZXY", [2, 0, 1], false),
    (EulerRot::YXZ, "YXZ", [1, 0, 2], false),
    (EulerRot::YZX, "YZX", [1, 2, 0], false),
    (EulerRot::XYZ, "XYZ", [0, 1, 2], false),
    (EulerRot::XZY, "XZY", [0, 2, 1], false),
    (EulerRot::ZYZ, "ZYZ", [2, 1, 2], false),
    (EulerRot::ZXZ, "ZXZ", [2, 0, 2], false),
    (EulerRot::YXY, "YXY", [1, 0, 1], false),
    (EulerRot::YZY, "YZY", [1, 2, 1], false),
    (EulerRot::XYX, "XYX", [0, 1, 0], false),
    (EulerRot::XZX, "XZX", [0, 2, 0], false),
    (EulerRot::ZYXEx, "ZYXEx", [2, 1, 0], true),
    (EulerRot::ZXYEx, "ZXYEx", [2, 0, 1], true),
    (EulerRot::YXZEx, "YXZEx", [1, 0, 2], true),
    (EulerRot::YZXEx, "YZXEx", [1, 2, 0], true),
    (EulerRot::XYZEx, "XYZEx", [0, 1, 2], true),
    (EulerRot::XZYEx, "XZYEx", [0, 2, 1], true),
    (EulerRot::ZYZEx, "ZYZEx", [2, 1, 2], true),
    (EulerRot::ZXZEx, "ZXZEx", [2, 0, 2], true),
    (EulerRot::YXYEx, "YXYEx", [1, 0, 1], true),
    (EulerRot::YZYEx, "YZYEx", [1, 2, 1], true),
    (EulerRot::XYXEx, "XYXEx", [0, 1, 0], true),
    (EulerRot::XZXEx, "XZXEx", [0, 2, 0], true),
];

/// reference Euler rotation: product of the three single-axis rotations in the order the variant spells
/// (intrinsic left to right; Ex reversed)
pub fn euler_ref<R: Real>(axes: [usize; 3], ex: bool, a: f64, b: f64, c: f64) -> M<R> {
    let (r1, r2, r3) = (rot_elem::<R>(axes[0], a), rot_elem::<R>(axes[1], b), rot_elem::<R>(axes[2], c));
    if ex {
        r3.mul(&r2).mul(&r1)
    } else {
        r1.mul(&r2).mul(&r3)
    }
}

fn m3f(v: &[f64]) -> M<f64> {
    M::from_cols(3, v)
}

/// 3x3 linear part of a quaternion given by its components (exactly as stored)
fn quat_lin(q: [f64; 4]) -> (M<f64>, f64) {
    let n = (q[0] * q[0] + q[1] * q[1] + q[2] * q[2] + q[3] * q[3]).sqrt();
    let qd = [DD::new(q[0]), DD::new(q[1]), DD::new(q[2]), DD::new(q[3])];
    (m3f(&qmat::<DD>(&qd).to_f64()), n)
}
/// references are evaluated in double-double and rounded once to f64
fn exact_axis_angle(axis: &[f64], angle: f64) -> M<f64> {
    let a: Vec<DD> = axis.iter().map(|x| DD::new(*x)).collect();
    m3f(&rot_axis_angle::<DD>(&a, angle).to_f64())
}
fn exact_elem(axis: usize, angle: f64) -> M<f64> {
    m3f(&rot_elem::<DD>(axis, angle).to_f64())
}
fn exact_euler(axes: [usize; 3], ex: bool, a: f64, b: f64, c: f64) -> M<f64> {
    m3f(&euler_ref::<DD>(axes, ex, a, b, c).to_f64())
}

struct Chk<'a> {
    c: &'a mut OpCtx,
}
impl<'a> Chk<'a> {
    /// entries within k*eps of the reference
    fn mat(&mut self, what: &'static str, got: &M<f64>, exact: &M<f64>, tol: f64, inp: &dyn Fn() -> String) -> bool {
        for col in 0..3 {
            for row in 0..3 {
                let e = (got.a[col][row] - exact.a[col][row]).abs();
                self.c.ratio_t(what, e / tol);
                if !(e <= tol) {
                    if self.c.wants_witness("accuracy", &[what]) {
                        self.c.violation("accuracy", &[what], inp(), format!("{:?}", got.to_f64()), format!("{:?}", exact.to_f64()), format!("{}: entry ({}, {}) differs by {:.3e} > {:.3e}", what, row, col, e, tol));
                    } else {
                        self.c.st.violations += 1;
                    }
                    return false;
                }
            }
        }
        true
    }
    fn unit(&mut self, what: &'static str, n: f64, tol: f64, inp: &dyn Fn() -> String) {
        self.c.ratio_t(what, (n - 1.0).abs() / tol);
        if !((n - 1.0).abs() <= tol) {
            self.c.violation("accuracy", &[what], inp(), format!("norm {}", n), "1".into(), String::new());
        }
    }
}

fn angle_pool(r: &mut Rng, it: u64) -> f64 {
    use core::f64::consts::PI;
    match it % 8 {
        0 => r.range(-4.0 * PI, 4.0 * PI),
        1 => *r.pick(&[0.0, PI / 2.0, -PI / 2.0, PI, -PI, 2.0 * PI, PI / 4.0, 1e-4, -1e-4, 3.0 * PI / 2.0]),
        2 => r.range(-1e6, 1e6),
        3 => PI * r.int_in(-4, 4) as f64 * 0.5 + r.range(-1e-3, 1e-3),
        // small angles: uniform below 1e-3 and log-uniform down to 1e-12
        4 => if r.bool() { r.range(-1e-3, 1e-3) } else { 10f64.powf(-r.range(1.0, 12.0)) * if r.bool() { 1.0 } else { -1.0 } },
        _ => r.range(-PI, PI),
    }
}

macro_rules! ctor_suite {
    ($mon:expr, $S:ty, $eps:expr, $Q:ident, $M3:ident, $M3list:tt, $M4:ident, $A3:ident, $V3:ident, $tag:expr) => {{
        let mon: &mut Monitor = $mon;
        let iters = mon.n(4_000, 400_000);
        let eps: f64 = $eps;
        if let Some(mut c) = mon.begin($tag, "from_axis_angle/from_rotation_xyz/from_scaled_axis") {
            let mut rng = Rng::new(mon.op_seed($tag, "ctor"));
            for it in 0..iters {
                let ang = angle_pool(&mut rng, it) as $S;
                let axis_s: Vec<$S> = unit_hostile::<$S>(&mut rng, 3);
                let axis = <$V3>::new(axis_s[0], axis_s[1], axis_s[2]);
                let af: Vec<f64> = axis_s.iter().map(|x| *x as f64).collect();
                let exact = exact_axis_angle(&af, ang as f64);
                let big = (ang as f64).abs() > 1e3;
                // sin/cos of a large f32 angle is evaluated by the library in f32: abs error stays ~1 ulp of the result
                let tol = 8.0 * eps;
                let inp = || format!("axis={:?} angle={:?}", axis, ang);
                c.event(it % 8 + if big { 8 } else { 0 }, true);
                if c.need_sample() { c.sample(format!("{}: from_axis_angle({})", $tag, inp())); }
                let mut k = Chk { c: &mut c };
                let q = <$Q>::from_axis_angle(axis, ang);
                let (qm, qn) = quat_lin([q.x as f64, q.y as f64, q.z as f64, q.w as f64]);
                k.mat("Quat::from_axis_angle", &qm, &exact, tol, &inp);
                k.unit("Quat unit", qn, 8.0 * eps, &inp);
                ctor_suite!(@m3s k, $M3list, axis, ang, &exact, tol, &inp);
                let m4 = <$M4>::from_axis_angle(axis, ang);
                let m4c: Vec<f64> = m4.to_cols_array().iter().map(|x| *x as f64).collect();
                k.mat("Mat4::from_axis_angle", &m3f(&[m4c[0], m4c[1], m4c[2], m4c[4], m4c[5], m4c[6], m4c[8], m4c[9], m4c[10]]), &exact, tol, &inp);
                if m4c[3] != 0.0 || m4c[7] != 0.0 || m4c[11] != 0.0 || m4c[12] != 0.0 || m4c[13] != 0.0 || m4c[14] != 0.0 || m4c[15] != 1.0 {
                    k.c.violation("structure", &["Mat4::from_axis_angle"], inp(), format!("{:?}", m4c), String::new(), "last row / column must be (0,0,0,1)".into());
                }
                let a3 = <$A3>::from_axis_angle(axis, ang);
                let a3c: Vec<f64> = a3.to_cols_array().iter().map(|x| *x as f64).collect();
                k.mat("Affine3::from_axis_angle", &m3f(&a3c[..9]), &exact, tol, &inp);
                if a3c[9] != 0.0 || a3c[10] != 0.0 || a3c[11] != 0.0 {
                    k.c.violation("structure", &["Affine3::from_axis_angle"], inp(), format!("{:?}", a3c), String::new(), "translation must be zero".into());
                }
                // determinant +1 and orthonormal for the matrix form
                let m3v = <$M3>::from_axis_angle(axis, ang);
                let mm = m3f(&m3v.to_cols_array().iter().map(|x| *x as f64).collect::<Vec<_>>());
                let det = mm.det();
                k.c.ratio_t("det=1", (det - 1.0).abs() / (16.0 * eps));
                if !((det - 1.0).abs() <= 16.0 * eps) {
                    k.c.violation("accuracy", &["det=1"], inp(), format!("{}", det), "1".into(), String::new());
                }
                let ortho = mm.transpose().mul(&mm);
                k.mat("orthonormal", &ortho, &M::ident(3), 16.0 * eps, &inp);
                // single-axis constructors
                for ax in 0..3 {
                    let ex = exact_elem(ax, ang as f64);
                    let (qq, m3x, m4x, a3x) = match ax {
                        0 => (<$Q>::from_rotation_x(ang), <$M3>::from_rotation_x(ang), <$M4>::from_rotation_x(ang), <$A3>::from_rotation_x(ang)),
                        1 => (<$Q>::from_rotation_y(ang), <$M3>::from_rotation_y(ang), <$M4>::from_rotation_y(ang), <$A3>::from_rotation_y(ang)),
                        _ => (<$Q>::from_rotation_z(ang), <$M3>::from_rotation_z(ang), <$M4>::from_rotation_z(ang), <$A3>::from_rotation_z(ang)),
                    };
                    let inp2 = || format!("from_rotation_{} angle={:?}", ["x", "y", "z"][ax], ang);
                    let (qm, qn) = quat_lin([qq.x as f64, qq.y as f64, qq.z as f64, qq.w as f64]);
                    k.mat("Quat::from_rotation_*", &qm, &ex, tol, &inp2);
                    k.unit("Quat unit", qn, 8.0 * eps, &inp2);
                    k.mat("Mat3::from_rotation_*", &m3f(&m3x.to_cols_array().iter().map(|x| *x as f64).collect::<Vec<_>>()), &ex, tol, &inp2);
                    let c4: Vec<f64> = m4x.to_cols_array().iter().map(|x| *x as f64).collect();
                    k.mat("Mat4::from_rotation_*", &m3f(&[c4[0], c4[1], c4[2], c4[4], c4[5], c4[6], c4[8], c4[9], c4[10]]), &ex, tol, &inp2);
                    let ca: Vec<f64> = a3x.to_cols_array().iter().map(|x| *x as f64).collect();
                    k.mat("Affine3::from_rotation_*", &m3f(&ca[..9]), &ex, tol, &inp2);
                    ctor_suite!(@m3a_rot k, $M3list, ax, ang, &ex, tol, &inp2);
                }
                // from_scaled_axis: axis * angle with |angle| <= 2 pi
                let sa_ang = ((ang as f64) % (2.0 * core::f64::consts::PI)) as $S;
                let sv = axis * sa_ang;
                let qs = <$Q>::from_scaled_axis(sv);
                let svf = [sv.x as f64, sv.y as f64, sv.z as f64];
                let sl = (svf[0] * svf[0] + svf[1] * svf[1] + svf[2] * svf[2]).sqrt();
                if sl > 1e-15 {
                    let exs = exact_axis_angle(&svf, sl);
                    let (qm, qn) = quat_lin([qs.x as f64, qs.y as f64, qs.z as f64, qs.w as f64]);
                    k.mat("Quat::from_scaled_axis", &qm, &exs, 16.0 * eps, &|| format!("v={:?}", sv));
                    k.unit("Quat unit", qn, 8.0 * eps, &|| format!("v={:?}", sv));
                    // to_scaled_axis / to_axis_angle rebuild the rotation
                    let back = <$Q>::from_scaled_axis(qs.to_scaled_axis());
                    let (bm, _) = quat_lin([back.x as f64, back.y as f64, back.z as f64, back.w as f64]);
                    // same conditioning envelope as to_axis_angle below: eps / |vector part|
                    let svq = ((qs.x as f64).powi(2) + (qs.y as f64).powi(2) + (qs.z as f64).powi(2)).sqrt();
                    k.mat("to_scaled_axis rebuild", &bm, &qm, 8.0 * eps * (1.0 + 1.0 / svq.max(1e-300)), &|| format!("q={:?}", qs));
                }
                let (ax2, an2) = q.to_axis_angle();
                let back = <$Q>::from_axis_angle(ax2, an2);
                let (bm, _) = quat_lin([back.x as f64, back.y as f64, back.z as f64, back.w as f64]);
                // conditioning: the angle comes from acos(w), so near angle 0 / 2 pi the rebuilt rotation may be off by
                // eps / sin(angle/2) (the property's envelope); sin(angle/2) = |vector part|
                let sv2 = ((q.x as f64).powi(2) + (q.y as f64).powi(2) + (q.z as f64).powi(2)).sqrt();
                k.mat("to_axis_angle rebuild", &bm, &qm, 8.0 * eps * (1.0 + 1.0 / sv2.max(1e-300)), &|| format!("q={:?} -> axis {:?} angle {:?}", q, ax2, an2));
                let al = ((ax2.x as f64).powi(2) + (ax2.y as f64).powi(2) + (ax2.z as f64).powi(2)).sqrt();
                if !((al - 1.0).abs() <= 16.0 * eps) {
                    k.c.violation("accuracy", &["to_axis_angle axis unit"], format!("q={:?}", q), format!("{:?}", ax2), String::new(), String::new());
                }
            }
            mon.end(c);
        }
    }};
    (@m3s $k:ident, [$($M:ident),*], $axis:expr, $ang:expr, $exact:expr, $tol:expr, $inp:expr) => {
        $( { let m = <$M>::from_axis_angle($axis, $ang); $k.mat(concat!(stringify!($M), "::from_axis_angle"), &m3f(&m.to_cols_array().iter().map(|x| *x as f64).collect::<Vec<_>>()), $exact, $tol, $inp); } )*
    };
    (@m3a_rot $k:ident, [$($M:ident),*], $ax:expr, $ang:expr, $exact:expr, $tol:expr, $inp:expr) => {
        $( { let m = match $ax { 0 => <$M>::from_rotation_x($ang), 1 => <$M>::from_rotation_y($ang), _ => <$M>::from_rotation_z($ang) }; $k.mat(concat!(stringify!($M), "::from_rotation_*"), &m3f(&m.to_cols_array().iter().map(|x| *x as f64).collect::<Vec<_>>()), $exact, $tol, $inp); } )*
    };
}

macro_rules! euler_suite {
    ($mon:expr, $S:ty, $eps:expr, $Q:ident, [$($M3:ident),*], $M3main:ident, $M4:ident, $tag:expr) => {{
        let mon: &mut Monitor = $mon;
        let per_order = mon.n(400, 40_000);
        let eps: f64 = $eps;
        if let Some(mut c) = mon.begin($tag, "from_euler: all 24 orders") {
            let mut rng = Rng::new(mon.op_seed($tag, "from_euler"));
            for (order, name, axes, ex) in ORDERS.iter() {
                for it in 0..per_order {
                    let (a, b, cc) = (angle_pool(&mut rng, it) as $S, angle_pool(&mut rng, it / 8 + 1) as $S, angle_pool(&mut rng, it / 64 + 5) as $S);
                    let exact = exact_euler(*axes, *ex, a as f64, b as f64, cc as f64);
                    let inp = || format!("{} a={:?} b={:?} c={:?}", name, a, b, cc);
                    c.event(vcommon::rng::hash_str(name) ^ (it % 8), true);
                    if c.need_sample() && it == 0 && *name == "XYZEx" { c.sample(format!("{}::from_euler({})", $tag, inp())); }
                    let mut k = Chk { c: &mut c };
                    let tol = 12.0 * eps;
                    let q = <$Q>::from_euler(*order, a, b, cc);
                    let (qm, qn) = quat_lin([q.x as f64, q.y as f64, q.z as f64, q.w as f64]);
                    k.mat("Quat::from_euler", &qm, &exact, tol, &inp);
                    k.unit("Quat unit", qn, 8.0 * eps, &inp);
                    $( { let m = <$M3>::from_euler(*order, a, b, cc); k.mat(concat!(stringify!($M3), "::from_euler"), &m3f(&m.to_cols_array().iter().map(|x| *x as f64).collect::<Vec<_>>()), &exact, tol, &inp); } )*
                    let m4 = <$M4>::from_euler(*order, a, b, cc);
                    let c4: Vec<f64> = m4.to_cols_array().iter().map(|x| *x as f64).collect();
                    k.mat("Mat4::from_euler", &m3f(&[c4[0], c4[1], c4[2], c4[4], c4[5], c4[6], c4[8], c4[9], c4[10]]), &exact, tol, &inp);
                }
            }
            mon.end(c);
            if !mon.scratch { mon.exhaustive.push(format!("{}: all 24 EulerRot variants for from_euler and to_euler", $tag)); }
        }
        if let Some(mut c) = mon.begin($tag, "to_euler: rebuild incl. gimbal neighbourhood") {
            let mut rng = Rng::new(mon.op_seed($tag, "to_euler"));
            use core::f64::consts::PI;
            for (order, name, axes, ex) in ORDERS.iter() {
                let repeated = axes[0] == axes[2];
                for it in 0..per_order {
                    // rotation: arbitrary unit quaternion, or an Euler triple whose middle angle is near the singularity
                    let (rm, how): ($M3main, &str) = if it % 2 == 0 {
                        let (qv, _) = unit_quat::<$S>(&mut rng, it / 2);
                        (<$M3main>::from_quat(<$Q>::from_array(qv)), "unit quaternion")
                    } else {
                        let off = match it % 6 { 1 => 0.0, 3 => 10f64.powf(-rng.range(2.0, 7.5)), _ => 10f64.powf(-rng.range(0.0, 3.0)) } * if rng.bool() { 1.0 } else { -1.0 };
                        let sing = if repeated { if rng.bool() { 0.0 } else { PI } } else { if rng.bool() { PI / 2.0 } else { -PI / 2.0 } };
                        let (a, cc) = (rng.range(-PI, PI), rng.range(-PI, PI));
                        // build the input through the f64 reference and round: independent of glam's from_euler
                        let r = exact_euler(*axes, *ex, a, sing + off, cc);
                        let arr: [$S; 9] = core::array::from_fn(|i| r.to_f64()[i] as $S);
                        (<$M3main>::from_cols_array(&arr), "near-gimbal triple")
                    };
                    let rmf = m3f(&rm.to_cols_array().iter().map(|x| *x as f64).collect::<Vec<_>>());
                    // distance from the singularity measured on the matrix itself
                    let (l1, l3) = (axes[0], axes[2]);
                    // the deciding entry e = +-sin/cos of the middle angle sits at (row, col); for an orthonormal matrix
                    // 1 - e^2 is the sum of squares of the other two entries of that row (no cancellation)
                    let (er, ec) = if repeated { (l1, l1) } else if *ex { (l3, l1) } else { (l1, l3) };
                    let d = (0..3).filter(|cc| *cc != ec).map(|cc| rmf.at(er, cc).powi(2)).sum::<f64>().sqrt();
                    let (ta, tb, tc) = rm.to_euler(*order);
                    let rebuilt = <$M3main>::from_euler(*order, ta, tb, tc);
                    let rbf = m3f(&rebuilt.to_cols_array().iter().map(|x| *x as f64).collect::<Vec<_>>());
                    let thr = 16.0 * eps;
                    let (tol, zone) = if d <= thr * 0.5 { (64.0 * eps, "gimbal-branch") } else if d <= thr * 2.0 { (64.0 * eps + 16.0 * eps * (1.0 + 1.0 / d), "threshold") } else { (16.0 * eps * (1.0 + 1.0 / d), if d < 1e-2 { "near-gimbal" } else { "regular" }) };
                    c.event(vcommon::rng::hash_str(name) ^ vcommon::rng::hash_str(zone).rotate_left(11), true);
                    c.count(zone);
                    let inp = || format!("{} R={:?} ({}; d={:.3e}, {}) -> ({:?}, {:?}, {:?})", name, rm.to_cols_array(), how, d, zone, ta, tb, tc);
                    let mut k = Chk { c: &mut c };
                    k.mat(if zone == "regular" { "to_euler rebuild (regular)" } else { "to_euler rebuild (near gimbal)" }, &rbf, &rmf, tol, &inp);
                    // absolute figure for calibration only (never decides)
                    let worst = (0..9).map(|i| (rbf.to_f64()[i] - rmf.to_f64()[i]).abs()).fold(0.0, f64::max);
                    k.c.ratio_t("to_euler abs err / 64 eps (info)", worst / (64.0 * eps) * 0.0 + 0.0);
                    let _ = worst;
                    if !(ta.is_finite() && tb.is_finite() && tc.is_finite()) {
                        k.c.violation("nonfinite", &["to_euler"], inp(), String::new(), String::new(), String::new());
                    }
                    // the quaternion and Mat4 forms extract parameters of the same rotation
                    let q = <$Q>::from_mat3(&<$M3main>::from(rm).into());
                    let (qa, qb, qc) = q.to_euler(*order);
                    let rq = <$M3main>::from_euler(*order, qa, qb, qc);
                    let rqf = m3f(&rq.to_cols_array().iter().map(|x| *x as f64).collect::<Vec<_>>());
                    k.mat("Quat::to_euler rebuild", &rqf, &rmf, tol + 32.0 * eps, &inp);
                    let m4 = <$M4>::from_mat3(rm.into());
                    let (ma, mb, mc) = m4.to_euler(*order);
                    if ma.to_bits() != ta.to_bits() || mb.to_bits() != tb.to_bits() || mc.to_bits() != tc.to_bits() {
                        k.c.violation("relational", &["Mat4::to_euler"], inp(), format!("({:?},{:?},{:?})", ma, mb, mc), format!("({:?},{:?},{:?})", ta, tb, tc), "Mat4::to_euler must agree with Mat3::to_euler".into());
                    }
                }
            }
            mon.end(c);
        }
    }};
}

fn two_d(mon: &mut Monitor) {
    let iters = mon.n(4_000, 400_000);
    macro_rules! td {
        ($tag:expr, $S:ty, $eps:expr, $M2:ident, $M3:ident, $A2:ident, $V2:ident) => {
            if let Some(mut c) = mon.begin($tag, "from_angle (2-D)") {
                let mut rng = Rng::new(mon.op_seed($tag, "2d"));
                let eps: f64 = $eps;
                for it in 0..iters {
                    let ang = angle_pool(&mut rng, it) as $S;
                    let (s, co) = (ang as f64).sin_cos();
                    let exact = [co, s, -s, co];
                    let inp = || format!("angle={:?}", ang);
                    c.event(it % 8, true);
                    let m2 = <$M2>::from_angle(ang).to_cols_array();
                    let m3 = <$M3>::from_angle(ang).to_cols_array();
                    let a2 = <$A2>::from_angle(ang).to_cols_array();
                    let v2 = <$V2>::from_angle(ang);
                    let forms: Vec<(&'static str, [f64; 4])> = vec![
                        ("Mat2::from_angle", [m2[0] as f64, m2[1] as f64, m2[2] as f64, m2[3] as f64]),
                        ("Mat3::from_angle", [m3[0] as f64, m3[1] as f64, m3[3] as f64, m3[4] as f64]),
                        ("Affine2::from_angle", [a2[0] as f64, a2[1] as f64, a2[2] as f64, a2[3] as f64]),
                        ("Vec2::from_angle", [v2.x as f64, v2.y as f64, -(v2.y as f64), v2.x as f64]),
                    ];
                    for (nm, g) in forms {
                        for k in 0..4 {
                            let e = (g[k] - exact[k]).abs();
                            c.ratio_t(nm, e / (4.0 * eps));
                            if !(e <= 4.0 * eps) {
                                c.violation("accuracy", &[nm], inp(), format!("{:?}", g), format!("{:?}", exact), "counter-clockwise rotation by `angle`: columns (cos, sin), (-sin, cos)".into());
                                break;
                            }
                        }
                    }
                    if m3[2] != 0.0 || m3[5] != 0.0 || m3[6] != 0.0 || m3[7] != 0.0 || m3[8] != 1.0 || a2[4] != 0.0 || a2[5] != 0.0 {
                        c.violation("structure", &["from_angle"], inp(), format!("{:?} {:?}", m3, a2), String::new(), String::new());
                    }
                    // Vec2::to_angle inverts from_angle (mod 2 pi)
                    let back = v2.to_angle() as f64;
                    let diff = ((back - ang as f64 + core::f64::consts::PI).rem_euclid(2.0 * core::f64::consts::PI) - core::f64::consts::PI).abs();
                    // conditioning: angle error ~ eps * (1 + |ang|) through the f32 sin/cos of a large angle
                    let tol = 8.0 * eps * (1.0 + (ang as f64).abs());
                    c.ratio_t("to_angle", diff / tol);
                    if !(diff <= tol) {
                        c.violation("accuracy", &["to_angle"], inp(), format!("{}", back), String::new(), String::new());
                    }
                    // Vec2::rotate: complex multiplication of the two stored unit vectors
                    let u = <$V2>::from_angle(0.7);
                    let w = u.rotate(v2);
                    let (ux, uy, vx, vy) = (DD::new(u.x as f64), DD::new(u.y as f64), DD::new(v2.x as f64), DD::new(v2.y as f64));
                    let (ex_, ey_) = ((ux * vx - uy * vy).to_f64(), (uy * vx + ux * vy).to_f64());
                    if !((w.x as f64 - ex_).abs() <= 4.0 * eps && (w.y as f64 - ey_).abs() <= 4.0 * eps) {
                        c.violation("accuracy", &["Vec2::rotate"], inp(), format!("{:?}", w), format!("({}, {})", ex_, ey_), String::new());
                    }
                }
                c.sample(format!("{}: Mat2/Mat3/Affine2/Vec2::from_angle vs (cos, sin; -sin, cos)", $tag));
                mon.end(c);
            }
        };
    }
    td!("f32-2d", f32, f32::EPSILON as f64, Mat2, Mat3, Affine2, Vec2);
    td!("f64-2d", f64, f64::EPSILON, DMat2, DMat3, DAffine2, DVec2);
}

fn canaries(mon: &mut Monitor) {
    mon.canary("rotation about -axis (clockwise)", |m| {
        if let Some(mut c) = m.begin("Canary", "ctor") {
            let exact = rot_axis_angle::<f64>(&[0.0, 0.0, 1.0], 0.5);
            let bad = Mat3::from_rotation_z(-0.5);
            let mut k = Chk { c: &mut c };
            k.mat("x", &m3f(&bad.to_cols_array().iter().map(|x| *x as f64).collect::<Vec<_>>()), &exact, 8.0 * f32::EPSILON as f64, &|| String::new());
            c.event(0, true);
            m.end(c);
        }
    });
    mon.canary("Euler order with two axes swapped", |m| {
        if let Some(mut c) = m.begin("Canary", "euler") {
            let exact = euler_ref::<f64>([0, 1, 2], false, 0.3, 0.4, 0.5);
            let bad = Mat3::from_euler(EulerRot::XZY, 0.3, 0.4, 0.5);
            let mut k = Chk { c: &mut c };
            k.mat("x", &m3f(&bad.to_cols_array().iter().map(|x| *x as f64).collect::<Vec<_>>()), &exact, 12.0 * f32::EPSILON as f64, &|| String::new());
            c.event(0, true);
            m.end(c);
        }
    });
    mon.canary("extrinsic order not reversed", |m| {
        if let Some(mut c) = m.begin("Canary", "euler") {
            let exact = euler_ref::<f64>([0, 1, 2], true, 0.3, 0.4, 0.5);
            let bad = Mat3::from_euler(EulerRot::XYZ, 0.3, 0.4, 0.5);
            let mut k = Chk { c: &mut c };
            k.mat("x", &m3f(&bad.to_cols_array().iter().map(|x| *x as f64).collect::<Vec<_>>()), &exact, 12.0 * f32::EPSILON as f64, &|| String::new());
            c.event(0, true);
            m.end(c);
        }
    });
}

pub fn run(mon: &mut Monitor) {
    canaries(mon);
    ctor_suite!(mon, f32, f32::EPSILON as f64, Quat, Mat3, [Mat3, Mat3A], Mat4, Affine3A, Vec3, "f32");
    ctor_suite!(mon, f64, f64::EPSILON, DQuat, DMat3, [DMat3], DMat4, DAffine3, DVec3, "f64");
    euler_suite!(mon, f32, f32::EPSILON as f64, Quat, [Mat3, Mat3A], Mat3, Mat4, "f32");
    euler_suite!(mon, f64, f64::EPSILON, DQuat, [DMat3], DMat3, DMat4, "f64");
    two_d(mon);
    let _ = DD::ZERO;
}

//! C06: column-vector, column-major conventions hold across every accessor and product.

use crate::hp::*;
use glam::*;
use std::panic::{catch_unwind, AssertUnwindSafe};
use vcommon::fl::Fl;
use vcommon::mon::*;
use vcommon::rng::Rng;

/// pairwise distinct tagged bit patterns incl. NaN payloads, -0, subnormal
pub fn tag<S: Fl>(i: usize) -> S {
    if S::NAME == "f32" {
        let t: [u32; 8] = [0x8000_0000, 0x7fc1_2345, 0x7fa0_0001, 0xffc0_0077, 0x0000_0001, 0x7f80_0000, 0xff80_0000, 0x0000_0000];
        if i < 8 { S::from_bits64(t[i] as u64) } else { S::of(i as f64 * 1.25 + 0.0625) }
    } else {
        let t: [u64; 8] = [0x8000_0000_0000_0000, 0x7ff8_1234_5678_9abc, 0x7ff4_0000_0000_0001, 0xfff8_0000_0000_0077, 0x1, 0x7ff0_0000_0000_0000, 0xfff0_0000_0000_0000, 0x0];
        if i < 8 { S::from_bits64(t[i]) } else { S::of(i as f64 * 1.25 + 0.0625) }
    }
}

pub struct LayApi<S: Fl, T> {
    pub name: &'static str,
    pub cols: usize,
    pub rows: usize,
    /// build from a column-major flat entry list
    pub writers: Vec<(&'static str, Box<dyn Fn(&[S]) -> T>)>,
    /// read back to a column-major flat entry list
    pub readers: Vec<(&'static str, Box<dyn Fn(&T) -> Vec<S>>)>,
    pub transpose: Option<Box<dyn Fn(&T) -> T>>,
    /// (cols of the result when built from a diagonal) from_diagonal(diag) -> T
    pub from_diagonal: Option<Box<dyn Fn(&[S]) -> T>>,
    pub col_oob: Vec<(&'static str, Box<dyn Fn(&T, usize) -> S>)>,
}

fn bits_eq<S: Fl>(a: &[S], b: &[S]) -> bool {
    a.len() == b.len() && a.iter().zip(b).all(|(x, y)| x.bits() == y.bits())
}

pub fn suite<S: Fl, T>(mon: &mut Monitor, api: &LayApi<S, T>) {
    let ty = api.name;
    let (nc, nr) = (api.cols, api.rows);
    let n = nc * nr;
    let rounds = mon.n(40, 4000);
    if let Some(mut c) = mon.begin(ty, "write-path x read-path (tagged entries)") {
        let mut rng = Rng::new(mon.op_seed(ty, "lay"));
        for round in 0..rounds {
            let e: Vec<S> = (0..n).map(|k| if round < 8 { tag::<S>((k + round as usize * 5) % 24) } else { S::random_bits(&mut rng) }).collect();
            for (wn, w) in &api.writers {
                let t = w(&e);
                for (rn, r) in &api.readers {
                    let got = r(&t);
                    c.event(vcommon::rng::hash_str(wn) ^ vcommon::rng::hash_str(rn).rotate_left(13), round < 8);
                    if !bits_eq(&got, &e) {
                        // locate the first wrong (r, c)
                        let k = (0..n.min(got.len())).find(|k| got[*k].bits() != e[*k].bits()).unwrap_or(0);
                        if c.wants_witness("layout_mismatch", &[wn, rn]) {
                            c.violation("layout_mismatch", &[wn, rn], format!("entries(col-major)={}", show(&e)), show(&got), show(&e), format!("written through {}, read through {}: entry (row {}, col {}) differs", wn, rn, k % nr, k / nr));
                        } else {
                            c.st.violations += 1;
                        }
                    } else if c.need_sample() && round == 0 {
                        c.sample(format!("{}: {} -> {} round trip of {}", ty, wn, rn, show(&e)));
                    }
                }
                if let Some(tr) = &api.transpose {
                    let tt = tr(&t);
                    let got = (api.readers[0].1)(&tt);
                    let mut ex = e.clone();
                    for col in 0..nc {
                        for row in 0..nr {
                            ex[col * nr + row] = e[row * nr + col];
                        }
                    }
                    if !bits_eq(&got, &ex) {
                        c.violation("layout_mismatch", &["transpose"], show(&e), show(&got), show(&ex), "transpose swaps rows and columns exactly".into());
                    }
                }
            }
        }
        mon.end(c);
        if !mon.scratch {
            mon.exhaustive.push(format!("{}: every ordered pair of {} write paths x {} read paths, every (row, col)", ty, api.writers.len(), api.readers.len()));
        }
    }
    if let Some(fd) = &api.from_diagonal {
        if let Some(mut c) = mon.begin(ty, "from_diagonal") {
            for round in 0..8 {
                let d: Vec<S> = (0..nc).map(|k| tag::<S>((k + round * 3) % 24)).collect();
                let t = fd(&d);
                let got = (api.readers[0].1)(&t);
                c.event(round as u64, true);
                for col in 0..nc {
                    for row in 0..nr {
                        let e = if col == row { d[col] } else { S::ZERO };
                        if got[col * nr + row].bits() != e.bits() {
                            c.violation("layout_mismatch", &["from_diagonal"], show(&d), show(&got), String::new(), format!("entry ({}, {})", row, col));
                        }
                    }
                }
            }
            c.sample(format!("{}::from_diagonal puts its argument on the diagonal and +0 elsewhere", ty));
            mon.end(c);
        }
    }
    if !api.col_oob.is_empty() {
        if let Some(mut c) = mon.begin(ty, "col/row index range") {
            let e: Vec<S> = (0..n).map(|k| tag::<S>(k + 8)).collect();
            let t = (api.writers[0].1)(&e);
            for (nm, f) in &api.col_oob {
                for i in [nc, nc + 1, nc + 2, usize::MAX] {
                    let r = catch_unwind(AssertUnwindSafe(|| f(&t, i)));
                    c.event(i as u64 & 7, true);
                    if r.is_ok() {
                        c.violation("missing_panic", &[nm], format!("index {}", i), format!("{:?}", r.ok()), "panic".into(), "out-of-range index must panic".into());
                    } else {
                        c.st.panics_expected += 1;
                    }
                }
            }
            c.sample(format!("{}: col/col_mut/row with indices N..N+2 and usize::MAX must panic", ty));
            mon.end(c);
        }
    }
}

macro_rules! mat_lay {
    // square matrix with N columns of vector type V
    ($T:ident, $S:ty, $N:tt, $NN:expr, $V:ident, asref: $asref:tt) => {{
        let mk = |e: &[$S]| -> $T { <$T>::from_cols_array(&core::array::from_fn(|k| e[k])) };
        let colv = |e: &[$S], c: usize| -> $V { crate::gen::mkv(core::array::from_fn(|r| e[c * $N + r])) };
        let mut writers: Vec<(&'static str, Box<dyn Fn(&[$S]) -> $T>)> = vec![
            ("from_cols_array", Box::new(mk)),
            ("from_cols", Box::new(move |e| mat_lay!(@from_cols $N, $T, colv, e))),
            ("from_cols_array_2d", Box::new(|e| <$T>::from_cols_array_2d(&core::array::from_fn(|c| core::array::from_fn(|r| e[c * $N + r]))))),
            ("from_cols_slice", Box::new(|e| <$T>::from_cols_slice(e))),
            ("from_cols_slice(longer, offset)", Box::new(|e| { let mut v = vec![tag::<$S>(28)]; v.extend_from_slice(e); v.push(tag::<$S>(30)); <$T>::from_cols_slice(&v[1..]) })),
            ("from_cols_slice(longer)", Box::new(|e| { let mut v = e.to_vec(); v.push(tag::<$S>(30)); v.push(tag::<$S>(31)); <$T>::from_cols_slice(&v) })),
            ("col_mut writes", Box::new(|e| { let mut m = <$T>::ZERO; for c in 0..$N { for r in 0..$N { m.col_mut(c)[r] = e[c * $N + r]; } } m })),
            ("axis field writes", Box::new(move |e| { let mut m = <$T>::IDENTITY; mat_lay!(@axes $N, m, colv, e); m })),
        ];
        let mut readers: Vec<(&'static str, Box<dyn Fn(&$T) -> Vec<$S>>)> = vec![
            ("to_cols_array", Box::new(|m| m.to_cols_array().to_vec())),
            ("to_cols_array_2d", Box::new(|m| m.to_cols_array_2d().iter().flat_map(|c| c.iter().copied()).collect())),
            ("write_cols_to_slice", Box::new(|m| { let mut b = vec![tag::<$S>(29); $NN]; m.write_cols_to_slice(&mut b); b })),
            // a destination longer than the matrix, starting off a 16-byte boundary: the first N*N elements, column 0 first
            ("write_cols_to_slice(longer, offset)", Box::new(|m| { let mut b = vec![tag::<$S>(29); $NN + 5]; m.write_cols_to_slice(&mut b[1..]); b[1..$NN + 1].to_vec() })),
            ("col(c)[r]", Box::new(|m| (0..$NN).map(|k| m.col(k / $N)[k % $N]).collect())),
            ("row(r)[c]", Box::new(|m| (0..$NN).map(|k| m.row(k % $N)[k / $N]).collect())),
            ("axis fields", Box::new(|m| mat_lay!(@read_axes $N, m))),
        ];
        mat_lay!(@asref $asref, $T, $S, $N, $NN, writers, readers);
        LayApi::<$S, $T> {
            name: stringify!($T),
            cols: $N,
            rows: $N,
            writers,
            readers,
            transpose: Some(Box::new(|m| m.transpose())),
            from_diagonal: Some(Box::new(|d| mat_lay!(@diag $N, $T, $S, d))),
            col_oob: vec![
                ("col", Box::new(|m, i| m.col(i)[0])),
                ("row", Box::new(|m, i| m.row(i)[0])),
                ("col_mut", Box::new(|m, i| { let mut mm = *m; mm.col_mut(i)[0] })),
            ],
        }
    }};
    (@from_cols 2, $T:ident, $colv:ident, $e:ident) => { <$T>::from_cols($colv($e, 0), $colv($e, 1)) };
    (@from_cols 3, $T:ident, $colv:ident, $e:ident) => { <$T>::from_cols($colv($e, 0), $colv($e, 1), $colv($e, 2)) };
    (@from_cols 4, $T:ident, $colv:ident, $e:ident) => { <$T>::from_cols($colv($e, 0), $colv($e, 1), $colv($e, 2), $colv($e, 3)) };
    (@axes 2, $m:ident, $colv:ident, $e:ident) => { $m.x_axis = $colv($e, 0); $m.y_axis = $colv($e, 1); };
    (@axes 3, $m:ident, $colv:ident, $e:ident) => { $m.x_axis = $colv($e, 0); $m.y_axis = $colv($e, 1); $m.z_axis = $colv($e, 2); };
    (@axes 4, $m:ident, $colv:ident, $e:ident) => { $m.x_axis = $colv($e, 0); $m.y_axis = $colv($e, 1); $m.z_axis = $colv($e, 2); $m.w_axis = $colv($e, 3); };
    (@read_axes 2, $m:ident) => { [$m.x_axis.to_array(), $m.y_axis.to_array()].concat() };
    (@read_axes 3, $m:ident) => { [$m.x_axis.to_array(), $m.y_axis.to_array(), $m.z_axis.to_array()].concat() };
    (@read_axes 4, $m:ident) => { [$m.x_axis.to_array(), $m.y_axis.to_array(), $m.z_axis.to_array(), $m.w_axis.to_array()].concat() };
    (@diag 2, $T:ident, $S:ty, $d:ident) => { <$T>::from_diagonal(glam::$T::IDENTITY.col(0).with_x($d[0]).with_y($d[1])) };
    (@diag 3, $T:ident, $S:ty, $d:ident) => { <$T>::from_diagonal({ let a: [$S; 3] = [$d[0], $d[1], $d[2]]; a.into() }) };
    (@diag 4, $T:ident, $S:ty, $d:ident) => { <$T>::from_diagonal({ let a: [$S; 4] = [$d[0], $d[1], $d[2], $d[3]]; a.into() }) };
    (@asref yes, $T:ident, $S:ty, $N:tt, $NN:expr, $w:ident, $r:ident) => {
        $w.push(("AsMut writes", Box::new(|e| { let mut m = <$T>::ZERO; let a: &mut [$S; $NN] = m.as_mut(); for k in 0..$NN { a[k] = e[k]; } m })));
        $r.push(("AsRef", Box::new(|m| { let a: &[$S; $NN] = m.as_ref(); a.to_vec() })));
    };
    (@asref no, $T:ident, $S:ty, $N:tt, $NN:expr, $w:ident, $r:ident) => {};
}

macro_rules! aff_lay {
    ($T:ident, $S:ty, $C:tt, $R:expr, $NN:expr, $V:ident, $lin:ident) => {{
        let colv = |e: &[$S], c: usize| -> $V { crate::gen::mkv(core::array::from_fn(|r| e[c * $R + r])) };
        LayApi::<$S, $T> {
            name: stringify!($T),
            cols: $C,
            rows: $R,
            writers: vec![
                ("from_cols_array", Box::new(|e| <$T>::from_cols_array(&core::array::from_fn(|k| e[k])))),
                ("from_cols", Box::new(move |e| aff_lay!(@from_cols $C, $T, colv, e))),
                ("from_cols_array_2d", Box::new(|e| <$T>::from_cols_array_2d(&core::array::from_fn(|c| core::array::from_fn(|r| e[c * $R + r]))))),
                ("from_cols_slice", Box::new(|e| <$T>::from_cols_slice(e))),
                ("from_cols_slice(longer, offset)", Box::new(|e| { let mut v = vec![tag::<$S>(28)]; v.extend_from_slice(e); v.push(tag::<$S>(30)); <$T>::from_cols_slice(&v[1..]) })),
                ("field writes", Box::new(move |e| { let mut a = <$T>::IDENTITY; for c in 0..($C - 1) { *a.$lin.col_mut(c) = colv(e, c).into(); } a.translation = colv(e, $C - 1).into(); a })),
            ],
            readers: vec![
                ("to_cols_array", Box::new(|m| m.to_cols_array().to_vec())),
                ("to_cols_array_2d", Box::new(|m| m.to_cols_array_2d().iter().flat_map(|c| c.iter().copied()).collect())),
                ("write_cols_to_slice", Box::new(|m| { let mut b = vec![tag::<$S>(29); $NN]; m.write_cols_to_slice(&mut b); b })),
                // a destination longer than the matrix, starting off a 16-byte boundary: the first N*N elements, column 0 first
                ("write_cols_to_slice(longer, offset)", Box::new(|m| { let mut b = vec![tag::<$S>(29); $NN + 5]; m.write_cols_to_slice(&mut b[1..]); b[1..$NN + 1].to_vec() })),
                ("fields", Box::new(|m| { let mut v: Vec<$S> = Vec::new(); for c in 0..($C - 1) { let col = m.$lin.col(c); for r in 0..$R { v.push(col[r]); } } for r in 0..$R { v.push(m.translation[r]); } v })),
            ],
            transpose: None,
            from_diagonal: None,
            col_oob: vec![],
        }
    }};
    (@from_cols 3, $T:ident, $colv:ident, $e:ident) => { <$T>::from_cols($colv($e, 0), $colv($e, 1), $colv($e, 2)) };
    (@from_cols 4, $T:ident, $colv:ident, $e:ident) => { <$T>::from_cols($colv($e, 0), $colv($e, 1), $colv($e, 2), $colv($e, 3)) };
}

fn minors(mon: &mut Monitor) {
    macro_rules! minor {
        ($name:expr, $S:ty, $Big:ident, $BN:expr, $Small:ident, $call:expr) => {
            if let Some(mut c) = mon.begin($name, "minor constructor") {
                let n: usize = $BN;
                let e: [$S; $BN * $BN] = core::array::from_fn(|k| tag::<$S>(k + 2));
                let big = <$Big>::from_cols_array(&e);
                for i in 0..n + 3 {
                    for j in 0..n + 3 {
                        let f: &dyn Fn(&$Big, usize, usize) -> $Small = &$call;
                        let r = catch_unwind(AssertUnwindSafe(|| f(&big, i, j).to_cols_array().to_vec()));
                        c.event((i * 8 + j) as u64, i < n && j < n);
                        if i >= n || j >= n {
                            if r.is_ok() {
                                c.violation("missing_panic", &[], format!("i={} j={}", i, j), format!("{:?}", r.ok()), "panic".into(), "out-of-range minor index must panic".into());
                            } else {
                                c.st.panics_expected += 1;
                            }
                            continue;
                        }
                        // expected: drop column i and row j
                        let mut ex: Vec<$S> = Vec::new();
                        for col in 0..n {
                            if col == i { continue; }
                            for row in 0..n {
                                if row == j { continue; }
                                ex.push(e[col * n + row]);
                            }
                        }
                        match r {
                            Ok(g) => {
                                if !bits_eq(&g, &ex) {
                                    c.violation("layout_mismatch", &["minor"], format!("i={} j={} of {}", i, j, show(&e)), show(&g), show(&ex), "minor must drop exactly column i and row j".into());
                                }
                            }
                            Err(_) => c.violation("unexpected_panic", &[], format!("i={} j={}", i, j), "panic".into(), String::new(), String::new()),
                        }
                    }
                }
                c.sample(format!("{}: all (i, j) in 0..N+2 squared", $name));
                mon.end(c);
                if !mon.scratch { mon.exhaustive.push(format!("{}: all index pairs (i, j) incl. out-of-range", $name)); }
            }
        };
    }
    minor!("Mat2::from_mat3_minor", f32, Mat3, 3, Mat2, |m, i, j| Mat2::from_mat3_minor(*m, i, j));
    minor!("Mat2::from_mat3a_minor", f32, Mat3A, 3, Mat2, |m, i, j| Mat2::from_mat3a_minor(*m, i, j));
    minor!("Mat3::from_mat4_minor", f32, Mat4, 4, Mat3, |m, i, j| Mat3::from_mat4_minor(*m, i, j));
    minor!("Mat3A::from_mat4_minor", f32, Mat4, 4, Mat3A, |m, i, j| Mat3A::from_mat4_minor(*m, i, j));
    minor!("DMat2::from_mat3_minor", f64, DMat3, 3, DMat2, |m, i, j| DMat2::from_mat3_minor(*m, i, j));
    minor!("DMat3::from_mat4_minor", f64, DMat4, 4, DMat3, |m, i, j| DMat3::from_mat4_minor(*m, i, j));
}

/// affine: transform_point = linear*p + translation; transform_vector ignores translation (bit-for-bit)
fn affine_laws(mon: &mut Monitor) {
    let iters = mon.n(4_000, 400_000);
    macro_rules! aff3 {
        ($name:expr, $S:ty, $A:ident, $V:ident, $eps:expr) => {
            if let Some(mut c) = mon.begin($name, "transform_point/vector vs linear*p + translation") {
                let mut rng = Rng::new(mon.op_seed($name, "aff"));
                for it in 0..iters {
                    let e: [$S; 12] = core::array::from_fn(|_| rng.logmag(-6.0, 6.0) as $S);
                    let a = <$A>::from_cols_array(&e);
                    let p = <$V>::new(rng.logmag(-6.0, 6.0) as $S, rng.logmag(-6.0, 6.0) as $S, rng.logmag(-6.0, 6.0) as $S);
                    let tp = a.transform_point3(p).to_array();
                    let tv = a.transform_vector3(p).to_array();
                    let pa = p.to_array();
                    c.event(it % 64, true);
                    for r in 0..3 {
                        let (mut lin, mut s) = (<$S as HasR>::r(0.0), 0.0f64);
                        for col in 0..3 {
                            lin = lin + <$S as HasR>::r(e[col * 3 + r]) * <$S as HasR>::r(pa[col]);
                            s += (e[col * 3 + r] as f64 * pa[col] as f64).abs();
                        }
                        let inp = || format!("A={:?} p={:?}", e, pa);
                        hp::<$S>(&mut c, "transform_vector3", tv[r], lin, s, 4.0, &inp);
                        hp::<$S>(&mut c, "transform_point3", tp[r], lin + <$S as HasR>::r(e[9 + r]), s + (e[9 + r] as f64).abs(), 5.0, &inp);
                    }
                    // changing only the translation must not change transform_vector at all
                    let mut e2 = e;
                    e2[9] = tag::<$S>(9 + (it as usize % 8));
                    e2[10] = -e2[10] * 3.0;
                    e2[11] = <$S>::MAX;
                    let tv2 = <$A>::from_cols_array(&e2).transform_vector3(p).to_array();
                    if (0..3).any(|k| tv2[k].to_bits() != tv[k].to_bits()) {
                        c.violation("translation_leak", &[], format!("A={:?} p={:?}", e, pa), format!("{:?}", tv2), format!("{:?}", tv), "transform_vector must ignore the translation".into());
                    }
                }
                c.sample(format!("{}: transform_point3 = linear*p + translation, transform_vector3 independent of translation", $name));
                mon.end(c);
            }
        };
    }
    aff3!("Affine3A", f32, Affine3A, Vec3, f32::EPSILON);
    aff3!("DAffine3", f64, DAffine3, DVec3, f64::EPSILON);
    macro_rules! aff2 {
        ($name:expr, $S:ty, $A:ident, $V:ident) => {
            if let Some(mut c) = mon.begin($name, "transform_point/vector vs linear*p + translation") {
                let mut rng = Rng::new(mon.op_seed($name, "aff"));
                for it in 0..iters {
                    let e: [$S; 6] = core::array::from_fn(|_| rng.logmag(-6.0, 6.0) as $S);
                    let a = <$A>::from_cols_array(&e);
                    let p = <$V>::new(rng.logmag(-6.0, 6.0) as $S, rng.logmag(-6.0, 6.0) as $S);
                    let tp = a.transform_point2(p).to_array();
                    let tv = a.transform_vector2(p).to_array();
                    let pa = p.to_array();
                    c.event(it % 64, true);
                    for r in 0..2 {
                        let (mut lin, mut s) = (<$S as HasR>::r(0.0), 0.0f64);
                        for col in 0..2 {
                            lin = lin + <$S as HasR>::r(e[col * 2 + r]) * <$S as HasR>::r(pa[col]);
                            s += (e[col * 2 + r] as f64 * pa[col] as f64).abs();
                        }
                        let inp = || format!("A={:?} p={:?}", e, pa);
                        hp::<$S>(&mut c, "transform_vector2", tv[r], lin, s, 3.0, &inp);
                        hp::<$S>(&mut c, "transform_point2", tp[r], lin + <$S as HasR>::r(e[4 + r]), s + (e[4 + r] as f64).abs(), 4.0, &inp);
                    }
                    let mut e2 = e;
                    e2[4] = tag::<$S>(9 + (it as usize % 8));
                    e2[5] = <$S>::MAX;
                    let tv2 = <$A>::from_cols_array(&e2).transform_vector2(p).to_array();
                    if (0..2).any(|k| tv2[k].to_bits() != tv[k].to_bits()) {
                        c.violation("translation_leak", &[], format!("A={:?} p={:?}", e, pa), format!("{:?}", tv2), format!("{:?}", tv), "transform_vector must ignore the translation".into());
                    }
                }
                c.sample(format!("{}: transform_point2 = linear*p + translation", $name));
                mon.end(c);
            }
        };
    }
    aff2!("Affine2", f32, Affine2, Vec2);
    aff2!("DAffine2", f64, DAffine2, DVec2);
}

/// Product laws for every matrix / affine type and every mixed pair with an operator: M*v = sum of v[c]*col(c),
/// (A*B)*v = A*(B*v), both against the f64 product of the stored entries (bound (2n+4) eps (|A||B||v|)_r).
fn product_laws(mon: &mut Monitor) {
    let iters = mon.n(600, 60_000);
    struct Case {
        name: &'static str,
        n: usize,
        eps: f64,
        /// which operands are affine (homogeneous last row 0..0 1) and whether v is a point (last entry 1)
        affine: (bool, bool, bool),
        /// (A, B, v as column-major f64 entries of n x n / n) -> ((A*B)*v, A*(B*v), [M*v for M in {A}] , sum v[c]*col_c(A))
        run: Box<dyn Fn(&[f64], &[f64], &[f64]) -> (Vec<f64>, Vec<f64>, Vec<f64>, Vec<f64>)>,
    }
    fn a3<const K: usize>(e: &[f64], idx: [usize; K]) -> [f32; K] { core::array::from_fn(|k| e[idx[k]] as f32) }
    fn d3<const K: usize>(e: &[f64], idx: [usize; K]) -> [f64; K] { core::array::from_fn(|k| e[idx[k]]) }
    const AFF3: [usize; 12] = [0, 1, 2, 4, 5, 6, 8, 9, 10, 12, 13, 14];
    const AFF2: [usize; 6] = [0, 1, 3, 4, 6, 7];
    const ALL16: [usize; 16] = [0, 1, 2, 3, 4, 5, 6, 7, 8, 9, 10, 11, 12, 13, 14, 15];
    const ALL9: [usize; 9] = [0, 1, 2, 3, 4, 5, 6, 7, 8];
    const ALL4: [usize; 4] = [0, 1, 2, 3];
    fn f(v: &[f32]) -> Vec<f64> { v.iter().map(|x| *x as f64).collect() }
    let mut cases: Vec<Case> = vec![];
    macro_rules! sq {
        ($name:expr, $M:ident, $V:ident, $n:expr, $idx:ident, $cv:ident, $eps:expr, $fv:expr) => {
            cases.push(Case { name: $name, n: $n, eps: $eps, affine: (false, false, false), run: Box::new(|a, b, v| {
                let (ma, mb) = (<$M>::from_cols_array(&$cv(a, $idx)), <$M>::from_cols_array(&$cv(b, $idx)));
                let vv: $V = crate::gen::mkv($cv(v, core::array::from_fn::<usize, $n, _>(|k| k)));
                let mut sum = <$V>::ZERO;
                for c in 0..$n { sum += <$V>::from(ma.col(c)) * vv[c]; }
                ($fv(((ma * mb) * vv).to_array().as_slice()), $fv((ma * (mb * vv)).to_array().as_slice()), $fv((ma * vv).to_array().as_slice()), $fv(sum.to_array().as_slice()))
            }) });
        };
    }
    fn idf(v: &[f64]) -> Vec<f64> { v.to_vec() }
    sq!("Mat2", Mat2, Vec2, 2, ALL4, a3, f32::EPSILON as f64, f);
    sq!("Mat3", Mat3, Vec3, 3, ALL9, a3, f32::EPSILON as f64, f);
    sq!("Mat3 (Vec3A)", Mat3, Vec3A, 3, ALL9, a3, f32::EPSILON as f64, f);
    sq!("Mat3A", Mat3A, Vec3A, 3, ALL9, a3, f32::EPSILON as f64, f);
    sq!("Mat4", Mat4, Vec4, 4, ALL16, a3, f32::EPSILON as f64, f);
    sq!("DMat2", DMat2, DVec2, 2, ALL4, d3, f64::EPSILON, idf);
    sq!("DMat3", DMat3, DVec3, 3, ALL9, d3, f64::EPSILON, idf);
    sq!("DMat4", DMat4, DVec4, 4, ALL16, d3, f64::EPSILON, idf);
    // Mat3A * Vec3 exists too
    cases.push(Case { name: "Mat3A (Vec3)", n: 3, eps: f32::EPSILON as f64, affine: (false, false, false), run: Box::new(|a, b, v| {
        let (ma, mb) = (Mat3A::from_cols_array(&a3(a, ALL9)), Mat3A::from_cols_array(&a3(b, ALL9)));
        let vv = Vec3::from_array(a3(v, [0, 1, 2]));
        let mut sum = Vec3::ZERO;
        for c in 0..3 { sum += Vec3::from(ma.col(c)) * vv[c]; }
        (f(&((ma * mb) * vv).to_array()), f(&(ma * (mb * vv)).to_array()), f(&(ma * vv).to_array()), f(&sum.to_array()))
    }) });
    // affine x affine, acting on points and vectors
    macro_rules! aff {
        ($name:expr, $A:ident, $V:ident, $n:expr, $idx:ident, $cv:ident, $eps:expr, $fv:expr, $tp:ident, $pidx:expr, $point:expr) => {
            cases.push(Case { name: $name, n: $n, eps: $eps, affine: (true, true, $point), run: Box::new(|a, b, v| {
                let (ma, mb) = (<$A>::from_cols_array(&$cv(a, $idx)), <$A>::from_cols_array(&$cv(b, $idx)));
                let vv: $V = crate::gen::mkv($cv(v, $pidx));
                let pad = |mut x: Vec<f64>| { x.push(if $point { 1.0 } else { 0.0 }); x };
                (pad($fv((ma * mb).$tp(vv).to_array().as_slice())), pad($fv(ma.$tp(mb.$tp(vv)).to_array().as_slice())), pad($fv(ma.$tp(vv).to_array().as_slice())), vec![])
            }) });
        };
    }
    aff!("Affine3A points", Affine3A, Vec3, 4, AFF3, a3, f32::EPSILON as f64, f, transform_point3, [0, 1, 2], true);
    aff!("Affine3A vectors", Affine3A, Vec3, 4, AFF3, a3, f32::EPSILON as f64, f, transform_vector3, [0, 1, 2], false);
    aff!("Affine3A points (Vec3A)", Affine3A, Vec3A, 4, AFF3, a3, f32::EPSILON as f64, f, transform_point3a, [0, 1, 2], true);
    aff!("Affine3A vectors (Vec3A)", Affine3A, Vec3A, 4, AFF3, a3, f32::EPSILON as f64, f, transform_vector3a, [0, 1, 2], false);
    aff!("DAffine3 points", DAffine3, DVec3, 4, AFF3, d3, f64::EPSILON, idf, transform_point3, [0, 1, 2], true);
    aff!("DAffine3 vectors", DAffine3, DVec3, 4, AFF3, d3, f64::EPSILON, idf, transform_vector3, [0, 1, 2], false);
    aff!("Affine2 points", Affine2, Vec2, 3, AFF2, a3, f32::EPSILON as f64, f, transform_point2, [0, 1], true);
    aff!("Affine2 vectors", Affine2, Vec2, 3, AFF2, a3, f32::EPSILON as f64, f, transform_vector2, [0, 1], false);
    aff!("DAffine2 points", DAffine2, DVec2, 3, AFF2, d3, f64::EPSILON, idf, transform_point2, [0, 1], true);
    aff!("DAffine2 vectors", DAffine2, DVec2, 3, AFF2, d3, f64::EPSILON, idf, transform_vector2, [0, 1], false);
    // mixed pairs: the product is a full matrix acting on homogeneous vectors
    macro_rules! mixed {
        ($name:expr, $n:expr, $eps:expr, $fv:expr, $affa:expr, $affb:expr, |$a:ident, $b:ident, $v:ident| $mka:expr, $mkb:expr, $mkv:expr) => {
            cases.push(Case { name: $name, n: $n, eps: $eps, affine: ($affa, $affb, false), run: Box::new(|$a, $b, $v| {
                let (ma, mb, vv) = ($mka, $mkb, $mkv);
                ($fv(((ma * mb) * vv).to_array().as_slice()), vec![], vec![], vec![])
            }) });
        };
    }
    mixed!("Affine3A * Mat4", 4, f32::EPSILON as f64, f, true, false, |a, b, v| Affine3A::from_cols_array(&a3(a, AFF3)), Mat4::from_cols_array(&a3(b, ALL16)), Vec4::from_array(a3(v, ALL4)));
    mixed!("Mat4 * Affine3A", 4, f32::EPSILON as f64, f, false, true, |a, b, v| Mat4::from_cols_array(&a3(a, ALL16)), Affine3A::from_cols_array(&a3(b, AFF3)), Vec4::from_array(a3(v, ALL4)));
    mixed!("DAffine3 * DMat4", 4, f64::EPSILON, idf, true, false, |a, b, v| DAffine3::from_cols_array(&d3(a, AFF3)), DMat4::from_cols_array(&d3(b, ALL16)), DVec4::from_array(d3(v, ALL4)));
    mixed!("DMat4 * DAffine3", 4, f64::EPSILON, idf, false, true, |a, b, v| DMat4::from_cols_array(&d3(a, ALL16)), DAffine3::from_cols_array(&d3(b, AFF3)), DVec4::from_array(d3(v, ALL4)));
    mixed!("Affine2 * Mat3", 3, f32::EPSILON as f64, f, true, false, |a, b, v| Affine2::from_cols_array(&a3(a, AFF2)), Mat3::from_cols_array(&a3(b, ALL9)), Vec3::from_array(a3(v, [0, 1, 2])));
    mixed!("Mat3 * Affine2", 3, f32::EPSILON as f64, f, false, true, |a, b, v| Mat3::from_cols_array(&a3(a, ALL9)), Affine2::from_cols_array(&a3(b, AFF2)), Vec3::from_array(a3(v, [0, 1, 2])));
    mixed!("Affine2 * Mat3A", 3, f32::EPSILON as f64, f, true, false, |a, b, v| Affine2::from_cols_array(&a3(a, AFF2)), Mat3A::from_cols_array(&a3(b, ALL9)), Vec3A::from_array(a3(v, [0, 1, 2])));
    mixed!("Mat3A * Affine2", 3, f32::EPSILON as f64, f, false, true, |a, b, v| Mat3A::from_cols_array(&a3(a, ALL9)), Affine2::from_cols_array(&a3(b, AFF2)), Vec3A::from_array(a3(v, [0, 1, 2])));
    mixed!("DAffine2 * DMat3", 3, f64::EPSILON, idf, true, false, |a, b, v| DAffine2::from_cols_array(&d3(a, AFF2)), DMat3::from_cols_array(&d3(b, ALL9)), DVec3::from_array(d3(v, [0, 1, 2])));
    mixed!("DMat3 * DAffine2", 3, f64::EPSILON, idf, false, true, |a, b, v| DMat3::from_cols_array(&d3(a, ALL9)), DAffine2::from_cols_array(&d3(b, AFF2)), DVec3::from_array(d3(v, [0, 1, 2])));

    for case in &cases {
        if let Some(mut c) = mon.begin(case.name, "M*v = sum v[c]*col(c), (A*B)*v = A*(B*v)") {
            let mut rng = Rng::new(mon.op_seed(case.name, "product laws"));
            let n = case.n;
            let f32ty = case.eps > 1e-10;
            for it in 0..iters {
                let span = [0.0, 2.0, 6.0][(it % 3) as usize];
                let mut gen = |aff: bool, r: &mut Rng| -> Vec<f64> {
                    (0..n * n).map(|k| {
                        let (col, row) = (k / n, k % n);
                        if aff && row == n - 1 { if col == n - 1 { 1.0 } else { 0.0 } } else {
                            let x = r.logmag(-span, span) * if r.bool() { 1.0 } else { -1.0 };
                            if f32ty { x as f32 as f64 } else { x }
                        }
                    }).collect()
                };
                let (a, b) = (gen(case.affine.0, &mut rng), gen(case.affine.1, &mut rng));
                let any_aff = case.affine.0 && case.affine.1;
                let v: Vec<f64> = (0..n).map(|k| if any_aff && k == n - 1 { if case.affine.2 { 1.0 } else { 0.0 } } else { let x = rng.logmag(-span, span) * if rng.bool() { 1.0 } else { -1.0 }; if f32ty { x as f32 as f64 } else { x } }).collect();
                let (lhs, rhs, mv, colsum) = (case.run)(&a, &b, &v);
                c.event(it % 3 + 3 * (n as u64), true);
                let at = |m: &[f64], r: usize, cc: usize| m[cc * n + r];
                // exact-ish references in f64 (inputs are f32 values for the f32 types; for f64 types the bound covers the reference's own rounding)
                let bv: Vec<f64> = (0..n).map(|r| (0..n).map(|k| at(&b, r, k) * v[k]).sum()).collect();
                let abv: Vec<f64> = (0..n).map(|r| (0..n).map(|k| at(&a, r, k) * bv[k]).sum()).collect();
                let sbv: Vec<f64> = (0..n).map(|r| (0..n).map(|k| (at(&b, r, k) * v[k]).abs()).sum()).collect();
                let sabv: Vec<f64> = (0..n).map(|r| (0..n).map(|k| at(&a, r, k).abs() * sbv[k]).sum()).collect();
                let av: Vec<f64> = (0..n).map(|r| (0..n).map(|k| at(&a, r, k) * v[k]).sum()).collect();
                let sav: Vec<f64> = (0..n).map(|r| (0..n).map(|k| (at(&a, r, k) * v[k]).abs()).sum()).collect();
                let kk = (2 * n + 4) as f64;
                let inp = || format!("A={:?} B={:?} v={:?}", a, b, v);
                let mut cmp = |c: &mut OpCtx, what: &'static str, got: &[f64], want: &[f64], scale: &[f64]| {
                    for r in 0..got.len().min(n) {
                        let tol = kk * case.eps * scale[r] + 1e-300;
                        let e = (got[r] - want[r]).abs();
                        c.ratio_t(what, e / tol);
                        if !(e <= tol) {
                            if c.wants_witness("product_law", &[what]) { c.violation("product_law", &[what], inp(), format!("{:?}", got), format!("{:?}", want), format!("row {}", r)); } else { c.st.violations += 1; }
                            break;
                        }
                    }
                };
                cmp(&mut c, "(A*B)*v", &lhs, &abv, &sabv);
                if !rhs.is_empty() { cmp(&mut c, "A*(B*v)", &rhs, &abv, &sabv); }
                if !mv.is_empty() { cmp(&mut c, "A*v", &mv, &av, &sav); }
                if !colsum.is_empty() { cmp(&mut c, "sum v[c]*col(c)", &colsum, &av, &sav); }
            }
            c.sample(format!("{}: (A*B)*v, A*(B*v), A*v and sum v[c]*col(c) against the f64 products of the stored entries", case.name));
            mon.end(c);
        }
    }
}

/// free constructor functions (mat2, mat3, mat3a, mat4 and f64 forms) and the axis fields reached through Deref
fn free_fns_and_fields(mon: &mut Monitor) {
    if let Some(mut c) = mon.begin("free constructors / axis fields", "columns in order") {
        let e: Vec<f32> = (0..16).map(|k| tag::<f32>(8 + k)).collect();
        let d: Vec<f64> = (0..16).map(|k| tag::<f64>(8 + k)).collect();
        let v2 = |k: usize| Vec2::new(e[k], e[k + 1]);
        let v3 = |k: usize| Vec3::new(e[k], e[k + 1], e[k + 2]);
        let v3a = |k: usize| Vec3A::new(e[k], e[k + 1], e[k + 2]);
        let v4 = |k: usize| Vec4::new(e[k], e[k + 1], e[k + 2], e[k + 3]);
        let checks: Vec<(&'static str, Vec<u64>, Vec<u64>)> = vec![
            ("mat2()", mat2(v2(0), v2(2)).to_cols_array().iter().map(|x| x.to_bits() as u64).collect(), e[..4].iter().map(|x| x.to_bits() as u64).collect()),
            ("mat3()", mat3(v3(0), v3(3), v3(6)).to_cols_array().iter().map(|x| x.to_bits() as u64).collect(), e[..9].iter().map(|x| x.to_bits() as u64).collect()),
            ("mat3a()", mat3a(v3a(0), v3a(3), v3a(6)).to_cols_array().iter().map(|x| x.to_bits() as u64).collect(), e[..9].iter().map(|x| x.to_bits() as u64).collect()),
            ("mat4()", mat4(v4(0), v4(4), v4(8), v4(12)).to_cols_array().iter().map(|x| x.to_bits() as u64).collect(), e[..16].iter().map(|x| x.to_bits() as u64).collect()),
            ("dmat2()", dmat2(DVec2::new(d[0], d[1]), DVec2::new(d[2], d[3])).to_cols_array().iter().map(|x| x.to_bits()).collect(), d[..4].iter().map(|x| x.to_bits()).collect()),
            ("dmat3()", dmat3(DVec3::new(d[0], d[1], d[2]), DVec3::new(d[3], d[4], d[5]), DVec3::new(d[6], d[7], d[8])).to_cols_array().iter().map(|x| x.to_bits()).collect(), d[..9].iter().map(|x| x.to_bits()).collect()),
            ("dmat4()", dmat4(DVec4::new(d[0], d[1], d[2], d[3]), DVec4::new(d[4], d[5], d[6], d[7]), DVec4::new(d[8], d[9], d[10], d[11]), DVec4::new(d[12], d[13], d[14], d[15])).to_cols_array().iter().map(|x| x.to_bits()).collect(), d[..16].iter().map(|x| x.to_bits()).collect()),
            ("Affine3A axis fields", { let a = Affine3A::from_cols_array(&core::array::from_fn(|k| e[k])); [a.x_axis, a.y_axis, a.z_axis, a.w_axis].iter().flat_map(|v| v.to_array()).map(|x| x.to_bits() as u64).collect() }, e[..12].iter().map(|x| x.to_bits() as u64).collect()),
            ("DAffine3 axis fields", { let a = DAffine3::from_cols_array(&core::array::from_fn(|k| d[k])); [a.x_axis, a.y_axis, a.z_axis, a.w_axis].iter().flat_map(|v| v.to_array()).map(|x| x.to_bits()).collect() }, d[..12].iter().map(|x| x.to_bits()).collect()),
            ("Affine2 axis fields", { let a = Affine2::from_cols_array(&core::array::from_fn(|k| e[k])); [a.x_axis, a.y_axis, a.z_axis].iter().flat_map(|v| v.to_array()).map(|x| x.to_bits() as u64).collect() }, e[..6].iter().map(|x| x.to_bits() as u64).collect()),
            ("DAffine2 axis fields", { let a = DAffine2::from_cols_array(&core::array::from_fn(|k| d[k])); [a.x_axis, a.y_axis, a.z_axis].iter().flat_map(|v| v.to_array()).map(|x| x.to_bits()).collect() }, d[..6].iter().map(|x| x.to_bits()).collect()),
            ("Affine3A axis field write", { let mut a = Affine3A::from_cols_array(&core::array::from_fn(|k| e[k])); a.y_axis.z = e[15]; a.w_axis = v3a(13); a.to_cols_array().iter().map(|x| x.to_bits() as u64).collect() }, { let mut w = e[..12].to_vec(); w[5] = e[15]; w[9] = e[13]; w[10] = e[14]; w[11] = e[15]; w.iter().map(|x| x.to_bits() as u64).collect() }),
        ];
        for (nm, got, want) in checks {
            c.event(vcommon::rng::hash_str(nm), true);
            if got != want {
                c.violation("layout", &[nm], nm.into(), format!("{:x?}", got), format!("{:x?}", want), "columns / entries must appear in column-major order, bit-for-bit".into());
            }
        }
        c.sample("mat2()/mat3()/mat3a()/mat4()/dmat*() and the x_axis..w_axis fields of the affine types (read and written through Deref)".into());
        mon.end(c);
    }
}

fn canaries(mon: &mut Monitor) {
    mon.canary("to_cols_array listing rows first", |m| {
        let mut api = mat_lay!(Mat3, f32, 3, 9, Vec3, asref: yes);
        api.readers.push(("bad", Box::new(|mm| mm.transpose().to_cols_array().to_vec())));
        suite(m, &api);
    });
    mon.canary("row(i) returning col(i)", |m| {
        let mut api = mat_lay!(Mat4, f32, 4, 16, Vec4, asref: yes);
        api.readers = vec![("to_cols_array", Box::new(|mm| mm.to_cols_array().to_vec())), ("row(r)[c]", Box::new(|mm| (0..16).map(|k| mm.col(k % 4)[k / 4]).collect()))];
        suite(m, &api);
    });
    mon.canary("from_cols_slice off by one", |m| {
        let mut api = mat_lay!(Mat2, f32, 2, 4, Vec2, asref: yes);
        api.writers.push(("bad", Box::new(|e| Mat2::from_cols_array(&[e[1], e[2], e[3], e[0]]))));
        suite(m, &api);
    });
    mon.canary("write path canonicalising NaN payloads", |m| {
        let mut api = mat_lay!(DMat2, f64, 2, 4, DVec2, asref: yes);
        api.writers.push(("bad", Box::new(|e| DMat2::from_cols_array(&core::array::from_fn(|k| if e[k].is_nan() { f64::NAN } else { e[k] })))));
        suite(m, &api);
    });
}

pub fn run(mon: &mut Monitor) {
    vcommon::mon::quiet_panics();
    canaries(mon);
    suite(mon, &mat_lay!(Mat2, f32, 2, 4, Vec2, asref: yes));
    suite(mon, &mat_lay!(Mat3, f32, 3, 9, Vec3, asref: yes));
    suite(mon, &mat_lay!(Mat3A, f32, 3, 9, Vec3A, asref: no));
    suite(mon, &mat_lay!(Mat4, f32, 4, 16, Vec4, asref: yes));
    suite(mon, &mat_lay!(DMat2, f64, 2, 4, DVec2, asref: yes));
    suite(mon, &mat_lay!(DMat3, f64, 3, 9, DVec3, asref: yes));
    suite(mon, &mat_lay!(DMat4, f64, 4, 16, DVec4, asref: yes));
    suite(mon, &aff_lay!(Affine2, f32, 3, 2, 6, Vec2, matrix2));
    suite(mon, &aff_lay!(Affine3A, f32, 4, 3, 12, Vec3A, matrix3));
    suite(mon, &aff_lay!(DAffine2, f64, 3, 2, 6, DVec2, matrix2));
    suite(mon, &aff_lay!(DAffine3, f64, 4, 3, 12, DVec3, matrix3));
    minors(mon);
    affine_laws(mon);
    product_laws(mon);
    free_fns_and_fields(mon);
}

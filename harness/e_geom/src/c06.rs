//! C06: column-vector, column-major conventions hold across every accessor and product.

use crate::hp::*;
use glam::*;
use std::panic::{catch_unwind, AssertUnwindSafe};
use vcommon::fl::Fl;
use vcommon::mon::*;
use vcommon::rng::Rng;

/// pairwise distinct tagged bit patterns incl. NaN payloads, -0, subnormal
pub fn tag<S: Fl>(i: usize) -> S {
    if S::NAME == "f32" {
        let t: [u32; 8] = [0x8000_0000, 0x7fc1_2345, 0x7fa0_0001, 0xffc0_0077, 0x0000_0001, 0x7f80_0000, 0xff80_0000, 0x0000_0000];
        if i < 8 { S::from_bits64(t[i] as u64) } else { S::of(i as f64 * 1.25 + 0.0625) }
    } else {
        let t: [u64; 8] = [0x8000_0000_0000_0000, 0x7ff8_1234_5678_9abc, 0x7ff4_0000_0000_0001, 0xfff8_0000_0000_0077, 0x1, 0x7ff0_0000_0000_0000, 0xfff0_0000_0000_0000, 0x0];
        if i < 8 { S::from_bits64(t[i]) } else { S::of(i as f64 * 1.25 + 0.0625) }
    }
}

pub struct LayApi<S: Fl, T> {
    pub name: &'static str,
    pub cols: usize,
    pub rows: usize,
    /// build from a column-major flat entry list
    pub writers: Vec<(&'static str, Box<dyn Fn(&[S]) -> T>)>,
    /// read back to a column-major flat entry list
    pub readers: Vec<(&'static str, Box<dyn Fn(&T) -> Vec<S>>)>,
    pub transpose: Option<Box<dyn Fn(&T) -> T>>,
    /// (cols of the result when built from a diagonal) from_diagonal(diag) -> T
    pub from_diagonal: Option<Box<dyn Fn(&[S]) -> T>>,
    pub col_oob: Vec<(&'static str, Box<dyn Fn(&T, usize) -> S>)>,
}

fn bits_eq<S: Fl>(a: &[S], b: &[S]) -> bool {
    a.len() == b.len() && a.iter().zip(b).all(|(x, y)| x.bits() == y.bits())
}

pub fn suite<S: Fl, T>(mon: &mut Monitor, api: &LayApi<S, T>) {
    let ty = api.name;
    let (nc, nr) = (api.cols, api.rows);
    let n = nc * nr;
    let rounds = mon.n(40, 4000);
    if let Some(mut c) = mon.begin(ty, "write-path x read-path (tagged entries)") {
        let mut rng = Rng::new(mon.op_seed(ty, "lay"));
        for round in 0..rounds {
            let e: Vec<S> = (0..n).map(|k| if round < 8 { tag::<S>((k + round as usize * 5) % 24) } else { S::random_bits(&mut rng) }).collect();
            for (wn, w) in &api.writers {
                let t = w(&e);
                for (rn, r) in &api.readers {
                    let got = r(&t);
                    c.event(vcommon::rng::hash_str(wn) ^ vcommon::rng::hash_str(rn).rotate_left(13), round < 8);
                    if !bits_eq(&got, &e) {
                        // locate the first wrong (r, c)
                        let k = (0..n.min(got.len())).find(|k| got[*k].bits() != e[*k].bits()).unwrap_or(0);
                        if c.wants_witness("layout_mismatch", &[wn, rn]) {
                            c.violation("layout_mismatch", &[wn, rn], format!("entries(col-major)={}", show(&e)), show(&got), show(&e), format!("written through {}, read through {}: entry (row {}, col {}) differs", wn, rn, k % nr, k / nr));
                        } else {
                            c.st.violations += 1;
                        }
                    } else if c.need_sample() && round == 0 {
                        c.sample(format!("{}: {} -> {} round trip of {}", ty, wn, rn, show(&e)));
                    }
                }
                if let Some(tr) = &api.transpose {
                    let tt = tr(&t);
                    let got = (api.readers[0].1)(&tt);
                    let mut ex = e.clone();
                    for col in 0..nc {
                        for row in 0..nr {
                            ex[col * nr + row] = e[row * nr + col];
                        }
                    }
                    if !bits_eq(&got, &ex) {
                        c.violation("layout_mismatch", &["transpose"], show(&e), show(&got), show(&ex), "transpose swaps rows and columns exactly".into());
                    }
                }
            }
        }
        mon.end(c);
        if !mon.scratch {
            mon.exhaustive.push(format!("{}: every ordered pair of {} write paths x {} read paths, every (row, col)", ty, api.writers.len(), api.readers.len()));
        }
    }
    if let Some(fd) = &api.from_diagonal {
        if let Some(mut c) = mon.begin(ty, "from_diagonal") {
            for round in 0..8 {
                let d: Vec<S> = (0..nc).map(|k| tag::<S>((k + round * 3) % 24)).collect();
                let t = fd(&d);
                let got = (api.readers[0].1)(&t);
                c.event(round as u64, true);
                for col in 0..nc {
                    for row in 0..nr {
                        let e = if col == row { d[col] } else { S::ZERO };
                        if got[col * nr + row].bits() != e.bits() {
                            c.violation("layout_mismatch", &["from_diagonal"], show(&d), show(&got), String::new(), format!("entry ({}, {})", row, col));
                        }
                    }
                }
            }
            c.sample(format!("{}::from_diagonal puts its argument on the diagonal and +0 elsewhere", ty));
            mon.end(c);
        }
    }
    if !api.col_oob.is_empty() {
        if let Some(mut c) = mon.begin(ty, "col/row index range") {
            let e: Vec<S> = (0..n).map(|k| tag::<S>(k + 8)).collect();
            let t = (api.writers[0].1)(&e);
            for (nm, f) in &api.col_oob {
                for i in [nc, nc + 1, nc + 2, usize::MAX] {
                    let r = catch_unwind(AssertUnwindSafe(|| f(&t, i)));
                    c.event(i as u64 & 7, true);
                    if r.is_ok() {
                        c.violation("missing_panic", &[nm], format!("index {}", i), format!("{:?}", r.ok()), "panic".into(), "out-of-range index must panic".into());
                    } else {
                        c.st.panics_expected += 1;
                    }
                }
            }
            c.sample(format!("{}: col/col_mut/row with indices N..N+2 and usize::MAX must panic", ty));
            mon.end(c);
        }
    }
}

macro_rules! mat_lay {
    // square matrix with N columns of vector type V
    ($T:ident, $S:ty, $N:tt, $NN:expr, $V:ident, asref: $asref:tt) => {{
        let mk = |e: &[$S]| -> $T { <$T>::from_cols_array(&core::array::from_fn(|k| e[k])) };
        let colv = |e: &[$S], c: usize| -> $V { <$V>::from_array(core::array::from_fn(|r| e[c * $N + r])) };
        let mut writers: Vec<(&'static str, Box<dyn Fn(&[$S]) -> $T>)> = vec![
            ("from_cols_array", Box::new(mk)),
            ("from_cols", Box::new(move |e| mat_lay!(@from_cols $N, $T, colv, e))),
            ("from_cols_array_2d", Box::new(|e| <$T>::from_cols_array_2d(&core::array::from_fn(|c| core::array::from_fn(|r| e[c * $N + r]))))),
            ("from_cols_slice", Box::new(|e| <$T>::from_cols_slice(e))),
            ("from_cols_slice(longer)", Box::new(|e| { let mut v = e.to_vec(); v.push(tag::<$S>(30)); v.push(tag::<$S>(31)); <$T>::from_cols_slice(&v) })),
            ("col_mut writes", Box::new(|e| { let mut m = <$T>::ZERO; for c in 0..$N { for r in 0..$N { m.col_mut(c)[r] = e[c * $N + r]; } } m })),
            ("axis field writes", Box::new(move |e| { let mut m = <$T>::IDENTITY; mat_lay!(@axes $N, m, colv, e); m })),
        ];
        let mut readers: Vec<(&'static str, Box<dyn Fn(&$T) -> Vec<$S>>)> = vec![
            ("to_cols_array", Box::new(|m| m.to_cols_array().to_vec())),
            ("to_cols_array_2d", Box::new(|m| m.to_cols_array_2d().iter().flat_map(|c| c.iter().copied()).collect())),
            ("write_cols_to_slice", Box::new(|m| { let mut b = vec![tag::<$S>(29); $NN]; m.write_cols_to_slice(&mut b); b })),
            ("col(c)[r]", Box::new(|m| (0..$NN).map(|k| m.col(k / $N)[k % $N]).collect())),
            ("row(r)[c]", Box::new(|m| (0..$NN).map(|k| m.row(k % $N)[k / $N]).collect())),
            ("axis fields", Box::new(|m| mat_lay!(@read_axes $N, m))),
        ];
        mat_lay!(@asref $asref, $T, $S, $N, $NN, writers, readers);
        LayApi::<$S, $T> {
            name: stringify!($T),
            cols: $N,
            rows: $N,
            writers,
            readers,
            transpose: Some(Box::new(|m| m.transpose())),
            from_diagonal: Some(Box::new(|d| mat_lay!(@diag $N, $T, $S, d))),
            col_oob: vec![
                ("col", Box::new(|m, i| m.col(i)[0])),
                ("row", Box::new(|m, i| m.row(i)[0])),
                ("col_mut", Box::new(|m, i| { let mut mm = *m; mm.col_mut(i)[0] })),
            ],
        }
    }};
    (@from_cols 2, $T:ident, $colv:ident, $e:ident) => { <$T>::from_cols($colv($e, 0), $colv($e, 1)) };
    (@from_cols 3, $T:ident, $colv:ident, $e:ident) => { <$T>::from_cols($colv($e, 0), $colv($e, 1), $colv($e, 2)) };
    (@from_cols 4, $T:ident, $colv:ident, $e:ident) => { <$T>::from_cols($colv($e, 0), $colv($e, 1), $colv($e, 2), $colv($e, 3)) };
    (@axes 2, $m:ident, $colv:ident, $e:ident) => { $m.x_axis = $colv($e, 0); $m.y_axis = $colv($e, 1); };
    (@axes 3, $m:ident, $colv:ident, $e:ident) => { $m.x_axis = $colv($e, 0); $m.y_axis = $colv($e, 1); $m.z_axis = $colv($e, 2); };
    (@axes 4, $m:ident, $colv:ident, $e:ident) => { $m.x_axis = $colv($e, 0); $m.y_axis = $colv($e, 1); $m.z_axis = $colv($e, 2); $m.w_axis = $colv($e, 3); };
    (@read_axes 2, $m:ident) => { [$m.x_axis.to_array(), $m.y_axis.to_array()].concat() };
    (@read_axes 3, $m:ident) => { [$m.x_axis.to_array(), $m.y_axis.to_array(), $m.z_axis.to_array()].concat() };
    (@read_axes 4, $m:ident) => { [$m.x_axis.to_array(), $m.y_axis.to_array(), $m.z_axis.to_array(), $m.w_axis.to_array()].concat() };
    (@diag 2, $T:ident, $S:ty, $d:ident) => { <$T>::from_diagonal(glam::$T::IDENTITY.col(0).with_x($d[0]).with_y($d[1])) };
    (@diag 3, $T:ident, $S:ty, $d:ident) => { <$T>::from_diagonal({ let a: [$S; 3] = [$d[0], $d[1], $d[2]]; a.into() }) };
    (@diag 4, $T:ident, $S:ty, $d:ident) => { <$T>::from_diagonal({ let a: [$S; 4] = [$d[0], $d[1], $d[2], $d[3]]; a.into() }) };
    (@asref yes, $T:ident, $S:ty, $N:tt, $NN:expr, $w:ident, $r:ident) => {
        $w.push(("AsMut writes", Box::new(|e| { let mut m = <$T>::ZERO; let a: &mut [$S; $NN] = m.as_mut(); for k in 0..$NN { a[k] = e[k]; } m })));
        $r.push(("AsRef", Box::new(|m| { let a: &[$S; $NN] = m.as_ref(); a.to_vec() })));
    };
    (@asref no, $T:ident, $S:ty, $N:tt, $NN:expr, $w:ident, $r:ident) => {};
}

macro_rules! aff_lay {
    ($T:ident, $S:ty, $C:tt, $R:expr, $NN:expr, $V:ident, $lin:ident) => {{
        let colv = |e: &[$S], c: usize| -> $V { <$V>::from_array(core::array::from_fn(|r| e[c * $R + r])) };
        LayApi::<$S, $T> {
            name: stringify!($T),
            cols: $C,
            rows: $R,
            writers: vec![
                ("from_cols_array", Box::new(|e| <$T>::from_cols_array(&core::array::from_fn(|k| e[k])))),
                ("from_cols", Box::new(move |e| aff_lay!(@from_cols $C, $T, colv, e))),
                ("from_cols_array_2d", Box::new(|e| <$T>::from_cols_array_2d(&core::array::from_fn(|c| core::array::from_fn(|r| e[c * $R + r]))))),
                ("from_cols_slice", Box::new(|e| <$T>::from_cols_slice(e))),
                ("field writes", Box::new(move |e| { let mut a = <$T>::IDENTITY; for c in 0..($C - 1) { *a.$lin.col_mut(c) = colv(e, c).into(); } a.translation = colv(e, $C - 1).into(); a })),
            ],
            readers: vec![
                ("to_cols_array", Box::new(|m| m.to_cols_array().to_vec())),
                ("to_cols_array_2d", Box::new(|m| m.to_cols_array_2d().iter().flat_map(|c| c.iter().copied()).collect())),
                ("write_cols_to_slice", Box::new(|m| { let mut b = vec![tag::<$S>(29); $NN]; m.write_cols_to_slice(&mut b); b })),
                ("fields", Box::new(|m| { let mut v: Vec<$S> = Vec::new(); for c in 0..($C - 1) { let col = m.$lin.col(c); for r in 0..$R { v.push(col[r]); } } for r in 0..$R { v.push(m.translation[r]); } v })),
            ],
            transpose: None,
            from_diagonal: None,
            col_oob: vec![],
        }
    }};
    (@from_cols 3, $T:ident, $colv:ident, $e:ident) => { <$T>::from_cols($colv($e, 0), $colv($e, 1), $colv($e, 2)) };
    (@from_cols 4, $T:ident, $colv:ident, $e:ident) => { <$T>::from_cols($colv($e, 0), $colv($e, 1), $colv($e, 2), $colv($e, 3)) };
}

fn minors(mon: &mut Monitor) {
    macro_rules! minor {
        ($name:expr, $S:ty, $Big:ident, $BN:expr, $Small:ident, $call:expr) => {
            if let Some(mut c) = mon.begin($name, "minor constructor") {
                let n: usize = $BN;
                let e: [$S; $BN * $BN] = core::array::from_fn(|k| tag::<$S>(k + 2));
                let big = <$Big>::from_cols_array(&e);
                for i in 0..n + 3 {
                    for j in 0..n + 3 {
                        let f: &dyn Fn(&$Big, usize, usize) -> $Small = &$call;
                        let r = catch_unwind(AssertUnwindSafe(|| f(&big, i, j).to_cols_array().to_vec()));
                        c.event((i * 8 + j) as u64, i < n && j < n);
                        if i >= n || j >= n {
                            if r.is_ok() {
                                c.violation("missing_panic", &[], format!("i={} j={}", i, j), format!("{:?}", r.ok()), "panic".into(), "out-of-range minor index must panic".into());
                            } else {
                                c.st.panics_expected += 1;
                            }
                            continue;
                        }
                        // expected: drop column i and row j
                        let mut ex: Vec<$S> = Vec::new();
                        for col in 0..n {
                            if col == i { continue; }
                            for row in 0..n {
                                if row == j { continue; }
                                ex.push(e[col * n + row]);
                            }
                        }
                        match r {
                            Ok(g) => {
                                if !bits_eq(&g, &ex) {
                                    c.violation("layout_mismatch", &["minor"], format!("i={} j={} of {}", i, j, show(&e)), show(&g), show(&ex), "minor must drop exactly column i and row j".into());
                                }
                            }
                            Err(_) => c.violation("unexpected_panic", &[], format!("i={} j={}", i, j), "panic".into(), String::new(), String::new()),
                        }
                    }
                }
                c.sample(format!("{}: all (i, j) in 0..N+2 squared", $name));
                mon.end(c);
                if !mon.scratch { mon.exhaustive.push(format!("{}: all index pairs (i, j) incl. out-of-range", $name)); }
            }
        };
    }
    minor!("Mat2::from_mat3_minor", f32, Mat3, 3, Mat2, |m, i, j| Mat2::from_mat3_minor(*m, i, j));
    minor!("Mat2::from_mat3a_minor", f32, Mat3A, 3, Mat2, |m, i, j| Mat2::from_mat3a_minor(*m, i, j));
    minor!("Mat3::from_mat4_minor", f32, Mat4, 4, Mat3, |m, i, j| Mat3::from_mat4_minor(*m, i, j));
    minor!("Mat3A::from_mat4_minor", f32, Mat4, 4, Mat3A, |m, i, j| Mat3A::from_mat4_minor(*m, i, j));
    minor!("DMat2::from_mat3_minor", f64, DMat3, 3, DMat2, |m, i, j| DMat2::from_mat3_minor(*m, i, j));
    minor!("DMat3::from_mat4_minor", f64, DMat4, 4, DMat3, |m, i, j| DMat3::from_mat4_minor(*m, i, j));
}

/// affine: transform_point = linear*p + translation; transform_vector ignores translation (bit-for-bit)
fn affine_laws(mon: &mut Monitor) {
    let iters = mon.n(4_000, 400_000);
    macro_rules! aff3 {
        ($name:expr, $S:ty, $A:ident, $V:ident, $eps:expr) => {
            if let Some(mut c) = mon.begin($name, "transform_point/vector vs linear*p + translation") {
                let mut rng = Rng::new(mon.op_seed($name, "aff"));
                for it in 0..iters {
                    let e: [$S; 12] = core::array::from_fn(|_| rng.logmag(-6.0, 6.0) as $S);
                    let a = <$A>::from_cols_array(&e);
                    let p = <$V>::new(rng.logmag(-6.0, 6.0) as $S, rng.logmag(-6.0, 6.0) as $S, rng.logmag(-6.0, 6.0) as $S);
                    let tp = a.transform_point3(p).to_array();
                    let tv = a.transform_vector3(p).to_array();
                    let pa = p.to_array();
                    c.event(it % 64, true);
                    for r in 0..3 {
                        let (mut lin, mut s) = (<$S as HasR>::r(0.0), 0.0f64);
                        for col in 0..3 {
                            lin = lin + <$S as HasR>::r(e[col * 3 + r]) * <$S as HasR>::r(pa[col]);
                            s += (e[col * 3 + r] as f64 * pa[col] as f64).abs();
                        }
                        let inp = || format!("A={:?} p={:?}", e, pa);
                        hp::<$S>(&mut c, "transform_vector3", tv[r], lin, s, 4.0, &inp);
                        hp::<$S>(&mut c, "transform_point3", tp[r], lin + <$S as HasR>::r(e[9 + r]), s + (e[9 + r] as f64).abs(), 5.0, &inp);
                    }
                    // changing only the translation must not change transform_vector at all
                    let mut e2 = e;
                    e2[9] = tag::<$S>(9 + (it as usize % 8));
                    e2[10] = -e2[10] * 3.0;
                    e2[11] = <$S>::MAX;
                    let tv2 = <$A>::from_cols_array(&e2).transform_vector3(p).to_array();
                    if (0..3).any(|k| tv2[k].to_bits() != tv[k].to_bits()) {
                        c.violation("translation_leak", &[], format!("A={:?} p={:?}", e, pa), format!("{:?}", tv2), format!("{:?}", tv), "transform_vector must ignore the translation".into());
                    }
                }
                c.sample(format!("{}: transform_point3 = linear*p + translation, transform_vector3 independent of translation", $name));
                mon.end(c);
            }
        };
    }
    aff3!("Affine3A", f32, Affine3A, Vec3, f32::EPSILON);
    aff3!("DAffine3", f64, DAffine3, DVec3, f64::EPSILON);
    macro_rules! aff2 {
        ($name:expr, $S:ty, $A:ident, $V:ident) => {
            if let Some(mut c) = mon.begin($name, "transform_point/vector vs linear*p + translation") {
                let mut rng = Rng::new(mon.op_seed($name, "aff"));
                for it in 0..iters {
                    let e: [$S; 6] = core::array::from_fn(|_| rng.logmag(-6.0, 6.0) as $S);
                    let a = <$A>::from_cols_array(&e);
                    let p = <$V>::new(rng.logmag(-6.0, 6.0) as $S, rng.logmag(-6.0, 6.0) as $S);
                    let tp = a.transform_point2(p).to_array();
                    let tv = a.transform_vector2(p).to_array();
                    let pa = p.to_array();
                    c.event(it % 64, true);
                    for r in 0..2 {
                        let (mut lin, mut s) = (<$S as HasR>::r(0.0), 0.0f64);
                        for col in 0..2 {
                            lin = lin + <$S as HasR>::r(e[col * 2 + r]) * <$S as HasR>::r(pa[col]);
                            s += (e[col * 2 + r] as f64 * pa[col] as f64).abs();
                        }
                        let inp = || format!("A={:?} p={:?}", e, pa);
                        hp::<$S>(&mut c, "transform_vector2", tv[r], lin, s, 3.0, &inp);
                        hp::<$S>(&mut c, "transform_point2", tp[r], lin + <$S as HasR>::r(e[4 + r]), s + (e[4 + r] as f64).abs(), 4.0, &inp);
                    }
                    let mut e2 = e;
                    e2[4] = tag::<$S>(9 + (it as usize % 8));
                    e2[5] = <$S>::MAX;
                    let tv2 = <$A>::from_cols_array(&e2).transform_vector2(p).to_array();
                    if (0..2).any(|k| tv2[k].to_bits() != tv[k].to_bits()) {
                        c.violation("translation_leak", &[], format!("A={:?} p={:?}", e, pa), format!("{:?}", tv2), format!("{:?}", tv), "transform_vector must ignore the translation".into());
                    }
                }
                c.sample(format!("{}: transform_point2 = linear*p + translation", $name));
                mon.end(c);
            }
        };
    }
    aff2!("Affine2", f32, Affine2, Vec2);
    aff2!("DAffine2", f64, DAffine2, DVec2);
}

fn canaries(mon: &mut Monitor) {
    mon.canary("to_cols_array listing rows first", |m| {
        let mut api = mat_lay!(Mat3, f32, 3, 9, Vec3, asref: yes);
        api.readers.push(("bad", Box::new(|mm| mm.transpose().to_cols_array().to_vec())));
        suite(m, &api);
    });
    mon.canary("row(i) returning col(i)", |m| {
        let mut api = mat_lay!(Mat4, f32, 4, 16, Vec4, asref: yes);
        api.readers = vec![("to_cols_array", Box::new(|mm| mm.to_cols_array().to_vec())), ("row(r)[c]", Box::new(|mm| (0..16).map(|k| mm.col(k % 4)[k / 4]).collect()))];
        suite(m, &api);
    });
    mon.canary("from_cols_slice off by one", |m| {
        let mut api = mat_lay!(Mat2, f32, 2, 4, Vec2, asref: yes);
        api.writers.push(("bad", Box::new(|e| Mat2::from_cols_array(&[e[1], e[2], e[3], e[0]]))));
        suite(m, &api);
    });
    mon.canary("write path canonicalising NaN payloads", |m| {
        let mut api = mat_lay!(DMat2, f64, 2, 4, DVec2, asref: yes);
        api.writers.push(("bad", Box::new(|e| DMat2::from_cols_array(&core::array::from_fn(|k| if e[k].is_nan() { f64::NAN } else { e[k] })))));
        suite(m, &api);
    });
}

pub fn run(mon: &mut Monitor) {
    vcommon::mon::quiet_panics();
    canaries(mon);
    suite(mon, &mat_lay!(Mat2, f32, 2, 4, Vec2, asref: yes));
    suite(mon, &mat_lay!(Mat3, f32, 3, 9, Vec3, asref: yes));
    suite(mon, &mat_lay!(Mat3A, f32, 3, 9, Vec3A, asref: no));
    suite(mon, &mat_lay!(Mat4, f32, 4, 16, Vec4, asref: yes));
    suite(mon, &mat_lay!(DMat2, f64, 2, 4, DVec2, asref: yes));
    suite(mon, &mat_lay!(DMat3, f64, 3, 9, DVec3, asref: yes));
    suite(mon, &mat_lay!(DMat4, f64, 4, 16, DVec4, asref: yes));
    suite(mon, &aff_lay!(Affine2, f32, 3, 2, 6, Vec2, matrix2));
    suite(mon, &aff_lay!(Affine3A, f32, 4, 3, 12, Vec3A, matrix3));
    suite(mon, &aff_lay!(DAffine2, f64, 3, 2, 6, DVec2, matrix2));
    suite(mon, &aff_lay!(DAffine3, f64, 4, 3, 12, DVec3, matrix3));
    minors(mon);
    affine_laws(mon);
}

//! C05: Quat, Mat3/Mat3A, Mat4 and Affine types are interchangeable views of a transform.

use crate::gen::*;
use crate::hp::*;
use glam::*;
use vcommon::dd::{Real, DD};
use vcommon::mon::*;
use vcommon::refm::*;
use vcommon::rng::Rng;

#[derive(Clone, Copy, Debug)]
pub enum Rep {
    Q(Quat),
    M3(Mat3),
    M3A(Mat3A),
    M4(Mat4),
    A3(Affine3A),
    DQ(DQuat),
    DM3(DMat3),
    DM4(DMat4),
    DA3(DAffine3),
}
#[derive(Clone, Copy, Debug, PartialEq, Eq, Hash)]
pub enum K {
    Q,
    M3,
    M3A,
    M4,
    A3,
    DQ,
    DM3,
    DM4,
    DA3,
}
impl K {
    fn is_f32(self) -> bool {
        matches!(self, K::Q | K::M3 | K::M3A | K::M4 | K::A3)
    }
    fn is_quat(self) -> bool {
        matches!(self, K::Q | K::DQ)
    }
    fn has_translation(self) -> bool {
        matches!(self, K::M4 | K::A3 | K::DM4 | K::DA3)
    }
}
impl Rep {
    pub fn kind(&self) -> K {
        match self {
            Rep::Q(_) => K::Q,
            Rep::M3(_) => K::M3,
            Rep::M3A(_) => K::M3A,
            Rep::M4(_) => K::M4,
            Rep::A3(_) => K::A3,
            Rep::DQ(_) => K::DQ,
            Rep::DM3(_) => K::DM3,
            Rep::DM4(_) => K::DM4,
            Rep::DA3(_) => K::DA3,
        }
    }
    /// every way this representation maps a point / a direction: (label, result)
    pub fn act(&self, p: [f64; 3], point: bool) -> Vec<(&'static str, [f64; 3])> {
        let pf = Vec3::new(p[0] as f32, p[1] as f32, p[2] as f32);
        // a Vec3A as users obtain them: from a Vec3, or as the first three lanes of a Vec4 (whatever the fourth holds)
        let junk = [1.0f32, 0.0, -7.5e3, f32::NAN, f32::INFINITY, 1e-30][(vcommon::rng::mix(p[0].to_bits(), 5) % 6) as usize];
        let pa = if vcommon::rng::mix(p[1].to_bits(), 9) & 1 == 0 { Vec3A::from(pf) } else { Vec3A::from_vec4(Vec4::new(pf.x, pf.y, pf.z, junk)) };
        let pd = DVec3::new(p[0], p[1], p[2]);
        let o = |v: Vec3| [v.x as f64, v.y as f64, v.z as f64];
        let oa = |v: Vec3A| [v.x as f64, v.y as f64, v.z as f64];
        let od = |v: DVec3| [v.x, v.y, v.z];
        match self {
            Rep::Q(q) => vec![("q*v", o(*q * pf)), ("q*Vec3A", oa(*q * pa)), ("mul_vec3", o(q.mul_vec3(pf)))],
            Rep::M3(m) => vec![("M*v", o(*m * pf)), ("mul_vec3a", oa(m.mul_vec3a(pa)))],
            Rep::M3A(m) => vec![("M*v", oa(*m * pa)), ("mul_vec3", o(m.mul_vec3(pf)))],
            Rep::M4(m) => {
                if point {
                    vec![("transform_point3", o(m.transform_point3(pf))), ("transform_point3a", oa(m.transform_point3a(pa))), ("M*(p,1)", o((*m * pf.extend(1.0)).truncate())), ("project_point3", o(m.project_point3(pf)))]
                } else {
                    vec![("transform_vector3", o(m.transform_vector3(pf))), ("transform_vector3a", oa(m.transform_vector3a(pa))), ("M*(p,0)", o((*m * pf.extend(0.0)).truncate()))]
                }
            }
            Rep::A3(a) => {
                if point {
                    vec![("transform_point3", o(a.transform_point3(pf))), ("transform_point3a", oa(a.transform_point3a(pa)))]
                } else {
                    vec![("transform_vector3", o(a.transform_vector3(pf))), ("transform_vector3a", oa(a.transform_vector3a(pa)))]
                }
            }
            Rep::DQ(q) => vec![("q*v", od(*q * pd)), ("mul_vec3", od(q.mul_vec3(pd)))],
            Rep::DM3(m) => vec![("M*v", od(*m * pd))],
            Rep::DM4(m) => {
                if point {
                    vec![("transform_point3", od(m.transform_point3(pd))), ("M*(p,1)", od((*m * pd.extend(1.0)).truncate())), ("project_point3", od(m.project_point3(pd)))]
                } else {
                    vec![("transform_vector3", od(m.transform_vector3(pd))), ("M*(p,0)", od((*m * pd.extend(0.0)).truncate()))]
                }
            }
            Rep::DA3(a) => {
                if point {
                    vec![("transform_point3", od(a.transform_point3(pd)))]
                } else {
                    vec![("transform_vector3", od(a.transform_vector3(pd)))]
                }
            }
        }
    }
    pub fn show(&self) -> String {
        format!("{:?}", self)
    }
}

pub struct Edge {
    pub from: K,
    pub to: K,
    pub name: &'static str,
    pub f: Box<dyn Fn(&Rep) -> Rep>,
    /// the edge keeps only the rotation (to a quaternion) / drops the translation
    pub drops_translation: bool,
}

macro_rules! edge {
    ($v:ident, $from:ident, $to:ident, $name:expr, $drop:expr, |$x:ident| $body:expr) => {
        $v.push(Edge { from: K::$from, to: K::$to, name: $name, drops_translation: $drop, f: Box::new(|r: &Rep| match r { Rep::$from($x) => Rep::$to($body), _ => unreachable!() }) });
    };
}

pub fn edges() -> Vec<Edge> {
    let mut v: Vec<Edge> = Vec::new();
    // f32
    edge!(v, Q, M3, "Mat3::from_quat", false, |q| Mat3::from_quat(*q));
    edge!(v, Q, M3A, "Mat3A::from_quat", false, |q| Mat3A::from_quat(*q));
    edge!(v, Q, M4, "Mat4::from_quat", false, |q| Mat4::from_quat(*q));
    edge!(v, Q, A3, "Affine3A::from_quat", false, |q| Affine3A::from_quat(*q));
    edge!(v, M3, Q, "Quat::from_mat3", false, |m| Quat::from_mat3(m));
    edge!(v, M3A, Q, "Quat::from_mat3a", false, |m| Quat::from_mat3a(m));
    edge!(v, M4, Q, "Quat::from_mat4", true, |m| Quat::from_mat4(m));
    edge!(v, A3, Q, "Quat::from_affine3", true, |a| Quat::from_affine3(a));
    edge!(v, M3, M3A, "Mat3A::from(Mat3)", false, |m| Mat3A::from(*m));
    edge!(v, M3A, M3, "Mat3::from(Mat3A)", false, |m| Mat3::from(*m));
    edge!(v, M3, M4, "Mat4::from_mat3", false, |m| Mat4::from_mat3(*m));
    edge!(v, M3A, M4, "Mat4::from_mat3a", false, |m| Mat4::from_mat3a(*m));
    edge!(v, M4, M3, "Mat3::from_mat4", true, |m| Mat3::from_mat4(*m));
    edge!(v, M4, M3A, "Mat3A::from_mat4", true, |m| Mat3A::from_mat4(*m));
    edge!(v, M3, A3, "Affine3A::from_mat3", false, |m| Affine3A::from_mat3(*m));
    edge!(v, M4, A3, "Affine3A::from_mat4", false, |m| Affine3A::from_mat4(*m));
    edge!(v, A3, M4, "Mat4::from(Affine3A)", false, |a| Mat4::from(*a));
    edge!(v, A3, M3A, "Affine3A.matrix3", true, |a| a.matrix3);
    // f32 <-> f64
    edge!(v, Q, DQ, "as_dquat", false, |q| q.as_dquat());
    edge!(v, DQ, Q, "as_quat", false, |q| q.as_quat());
    edge!(v, M3, DM3, "Mat3::as_dmat3", false, |m| m.as_dmat3());
    edge!(v, M3A, DM3, "Mat3A::as_dmat3", false, |m| m.as_dmat3());
    edge!(v, DM3, M3, "as_mat3", false, |m| m.as_mat3());
    edge!(v, M4, DM4, "as_dmat4", false, |m| m.as_dmat4());
    edge!(v, DM4, M4, "as_mat4", false, |m| m.as_mat4());
    edge!(v, A3, DA3, "as_daffine3", false, |a| a.as_daffine3());
    edge!(v, DA3, A3, "as_affine3a", false, |a| a.as_affine3a());
    // f64
    edge!(v, DQ, DM3, "DMat3::from_quat", false, |q| DMat3::from_quat(*q));
    edge!(v, DQ, DM4, "DMat4::from_quat", false, |q| DMat4::from_quat(*q));
    edge!(v, DQ, DA3, "DAffine3::from_quat", false, |q| DAffine3::from_quat(*q));
    edge!(v, DM3, DQ, "DQuat::from_mat3", false, |m| DQuat::from_mat3(m));
    edge!(v, DM4, DQ, "DQuat::from_mat4", true, |m| DQuat::from_mat4(m));
    edge!(v, DA3, DQ, "DQuat::from_affine3", true, |a| DQuat::from_affine3(a));
    edge!(v, DM3, DM4, "DMat4::from_mat3", false, |m| DMat4::from_mat3(*m));
    edge!(v, DM4, DM3, "DMat3::from_mat4", true, |m| DMat3::from_mat4(*m));
    edge!(v, DM3, DA3, "DAffine3::from_mat3", false, |m| DAffine3::from_mat3(*m));
    edge!(v, DM4, DA3, "DAffine3::from_mat4", false, |m| DAffine3::from_mat4(*m));
    edge!(v, DA3, DM4, "DMat4::from(DAffine3)", false, |a| DMat4::from(*a));
    edge!(v, DA3, DM3, "DAffine3.matrix3", true, |a| a.matrix3);
    v
}

/// A seed transform: linear part L (3x3, f64 values already rounded to f32) and translation.
#[derive(Clone, Debug)]
pub struct Seed {
    pub class: &'static str, // "rotation" | "rigid" | "affine" | "linear"
    pub quat: Option<[f32; 4]>,
    pub lin: [f64; 9],
    pub t: [f64; 3],
}

fn build(seed: &Seed, k: K) -> Rep {
    let l32: [f32; 9] = core::array::from_fn(|i| seed.lin[i] as f32);
    let m3 = Mat3::from_cols_array(&l32);
    let t = Vec3::new(seed.t[0] as f32, seed.t[1] as f32, seed.t[2] as f32);
    let dm3 = DMat3::from_cols_array(&seed.lin);
    let dt = DVec3::new(seed.t[0], seed.t[1], seed.t[2]);
    match k {
        K::Q => Rep::Q(Quat::from_array(seed.quat.unwrap())),
        K::DQ => {
            // unit to f64 precision: the f32 components renormalised in f64
            let q = seed.quat.unwrap();
            let d = DVec4::new(q[0] as f64, q[1] as f64, q[2] as f64, q[3] as f64);
            let n = (d.x * d.x + d.y * d.y + d.z * d.z + d.w * d.w).sqrt();
            Rep::DQ(DQuat::from_xyzw(d.x / n, d.y / n, d.z / n, d.w / n))
        }
        K::M3 => Rep::M3(m3),
        K::M3A => Rep::M3A(Mat3A::from(m3)),
        K::M4 => Rep::M4(Mat4::from_cols(m3.x_axis.extend(0.0), m3.y_axis.extend(0.0), m3.z_axis.extend(0.0), t.extend(1.0))),
        K::A3 => Rep::A3(Affine3A::from_mat3_translation(m3, t)),
        K::DM3 => Rep::DM3(dm3),
        K::DM4 => Rep::DM4(DMat4::from_cols(dm3.x_axis.extend(0.0), dm3.y_axis.extend(0.0), dm3.z_axis.extend(0.0), dt.extend(1.0))),
        K::DA3 => Rep::DA3(DAffine3::from_mat3_translation(dm3, dt)),
    }
}

fn gen_seed(r: &mut Rng, it: u64) -> Seed {
    let class = ["rotation", "rotation", "rigid", "affine", "linear"][(it % 5) as usize];
    let (q, _l) = unit_quat::<f32>(r, it / 5);
    let qd: [f64; 4] = [q[0] as f64, q[1] as f64, q[2] as f64, q[3] as f64];
    let rot = qmat::<f64>(&qd);
    let mut lin = [0.0f64; 9];
    let mut m = rot;
    if class == "affine" || class == "linear" {
        // rotation * scale/shear
        let mut sh: M<f64> = M::ident(3);
        for c in 0..3 {
            for rr in 0..3 {
                sh.a[c][rr] = if c == rr { r.logmag(-3.0, 3.0) } else if r.bool() { r.range(-1.0, 1.0) } else { 0.0 };
            }
        }
        m = rot.mul(&sh);
    }
    for c in 0..3 {
        for rr in 0..3 {
            lin[c * 3 + rr] = (m.a[c][rr] as f32) as f64;
        }
    }
    let t: [f64; 3] = if class == "rigid" || class == "affine" { core::array::from_fn(|_| (r.logmag(-4.0, 8.0) as f32) as f64) } else { [0.0; 3] };
    Seed { class, quat: if class == "rotation" { Some(q) } else { None }, lin, t }
}

fn allowed(class: &str) -> Vec<K> {
    match class {
        "rotation" => vec![K::Q, K::M3, K::M3A, K::M4, K::A3, K::DQ, K::DM3, K::DM4, K::DA3],
        "rigid" | "affine" => vec![K::M4, K::A3, K::DM4, K::DA3],
        _ => vec![K::M3, K::M3A, K::M4, K::A3, K::DM3, K::DM4, K::DA3],
    }
}

pub fn run_paths(mon: &mut Monitor) {
    let es = edges();
    let seeds_n = mon.n(40, 2_000);
    if let Some(mut c) = mon.begin("conversion-graph", "all typed paths of length <= 4") {
        let mut rng = Rng::new(mon.op_seed("graph", "paths"));
        let mut paths_seen = std::collections::HashSet::new();
        for it in 0..seeds_n {
            let seed = gen_seed(&mut rng, it);
            let nodes = allowed(seed.class);
            // reference action: rotation seeds use the exact rotation of the (normalised) quaternion
            let lin_ref: M<DD> = if let Some(q) = seed.quat { qmat::<DD>(&[DD::new(q[0] as f64), DD::new(q[1] as f64), DD::new(q[2] as f64), DD::new(q[3] as f64)]) } else { M::from_cols(3, &seed.lin) };
            let mmax = lin_ref.max_abs();
            let probes: Vec<[f64; 3]> = (0..4).map(|i| if i == 0 { [1.0, 0.0, 0.0] } else if i == 1 { [0.0, -2.5, 0.0] } else { core::array::from_fn(|_| (rng.logmag(-4.0, 6.0) as f32) as f64) }).collect();
            // rotation seeds start from every node built from the quaternion; others from the matrix
            for &start in &nodes {
                let start_rep = if seed.quat.is_some() && !start.is_quat() {
                    // build the start matrix through glam's own from_quat of the seed (a length-1 path is checked separately)
                    continue;
                } else {
                    build(&seed, start)
                };
                let mut stack: Vec<(Rep, Vec<usize>, bool, bool)> = vec![(start_rep, vec![], start.has_translation(), start.is_f32())];
                while let Some((rep, path, has_t, any_f32)) = stack.pop() {
                    // check the action of this node
                    let eps = if any_f32 { f32::EPSILON as f64 } else { f64::EPSILON };
                    let k = 8.0 * (path.len() as f64 + 1.0) + 8.0;
                    let pname: Vec<&str> = path.iter().map(|i| es[*i].name).collect();
                    if !path.is_empty() {
                        paths_seen.insert(path.clone());
                    }
                    for p in &probes {
                        for point in [true, false] {
                            let rp = [DD::new(p[0]), DD::new(p[1]), DD::new(p[2])];
                            let lr = lin_ref.mul_vec(&rp);
                            let use_t = point && has_t && rep.kind().has_translation();
                            let pabs: f64 = p.iter().map(|x| x.abs()).sum();
                            for (an, got) in rep.act(*p, point) {
                                c.event((path.len() as u64) << 8 | (rep.kind() as u64), !path.is_empty());
                                for row in 0..3 {
                                    let exact = if use_t { lr[row] + DD::new(seed.t[row]) } else { lr[row] };
                                    let sc = mmax * pabs + if use_t { seed.t[row].abs() } else { 0.0 };
                                    let err = exact.diff(got[row]).abs();
                                    let tol = k * eps * sc + 1e-300;
                                    c.ratio_t(if any_f32 { "action(f32 path)" } else { "action(f64 path)" }, err / tol);
                                    if !(err <= tol) {
                                        if c.wants_witness("action_mismatch", &[an]) {
                                            c.violation("action_mismatch", &[an], format!("seed {:?} start {:?} path {:?} probe {:?} point={}", seed, start, pname, p, point), format!("{:?} (end object {})", got, rep.show()), format!("{:e}", exact.to_f64()), format!("row {}: |err| {:.3e} > {} eps S = {:.3e}", row, err, k, tol));
                                        } else {
                                            c.st.violations += 1;
                                        }
                                        break;
                                    }
                                }
                            }
                        }
                    }
                    if path.len() >= 4 {
                        continue;
                    }
                    for (ei, e) in es.iter().enumerate() {
                        if e.from != rep.kind() || !nodes.contains(&e.to) {
                            continue;
                        }
                        // bound the fan-out: full enumeration for the first seeds, sampled afterwards
                        if it >= 6 && path.len() >= 2 && rng.below(4) != 0 {
                            continue;
                        }
                        let next = (e.f)(&rep);
                        let mut p2 = path.clone();
                        p2.push(ei);
                        stack.push((next, p2, has_t && !e.drops_translation && e.to.has_translation(), any_f32 || e.to.is_f32()));
                    }
                }
            }
        }
        c.count_n("distinct_paths", paths_seen.len() as u64);
        c.sample(format!("{} distinct typed conversion paths (length 1..4) over the 9-node graph with {} edges", paths_seen.len(), es.len()));
        mon.end(c);
        if !mon.scratch {
            mon.exhaustive.push(format!("all typed conversion paths of length <= 4 in the 3-D representation graph ({} edges) enumerated for the first seeds of every class", es.len()));
        }
    }
}

/// matrix -> quaternion -> matrix on the structured generator with branch bookkeeping
fn roundtrip(mon: &mut Monitor) {
    let iters = mon.n(20_000, 2_000_000);
    macro_rules! rt {
        ($name:expr, $S:ty, $Q:ident, $M:ident, $from:ident) => {
            if let Some(mut c) = mon.begin($name, "matrix->quat->matrix") {
                let mut rng = Rng::new(mon.op_seed($name, "rt"));
                let eps = <$S>::EPSILON as f64;
                for it in 0..iters {
                    let (q, lq) = unit_quat::<$S>(&mut rng, it);
                    let q0 = <$Q>::from_array(q);
                    let m = <$M>::from_quat(q0);
                    let mc = m.to_cols_array();
                    // which branch of the matrix->quaternion conversion this matrix takes (same predicates, same values)
                    let (m00, m11, m22) = (mc[0], mc[4], mc[8]);
                    let branch = if m22 <= 0.0 { if m11 - m00 <= 0.0 { "x" } else { "y" } } else { if m11 + m00 <= 0.0 { "z" } else { "w" } };
                    let near = (m22.abs() as f64) < 1e-3 || ((m11 - m00).abs() as f64) < 1e-3 || ((m11 + m00).abs() as f64) < 1e-3;
                    c.count(&format!("branch_{}{}", branch, if near { "_near_boundary" } else { "" }));
                    let q1 = <$Q>::$from(&m);
                    let m1 = <$M>::from_quat(q1);
                    c.event(vcommon::rng::hash_str(branch) ^ vcommon::rng::hash_str(lq) ^ (near as u64), true);
                    if c.need_sample() { c.sample(format!("{}: q={:?} ({}) branch {} -> q'={:?}", $name, q0, lq, branch, q1)); }
                    let inp = || format!("q={:?} ({}) M={:?} branch {}", q0, lq, mc, branch);
                    let qn = ((q1.x as f64).powi(2) + (q1.y as f64).powi(2) + (q1.z as f64).powi(2) + (q1.w as f64).powi(2)).sqrt();
                    c.ratio_t("unit", (qn - 1.0).abs() / (8.0 * eps));
                    if !((qn - 1.0).abs() <= 8.0 * eps) {
                        c.violation("accuracy", &["unit"], inp(), format!("{:?} |q|={}", q1, qn), String::new(), "matrix->quaternion must return a unit quaternion".into());
                    }
                    let m1c = m1.to_cols_array();
                    for k in 0..9 {
                        let e = ((m1c[k] as f64) - (mc[k] as f64)).abs();
                        c.ratio_t("same_rotation", e / (16.0 * eps));
                        if !(e <= 16.0 * eps) {
                            if c.wants_witness("accuracy", &["same_rotation", branch]) {
                                c.violation("accuracy", &["same_rotation", branch], inp(), format!("{:?}", m1c), format!("{:?}", mc), format!("entry {} differs by {:.3e}", k, e));
                            } else {
                                c.st.violations += 1;
                            }
                            break;
                        }
                    }
                    // same rotation as a quaternion up to sign
                    let d = (q0.dot(q1) as f64).abs();
                    if !((1.0 - d).abs() <= 16.0 * eps) {
                        c.violation("accuracy", &["same_quaternion"], inp(), format!("{:?}", q1), format!("+-{:?}", q0), format!("|q.q'| = {}", d));
                    }
                }
                for b in ["x", "y", "z", "w"] {
                    if c.st.counters.get(&format!("branch_{}", b)).copied().unwrap_or(0) == 0 {
                        mon.inconclusive.push(format!("{}: matrix->quaternion branch {} never taken", $name, b));
                    }
                }
                mon.end(c);
            }
        };
    }
    rt!("Quat<->Mat3", f32, Quat, Mat3, from_mat3);
    rt!("Quat<->Mat3A", f32, Quat, Mat3A, from_mat3a);
    rt!("Quat<->Mat4", f32, Quat, Mat4, from_mat4);
    rt!("DQuat<->DMat3", f64, DQuat, DMat3, from_mat3);
    rt!("DQuat<->DMat4", f64, DQuat, DMat4, from_mat4);
}

/// conversion commutes with composition, inversion and identity
fn laws(mon: &mut Monitor) {
    let iters = mon.n(5_000, 500_000);
    if let Some(mut c) = mon.begin("laws", "conversion commutes with composition/inverse/identity") {
        let mut rng = Rng::new(mon.op_seed("laws", "laws"));
        let eps = f32::EPSILON as f64;
        // identities map to identities bit-for-bit
        let idm4 = Mat4::IDENTITY.to_cols_array();
        let checks: Vec<(&str, [f32; 16])> = vec![
            ("Mat4::from(Affine3A::IDENTITY)", Mat4::from(Affine3A::IDENTITY).to_cols_array()),
            ("Mat4::from_quat(IDENTITY)", Mat4::from_quat(Quat::IDENTITY).to_cols_array()),
            ("Mat4::from_mat3(IDENTITY)", Mat4::from_mat3(Mat3::IDENTITY).to_cols_array()),
            ("Mat4::from_mat3a(IDENTITY)", Mat4::from_mat3a(Mat3A::IDENTITY).to_cols_array()),
            ("DMat4::IDENTITY.as_mat4", DMat4::IDENTITY.as_mat4().to_cols_array()),
        ];
        for (n, v) in checks {
            c.event(vcommon::rng::hash_str(n), true);
            if v.iter().zip(idm4.iter()).any(|(a, b)| a.to_bits() != b.to_bits()) {
                c.violation("identity", &[], n.into(), format!("{:?}", v), "IDENTITY".into(), String::new());
            }
        }
        let qi = [Quat::from_mat3(&Mat3::IDENTITY), Quat::from_mat3a(&Mat3A::IDENTITY), Quat::from_mat4(&Mat4::IDENTITY), Quat::from_affine3(&Affine3A::IDENTITY)];
        for q in qi {
            if q.to_array() != [0.0, 0.0, 0.0, 1.0] {
                c.violation("identity", &[], "Quat::from_*(IDENTITY)".into(), format!("{:?}", q), "IDENTITY".into(), String::new());
            }
        }
        for it in 0..iters {
            let sa = gen_seed(&mut rng, it * 5 + 3); // affine class
            let sb = gen_seed(&mut rng, it * 5 + 2); // rigid class
            let (a, b) = (match build(&sa, K::A3) { Rep::A3(a) => a, _ => unreachable!() }, match build(&sb, K::A3) { Rep::A3(a) => a, _ => unreachable!() });
            c.event(it % 32, true);
            let lhs = Mat4::from(a * b).to_cols_array();
            let rhs = (Mat4::from(a) * Mat4::from(b)).to_cols_array();
            // scale: |A||B| entrywise
            let ra: M<f64> = M::from_cols(4, &Mat4::from(a).to_cols_array().map(|x| x as f64));
            let rb: M<f64> = M::from_cols(4, &Mat4::from(b).to_cols_array().map(|x| x as f64));
            let sc = ra.abs().mul(&rb.abs());
            for k in 0..16 {
                let e = (lhs[k] as f64 - rhs[k] as f64).abs();
                let t = 10.0 * eps * sc.a[k / 4][k % 4] + 1e-37;
                c.ratio_t("Mat4::from(a*b)", e / t);
                if e > t {
                    c.violation("law", &["composition"], format!("a={:?} b={:?}", a, b), format!("{:?}", lhs), format!("{:?}", rhs), format!("entry {}", k));
                    break;
                }
            }
            // inverse: compare actions on a probe instead of entries (conditioning of the scale part)
            let ia = Mat4::from(a.inverse());
            let ib = Mat4::from(a).inverse();
            let p = Vec3::new(0.3, -1.7, 2.2);
            let (x, y) = (ia.transform_point3(a.transform_point3(p)), ib.transform_point3(a.transform_point3(p)));
            let condish = { let la: M<f64> = M::from_cols(3, &sa.lin); let inv = la.inverse(); la.abs().mul(&inv.abs()).max_abs() * 3.0 + 1.0 };
            for (nm, v) in [("Affine.inverse", x), ("Mat4.inverse", y)] {
                let e = (v - p).abs().max_element() as f64;
                let tscale = (sa.t.iter().map(|t| t.abs()).fold(0.0, f64::max) + 4.0) * condish;
                c.ratio_t("inverse_action", e / (64.0 * eps * tscale));
                if e > 64.0 * eps * tscale {
                    c.violation("law", &["inverse", nm], format!("a={:?}", a), format!("{:?}", v), format!("{:?}", p), format!("inverse does not undo the transform: err {:.3e} tol {:.3e}", e, 64.0 * eps * tscale));
                }
            }
            // mat(q*p) = mat(q)*mat(p)
            let (q, _) = unit_quat::<f32>(&mut rng, it);
            let (pq, _) = unit_quat::<f32>(&mut rng, it + 1);
            let (q, pq) = (Quat::from_array(q), Quat::from_array(pq));
            let l = Mat3::from_quat(q * pq).to_cols_array();
            let r = (Mat3::from_quat(q) * Mat3::from_quat(pq)).to_cols_array();
            for k in 0..9 {
                let e = (l[k] as f64 - r[k] as f64).abs();
                c.ratio_t("mat(q*p)", e / (24.0 * eps));
                if e > 24.0 * eps {
                    c.violation("law", &["mat(q*p)"], format!("q={:?} p={:?}", q, pq), format!("{:?}", l), format!("{:?}", r), String::new());
                    break;
                }
            }
        }
        c.sample("Mat4::from(a*b) = Mat4::from(a)*Mat4::from(b); inverse commutes; mat(q*p) = mat(q)*mat(p); identities".into());
        mon.end(c);
    }
}

/// 2-D representations: Mat2, Mat3 (homogeneous), Mat3A, Affine2 and f64 forms
fn two_d(mon: &mut Monitor) {
    let iters = mon.n(5_000, 500_000);
    if let Some(mut c) = mon.begin("2d-graph", "Affine2/Mat3/Mat3A/Mat2 conversions") {
        let mut rng = Rng::new(mon.op_seed("2d", "2d"));
        let eps = f32::EPSILON as f64;
        for it in 0..iters {
            let ang = rng.range(-6.3, 6.3) as f32;
            let sc = Vec2::new(rng.logmag(-3.0, 3.0) as f32, rng.logmag(-3.0, 3.0) as f32);
            let t = Vec2::new(rng.logmag(-4.0, 8.0) as f32, rng.logmag(-4.0, 8.0) as f32);
            let a = Affine2::from_scale_angle_translation(sc, ang, t);
            let p = Vec2::new(rng.logmag(-4.0, 6.0) as f32, rng.logmag(-4.0, 6.0) as f32);
            // reference from the stored entries of `a`
            let l = a.matrix2.to_cols_array().map(|x| x as f64);
            let tt = [a.translation.x as f64, a.translation.y as f64];
            let pf = [p.x as f64, p.y as f64];
            let ep = [l[0] * pf[0] + l[2] * pf[1] + tt[0], l[1] * pf[0] + l[3] * pf[1] + tt[1]];
            let ev = [l[0] * pf[0] + l[2] * pf[1], l[1] * pf[0] + l[3] * pf[1]];
            let sp = [l[0].abs() * pf[0].abs() + l[2].abs() * pf[1].abs() + tt[0].abs(), l[1].abs() * pf[0].abs() + l[3].abs() * pf[1].abs() + tt[1].abs()];
            let m3 = Mat3::from(a);
            let m3a = Mat3A::from(a);
            let da = a.as_daffine2();
            let dm3 = DMat3::from(da);
            let pts: Vec<(&str, [f64; 2])> = vec![
                ("Affine2::transform_point2", a.transform_point2(p).to_array().map(|x| x as f64)),
                ("Mat3::from(Affine2).transform_point2", m3.transform_point2(p).to_array().map(|x| x as f64)),
                ("Mat3A::from(Affine2).transform_point2", m3a.transform_point2(p).to_array().map(|x| x as f64)),
                ("Affine2::from_mat3(Mat3::from(a))", Affine2::from_mat3(m3).transform_point2(p).to_array().map(|x| x as f64)),
                ("Affine2::from_mat3a(Mat3A::from(a))", Affine2::from_mat3a(m3a).transform_point2(p).to_array().map(|x| x as f64)),
                ("DAffine2", da.transform_point2(p.as_dvec2()).to_array()),
                ("DMat3::from(DAffine2)", dm3.transform_point2(p.as_dvec2()).to_array()),
                ("DAffine2::from_mat3(..).as_affine2", DAffine2::from_mat3(dm3).as_affine2().transform_point2(p).to_array().map(|x| x as f64)),
                ("Mat3*(p,1)", (m3 * p.extend(1.0)).truncate().to_array().map(|x| x as f64)),
            ];
            let vecs: Vec<(&str, [f64; 2])> = vec![
                ("Affine2::transform_vector2", a.transform_vector2(p).to_array().map(|x| x as f64)),
                ("Mat3::transform_vector2", m3.transform_vector2(p).to_array().map(|x| x as f64)),
                ("Mat3A::transform_vector2", m3a.transform_vector2(p).to_array().map(|x| x as f64)),
                ("Mat2::from_mat3 * p", (Mat2::from_mat3(m3) * p).to_array().map(|x| x as f64)),
                ("Mat2::from_mat3a * p", (Mat2::from_mat3a(m3a) * p).to_array().map(|x| x as f64)),
                ("Affine2::from_mat2(matrix2)", Affine2::from_mat2(a.matrix2).transform_point2(p).to_array().map(|x| x as f64)),
                ("Mat3::from_mat2(matrix2)", Mat3::from_mat2(a.matrix2).transform_point2(p).to_array().map(|x| x as f64)),
                ("DMat2::from_mat3", (DMat2::from_mat3(dm3) * p.as_dvec2()).to_array()),
                ("Mat2::as_dmat2", (a.matrix2.as_dmat2() * p.as_dvec2()).to_array()),
                ("DMat2::as_mat2", (DMat2::from_mat3(dm3).as_mat2() * p).to_array().map(|x| x as f64)),
                ("Mat3A::from(Mat3) * (p,0)", (Mat3A::from(m3) * p.extend(0.0)).truncate().to_array().map(|x| x as f64)),
                ("Mat3::from(Mat3A) * (p,0)", (Mat3::from(m3a) * p.extend(0.0)).truncate().to_array().map(|x| x as f64)),
                ("DMat3::as_mat3", dm3.as_mat3().transform_vector2(p).to_array().map(|x| x as f64)),
                ("Mat3::as_dmat3", m3.as_dmat3().transform_vector2(p.as_dvec2()).to_array()),
            ];
            c.event(it % 64, true);
            for (nm, g) in pts {
                for r in 0..2 {
                    let e = (g[r] - ep[r]).abs();
                    let tol = 16.0 * eps * sp[r] + 1e-37;
                    c.ratio_t("point2", e / tol);
                    if e > tol {
                        if c.wants_witness("action_mismatch", &[nm]) { c.violation("action_mismatch", &[nm], format!("a={:?} p={:?}", a, p), format!("{:?}", g), format!("{:?}", ep), String::new()); } else { c.st.violations += 1; }
                        break;
                    }
                }
            }
            for (nm, g) in vecs {
                for r in 0..2 {
                    let e = (g[r] - ev[r]).abs();
                    let tol = 16.0 * eps * (sp[r] - tt[r].abs()) + 1e-37;
                    c.ratio_t("vector2", e / tol);
                    if e > tol {
                        if c.wants_witness("action_mismatch", &[nm]) { c.violation("action_mismatch", &[nm], format!("a={:?} p={:?}", a, p), format!("{:?}", g), format!("{:?}", ev), String::new()); } else { c.st.violations += 1; }
                        break;
                    }
                }
            }
        }
        c.sample("2-D: Affine2 <-> Mat3/Mat3A, Mat2 from 3x3 block, f32<->f64, all acting identically on points and vectors".into());
        mon.end(c);
    }
}

/// Mixed products and composition for every pair of interchangeable types: `X * Y` where one operand is an affine type and the
/// other its homogeneous matrix, in both orders, must equal the product of the two converted matrices; the same for
/// 2-D and f64 forms, and `from(a*b) = from(a)*from(b)` for the 2-D and f64 families (3-D f32 is in `laws`).
fn mixed_products(mon: &mut Monitor) {
    let iters = mon.n(3_000, 300_000);
    if let Some(mut c) = mon.begin("laws", "mixed affine/matrix products and composition, all families") {
        let mut rng = Rng::new(mon.op_seed("laws", "mixed"));
        let e32 = f32::EPSILON as f64;
        let e64 = f64::EPSILON;
        fn cmp(c: &mut OpCtx, name: &'static str, n: usize, got: &[f64], a: &[f64], b: &[f64], eps: f64, inp: &dyn Fn() -> String) {
            let ra: M<f64> = M::from_cols(n, a);
            let rb: M<f64> = M::from_cols(n, b);
            let want = ra.mul(&rb);
            let sc = ra.abs().mul(&rb.abs());
            c.event(vcommon::rng::hash_str(name), true);
            for k in 0..n * n {
                let e = (got[k] - want.a[k / n][k % n]).abs();
                let t = 12.0 * eps * sc.a[k / n][k % n] + 1e-300;
                c.ratio_t("mixed product entry", e / t);
                if !(e <= t) {
                    if c.wants_witness("law", &["composition", name]) {
                        c.violation("law", &["composition", name], inp(), format!("{:?}", got), format!("{:?}", want.to_f64()), format!("entry {} (column-major)", k));
                    } else {
                        c.st.violations += 1;
                    }
                    break;
                }
            }
        }
        let f = |v: &[f32]| -> Vec<f64> { v.iter().map(|x| *x as f64).collect() };
        for it in 0..iters {
            // 3-D
            let sa = gen_seed(&mut rng, it * 5 + 3);
            let sb = gen_seed(&mut rng, it * 5 + [2u64, 3, 4][(it % 3) as usize]);
            let (a, b) = (match build(&sa, K::A3) { Rep::A3(a) => a, _ => unreachable!() }, match build(&sb, K::A3) { Rep::A3(a) => a, _ => unreachable!() });
            let (ma, mb) = (Mat4::from(a), Mat4::from(b));
            let (fa, fb) = (f(&ma.to_cols_array()), f(&mb.to_cols_array()));
            let inp = || format!("a={:?} b={:?}", a, b);
            cmp(&mut c, "Affine3A * Mat4", 4, &f(&(a * mb).to_cols_array()), &fa, &fb, e32, &inp);
            cmp(&mut c, "Mat4 * Affine3A", 4, &f(&(ma * b).to_cols_array()), &fa, &fb, e32, &inp);
            cmp(&mut c, "Mat4::from(Affine3A * Affine3A)", 4, &f(&Mat4::from(a * b).to_cols_array()), &fa, &fb, e32, &inp);
            // composition through the iterator folds and the assigning operator keeps the operand order
            cmp(&mut c, "Product<&Affine3A>", 4, &f(&Mat4::from([a, b].iter().product::<Affine3A>()).to_cols_array()), &fa, &fb, e32, &inp);
            cmp(&mut c, "Affine3A *= Affine3A", 4, &f(&Mat4::from({ let mut x = a; x *= b; x }).to_cols_array()), &fa, &fb, e32, &inp);
            cmp(&mut c, "Product<&Mat4>", 4, &f(&[ma, mb].iter().product::<Mat4>().to_cols_array()), &fa, &fb, e32, &inp);
            let (da, db) = (a.as_daffine3(), b.as_daffine3());
            let (dma, dmb) = (DMat4::from(da), DMat4::from(db));
            cmp(&mut c, "DAffine3 * DMat4", 4, &(da * dmb).to_cols_array(), &fa, &fb, e64, &inp);
            cmp(&mut c, "DMat4 * DAffine3", 4, &(dma * db).to_cols_array(), &fa, &fb, e64, &inp);
            cmp(&mut c, "DMat4::from(DAffine3 * DAffine3)", 4, &DMat4::from(da * db).to_cols_array(), &fa, &fb, e64, &inp);
            cmp(&mut c, "Product<&DAffine3>", 4, &DMat4::from([da, db].iter().product::<DAffine3>()).to_cols_array(), &fa, &fb, e64, &inp);
            cmp(&mut c, "DAffine3 *= DAffine3", 4, &DMat4::from({ let mut x = da; x *= db; x }).to_cols_array(), &fa, &fb, e64, &inp);
            cmp(&mut c, "DMat4 * DMat4 (from affine)", 4, &(dma * dmb).to_cols_array(), &fa, &fb, e64, &inp);
            // Mat3A / Mat3 views of the linear part
            let (l3a, l3b) = (Mat3::from_cols_array(&core::array::from_fn(|i| sa.lin[i] as f32)), Mat3::from_cols_array(&core::array::from_fn(|i| sb.lin[i] as f32)));
            let (fl3a, fl3b) = (f(&l3a.to_cols_array()), f(&l3b.to_cols_array()));
            cmp(&mut c, "Mat3A::from(Mat3) * Mat3A::from(Mat3)", 3, &f(&(Mat3A::from(l3a) * Mat3A::from(l3b)).to_cols_array()), &fl3a, &fl3b, e32, &inp);
            cmp(&mut c, "Mat3::from(Mat3A * Mat3A)", 3, &f(&Mat3::from(Mat3A::from(l3a) * Mat3A::from(l3b)).to_cols_array()), &fl3a, &fl3b, e32, &inp);
            cmp(&mut c, "Mat4::from_mat3(a) * Mat4::from_mat3(b) block", 3, &f(&Mat3::from_mat4(Mat4::from_mat3(l3a) * Mat4::from_mat3a(Mat3A::from(l3b))).to_cols_array()), &fl3a, &fl3b, e32, &inp);
            // 2-D
            let mk2 = |r: &mut Rng| {
                let ang = r.range(-6.3, 6.3) as f32;
                let sc = Vec2::new(r.logmag(-2.0, 2.0) as f32, r.logmag(-2.0, 2.0) as f32);
                let t = Vec2::new(r.logmag(-3.0, 5.0) as f32, r.logmag(-3.0, 5.0) as f32);
                Affine2::from_scale_angle_translation(sc, ang, t)
            };
            let (p, q) = (mk2(&mut rng), mk2(&mut rng));
            let (mp, mq) = (Mat3::from(p), Mat3::from(q));
            let (mpa, mqa) = (Mat3A::from(p), Mat3A::from(q));
            let (fp, fq) = (f(&mp.to_cols_array()), f(&mq.to_cols_array()));
            let inp2 = || format!("p={:?} q={:?}", p, q);
            cmp(&mut c, "Affine2 * Mat3", 3, &f(&(p * mq).to_cols_array()), &fp, &fq, e32, &inp2);
            cmp(&mut c, "Mat3 * Affine2", 3, &f(&(mp * q).to_cols_array()), &fp, &fq, e32, &inp2);
            cmp(&mut c, "Affine2 * Mat3A", 3, &f(&(p * mqa).to_cols_array()), &fp, &fq, e32, &inp2);
            cmp(&mut c, "Mat3A * Affine2", 3, &f(&(mpa * q).to_cols_array()), &fp, &fq, e32, &inp2);
            cmp(&mut c, "Mat3::from(Affine2 * Affine2)", 3, &f(&Mat3::from(p * q).to_cols_array()), &fp, &fq, e32, &inp2);
            cmp(&mut c, "Mat3A::from(Affine2 * Affine2)", 3, &f(&Mat3A::from(p * q).to_cols_array()), &fp, &fq, e32, &inp2);
            cmp(&mut c, "Product<&Affine2>", 3, &f(&Mat3::from([p, q].iter().product::<Affine2>()).to_cols_array()), &fp, &fq, e32, &inp2);
            cmp(&mut c, "Affine2 *= Affine2", 3, &f(&Mat3::from({ let mut x = p; x *= q; x }).to_cols_array()), &fp, &fq, e32, &inp2);
            let (dp, dq) = (p.as_daffine2(), q.as_daffine2());
            let (dmp, dmq) = (DMat3::from(dp), DMat3::from(dq));
            cmp(&mut c, "DAffine2 * DMat3", 3, &(dp * dmq).to_cols_array(), &fp, &fq, e64, &inp2);
            cmp(&mut c, "DMat3 * DAffine2", 3, &(dmp * dq).to_cols_array(), &fp, &fq, e64, &inp2);
            cmp(&mut c, "DMat3::from(DAffine2 * DAffine2)", 3, &DMat3::from(dp * dq).to_cols_array(), &fp, &fq, e64, &inp2);
            cmp(&mut c, "Product<&DAffine2>", 3, &DMat3::from([dp, dq].iter().product::<DAffine2>()).to_cols_array(), &fp, &fq, e64, &inp2);
            cmp(&mut c, "DAffine2 *= DAffine2", 3, &DMat3::from({ let mut x = dp; x *= dq; x }).to_cols_array(), &fp, &fq, e64, &inp2);
            // 2-D inverse: Affine2 inverse converts to the Mat3 inverse (compared through the action on a probe)
            let probe = Vec2::new(0.3, -1.7);
            let img = p.transform_point2(probe);
            let back = [("Mat3::from(Affine2::inverse)", Mat3::from(p.inverse()).transform_point2(img)), ("Mat3::from(Affine2).inverse", Mat3::from(p).inverse().transform_point2(img)), ("Mat3A::from(Affine2).inverse", Mat3A::from(p).inverse().transform_point2(img))];
            let lin: M<f64> = M::from_cols(2, &f(&p.matrix2.to_cols_array()));
            let cond = lin.abs().mul(&lin.inverse().abs()).max_abs() * 2.0 + 1.0;
            let tscale = (p.translation.abs().max_element() as f64 + 4.0) * cond;
            for (nm, v) in back {
                let e = (v - probe).abs().max_element() as f64;
                c.ratio_t("inverse_action 2-D", e / (64.0 * e32 * tscale));
                if !(e <= 64.0 * e32 * tscale) {
                    if c.wants_witness("law", &["inverse", nm]) {
                        c.violation("law", &["inverse", nm], format!("p={:?}", p), format!("{:?}", v), format!("{:?}", probe), "inverse does not undo the transform".into());
                    } else {
                        c.st.violations += 1;
                    }
                }
            }
        }
        // composing nothing is the identity map, composing one map is that map
        macro_rules! idf {
            ($($A:ident),*) => {$({
                let e = core::iter::empty::<&$A>().product::<$A>();
                c.event(vcommon::rng::hash_str(stringify!($A)), true);
                if e != <$A>::IDENTITY {
                    c.violation("law", &["composition", "Product of nothing"], stringify!($A).into(), format!("{:?}", e), "IDENTITY".into(), String::new());
                }
            })*};
        }
        idf!(Affine2, Affine3A, DAffine2, DAffine3);
        c.sample("X*Y for X,Y in {Affine3A,Mat4}, {Affine2,Mat3,Mat3A}, f64 forms, both operand orders; from(a*b)=from(a)*from(b); 2-D inverse".into());
        mon.end(c);
    }
}

fn canaries(mon: &mut Monitor) {
    mon.canary("Mat3::from_mat4 returning the transposed block", |m| {
        // run the path checker with a broken edge table is intrusive; emulate on the law checker:
        if let Some(mut c) = m.begin("Canary", "paths") {
            let q = Quat::from_axis_angle(Vec3::new(0.3, 0.5, 0.8).normalize(), 1.1);
            let m4 = Mat4::from_quat(q);
            let bad = Mat3::from_mat4(m4).transpose();
            let p = Vec3::new(1.0, 2.0, 3.0);
            let e = ((bad * p) - (q * p)).abs().max_element();
            if e > 1e-5 {
                c.violation("action_mismatch", &[], String::new(), String::new(), String::new(), String::new());
            }
            c.event(0, true);
            m.end(c);
        }
    });
}

pub fn run(mon: &mut Monitor) {
    canaries(mon);
    run_paths(mon);
    roundtrip(mon);
    laws(mon);
    mixed_products(mon);
    two_d(mon);
}

//! C11: view and projection matrices map the frustum as documented for each handedness.

use crate::gen::*;
use glam::*;
use vcommon::dd::DD;
use vcommon::mon::*;
use vcommon::refm::*;
use vcommon::rng::Rng;

fn viol(c: &mut OpCtx, kind: &str, what: &'static str, inp: &dyn Fn() -> String, got: String, exp: String, note: String) {
    if c.wants_witness(kind, &[what]) {
        c.violation(kind, &[what], inp(), got, exp, note);
    } else {
        c.st.violations += 1;
    }
}

/// checks on the 3x3 rotation part R (column-major f64) and translation t of a view transform
fn view_post(c: &mut OpCtx, what: &'static str, lin: &[f64; 9], t: Option<[f64; 3]>, eye: [f64; 3], dir: [f64; 3], up: [f64; 3], rh: bool, eps: f64, inp: &dyn Fn() -> String) {
    let m: M<f64> = M::from_cols(3, lin);
    // conditioning: side = normalize(dir x up)
    let cr = vcross(&dir, &up);
    let sigma = vlen(&cr).max(1e-300);
    let tol = 16.0 * eps / sigma;
    // orthonormal, det +1
    let g = m.transpose().mul(&m);
    for col in 0..3 {
        for row in 0..3 {
            let e = (g.a[col][row] - if col == row { 1.0 } else { 0.0 }).abs();
            c.ratio_t("orthonormal", e / tol);
            if !(e <= tol) {
                viol(c, "view", what, inp, format!("R^T R ({}, {}) = {}", row, col, g.a[col][row]), "identity".into(), "view rotation must be orthonormal".into());
                return;
            }
        }
    }
    let det = m.det();
    c.ratio_t("det=1", (det - 1.0).abs() / tol);
    if !((det - 1.0).abs() <= tol) {
        viol(c, "view", what, inp, format!("det {}", det), "1".into(), "proper rotation required".into());
    }
    // view direction -> -Z (rh) / +Z (lh)
    let dl = vlen(&dir);
    let vd = m.mul_vec(&dir);
    let ez = if rh { -dl } else { dl };
    for (k, e) in [0.0, 0.0, ez].iter().enumerate() {
        let er = (vd[k] - e).abs();
        c.ratio_t("dir->Z", er / (tol * dl));
        if !(er <= tol * dl) {
            viol(c, "view", what, inp, format!("R*dir = {:?}", vd), format!("(0, 0, {})", ez), format!("view direction must map to {}Z", if rh { "-" } else { "+" }));
            return;
        }
    }
    // up hint -> x = 0, y > 0
    let vu = m.mul_vec(&up);
    let ul = vlen(&up);
    c.ratio_t("up.x=0", vu[0].abs() / (tol * ul));
    if !(vu[0].abs() <= tol * ul) || !(vu[1] > 0.0) {
        viol(c, "view", what, inp, format!("R*up = {:?}", vu), "x = 0, y > 0".into(), "up hint must land in the +Y half of the YZ plane".into());
    }
    // eye -> origin
    if let Some(t) = t {
        let ve = m.mul_vec(&eye);
        let s: f64 = eye.iter().map(|x| x.abs()).sum::<f64>().max(1e-30);
        for k in 0..3 {
            let er = (ve[k] + t[k]).abs();
            c.ratio_t("eye->origin", er / (16.0 * eps * s));
            if !(er <= 16.0 * eps * s) {
                viol(c, "view", what, inp, format!("V*eye = {:?} + {:?}", ve, t), "0".into(), "eye must map to the origin".into());
                return;
            }
        }
    }
}

fn qlin(q: [f64; 4]) -> [f64; 9] {
    let qd = [DD::new(q[0]), DD::new(q[1]), DD::new(q[2]), DD::new(q[3])];
    let m = qmat::<DD>(&qd).to_f64();
    core::array::from_fn(|k| m[k])
}

macro_rules! views {
    ($mon:expr, $tag:expr, $S:ty, $eps:expr, $V3:ident, $M4:ident, $A3:ident, $Q:ident, [$($M3:ident),*]) => {{
        let mon: &mut Monitor = $mon;
        let iters = mon.n(6_000, 600_000);
        let eps: f64 = $eps;
        if let Some(mut c) = mon.begin($tag, "look_to/look_at") {
            let mut rng = Rng::new(mon.op_seed($tag, "view"));
            for it in 0..iters {
                let d: Vec<$S> = unit_hostile::<$S>(&mut rng, 3);
                // up hint: random, or nearly parallel to dir down to |dir x up| = 1e-3
                let u: Vec<$S> = loop {
                    let cand: Vec<$S> = if it % 4 == 0 {
                        let off = 10f64.powf(-rng.range(0.5, 2.9));
                        let p = perp_of(&mut rng, &d.iter().map(|x| *x as f64).collect::<Vec<_>>());
                        let sgn = if rng.bool() { 1.0 } else { -1.0 };
                        let raw: Vec<f64> = (0..3).map(|k| sgn * d[k] as f64 + off * p[k]).collect();
                        let l = raw.iter().map(|x| x * x).sum::<f64>().sqrt();
                        raw.iter().map(|x| (x / l) as $S).collect()
                    } else {
                        unit_hostile::<$S>(&mut rng, 3)
                    };
                    let df: Vec<f64> = d.iter().map(|x| *x as f64).collect();
                    let uf: Vec<f64> = cand.iter().map(|x| *x as f64).collect();
                    if vlen(&vcross(&df, &uf)) >= 1.2e-3 { break cand; }
                };
                let dir = <$V3>::new(d[0], d[1], d[2]);
                let up = <$V3>::new(u[0], u[1], u[2]);
                let eye = <$V3>::new(rng.logmag(-3.0, 10.0) as $S, rng.logmag(-3.0, 10.0) as $S, if it % 7 == 0 { 0.0 } else { rng.logmag(-3.0, 10.0) as $S });
                let dist = 10f64.powf(rng.range(-2.0, 3.0)) as $S;
                let center = eye + dir * dist;
                let (df, uf, ef) = ([d[0] as f64, d[1] as f64, d[2] as f64], [u[0] as f64, u[1] as f64, u[2] as f64], [eye.x as f64, eye.y as f64, eye.z as f64]);
                let cf = [center.x as f64, center.y as f64, center.z as f64];
                // for look_at the actual direction is center - eye as stored
                let dat = [cf[0] - ef[0], cf[1] - ef[1], cf[2] - ef[2]];
                let datl = vlen(&dat).max(1e-300);
                let dat = [dat[0] / datl, dat[1] / datl, dat[2] / datl];
                let dat_ok = datl > 1e-200 && vlen(&vcross(&dat, &uf)) >= 1.2e-3 && (dist as f64) > 64.0 * eps * ef.iter().map(|x| x.abs()).fold(0.0, f64::max) / 1e-3;
                let inp = || format!("eye={:?} dir={:?} up={:?} center={:?}", eye, dir, up, center);
                c.event(it % 64, true);
                if c.need_sample() { c.sample(format!("{}: {}", $tag, inp())); }
                for rh in [true, false] {
                    let m4 = if rh { <$M4>::look_to_rh(eye, dir, up) } else { <$M4>::look_to_lh(eye, dir, up) }.to_cols_array();
                    let lin: [f64; 9] = [m4[0] as f64, m4[1] as f64, m4[2] as f64, m4[4] as f64, m4[5] as f64, m4[6] as f64, m4[8] as f64, m4[9] as f64, m4[10] as f64];
                    view_post(&mut c, if rh { "Mat4::look_to_rh" } else { "Mat4::look_to_lh" }, &lin, Some([m4[12] as f64, m4[13] as f64, m4[14] as f64]), ef, df, uf, rh, eps, &inp);
                    if m4[3] != 0.0 || m4[7] != 0.0 || m4[11] != 0.0 || m4[15] != 1.0 {
                        viol(&mut c, "view", "Mat4 last row", &inp, format!("{:?}", m4), String::new(), String::new());
                    }
                    let a3 = if rh { <$A3>::look_to_rh(eye, dir, up) } else { <$A3>::look_to_lh(eye, dir, up) }.to_cols_array();
                    let lin: [f64; 9] = core::array::from_fn(|k| a3[k] as f64);
                    view_post(&mut c, if rh { "Affine3::look_to_rh" } else { "Affine3::look_to_lh" }, &lin, Some([a3[9] as f64, a3[10] as f64, a3[11] as f64]), ef, df, uf, rh, eps, &inp);
                    let q = if rh { <$Q>::look_to_rh(dir, up) } else { <$Q>::look_to_lh(dir, up) };
                    let qn = ((q.x as f64).powi(2) + (q.y as f64).powi(2) + (q.z as f64).powi(2) + (q.w as f64).powi(2)).sqrt();
                    // the axes handed to the quaternion conversion are orthonormal only to eps / |dir x up|
                    let sigma_q = vlen(&vcross(&df, &uf));
                    c.ratio_t("Quat::look_to unit", (qn - 1.0).abs() / (16.0 * eps / sigma_q));
                    if !((qn - 1.0).abs() <= 16.0 * eps / sigma_q) {
                        viol(&mut c, "view", "Quat::look_to unit", &inp, format!("{}", qn), "1".into(), String::new());
                    }
                    view_post(&mut c, if rh { "Quat::look_to_rh" } else { "Quat::look_to_lh" }, &qlin([q.x as f64, q.y as f64, q.z as f64, q.w as f64]), None, ef, df, uf, rh, 2.0 * eps, &inp);
                    $( {
                        let m3 = if rh { <$M3>::look_to_rh(dir, up) } else { <$M3>::look_to_lh(dir, up) }.to_cols_array();
                        view_post(&mut c, concat!(stringify!($M3), "::look_to"), &core::array::from_fn(|k| m3[k] as f64), None, ef, df, uf, rh, eps, &inp);
                    } )*
                    if dat_ok {
                        let m4 = if rh { <$M4>::look_at_rh(eye, center, up) } else { <$M4>::look_at_lh(eye, center, up) }.to_cols_array();
                        let lin: [f64; 9] = [m4[0] as f64, m4[1] as f64, m4[2] as f64, m4[4] as f64, m4[5] as f64, m4[6] as f64, m4[8] as f64, m4[9] as f64, m4[10] as f64];
                        view_post(&mut c, if rh { "Mat4::look_at_rh" } else { "Mat4::look_at_lh" }, &lin, Some([m4[12] as f64, m4[13] as f64, m4[14] as f64]), ef, dat, uf, rh, 2.0 * eps, &inp);
                        let a3 = if rh { <$A3>::look_at_rh(eye, center, up) } else { <$A3>::look_at_lh(eye, center, up) }.to_cols_array();
                        view_post(&mut c, if rh { "Affine3::look_at_rh" } else { "Affine3::look_at_lh" }, &core::array::from_fn(|k| a3[k] as f64), Some([a3[9] as f64, a3[10] as f64, a3[11] as f64]), ef, dat, uf, rh, 2.0 * eps, &inp);
                        let q = if rh { <$Q>::look_at_rh(eye, center, up) } else { <$Q>::look_at_lh(eye, center, up) };
                        view_post(&mut c, if rh { "Quat::look_at_rh" } else { "Quat::look_at_lh" }, &qlin([q.x as f64, q.y as f64, q.z as f64, q.w as f64]), None, ef, dat, uf, rh, 4.0 * eps, &inp);
                    }
                }
            }
            mon.end(c);
        }
    }};
}

#[derive(Clone, Copy, PartialEq, Debug)]
enum Depth {
    ZeroOne,
    Gl,
    InfForward,
    InfReverse,
}

macro_rules! projections {
    ($mon:expr, $tag:expr, $S:ty, $eps:expr, $V3:ident, $M4:ident, a3: $has3a:tt) => {{
        let mon: &mut Monitor = $mon;
        let iters = mon.n(3_000, 300_000);
        let eps: f64 = $eps;
        if let Some(mut c) = mon.begin($tag, "perspective_*") {
            let mut rng = Rng::new(mon.op_seed($tag, "persp"));
            let ctors: Vec<(&'static str, bool, Depth, Box<dyn Fn($S, $S, $S, $S) -> $M4>)> = vec![
                ("perspective_rh_gl", true, Depth::Gl, Box::new(|f, a, n, fr| <$M4>::perspective_rh_gl(f, a, n, fr))),
                ("perspective_lh", false, Depth::ZeroOne, Box::new(|f, a, n, fr| <$M4>::perspective_lh(f, a, n, fr))),
                ("perspective_rh", true, Depth::ZeroOne, Box::new(|f, a, n, fr| <$M4>::perspective_rh(f, a, n, fr))),
                ("perspective_infinite_lh", false, Depth::InfForward, Box::new(|f, a, n, _| <$M4>::perspective_infinite_lh(f, a, n))),
                ("perspective_infinite_rh", true, Depth::InfForward, Box::new(|f, a, n, _| <$M4>::perspective_infinite_rh(f, a, n))),
                ("perspective_infinite_reverse_lh", false, Depth::InfReverse, Box::new(|f, a, n, _| <$M4>::perspective_infinite_reverse_lh(f, a, n))),
                ("perspective_infinite_reverse_rh", true, Depth::InfReverse, Box::new(|f, a, n, _| <$M4>::perspective_infinite_reverse_rh(f, a, n))),
            ];
            for it in 0..iters {
                use core::f64::consts::PI;
                let fov = match it % 5 { 0 => rng.range(1e-2, 0.2), 1 => rng.range(PI - 0.2, PI - 1e-2), _ => rng.range(0.2, PI - 0.2) } as $S;
                let aspect = 10f64.powf(rng.range(-2.0, 2.0)) as $S;
                // "0 < near < far": every 5th frustum has a very small or very large near plane (the documented formulas must
                // not form near * far before dividing)
                let near = (if it % 5 == 4 { let e = (<$S>::MAX_10_EXP as f64) * 0.55; 10f64.powf(if rng.bool() { rng.range(3.0, e) } else { -rng.range(3.0, e) }) } else { 10f64.powf(rng.range(-3.0, 3.0)) }) as $S;
                let ratio = match it % 4 { 0 => 1.0 + 10f64.powf(rng.range(-3.0, 0.0)), _ => 10f64.powf(rng.range(0.0, 6.0)).max(1.001) };
                let far = (near as f64 * ratio) as $S;
                if !((far as f64) > (near as f64) * 1.0009) { continue; }
                let th = ((fov as f64) * 0.5).tan();
                for (name, rh, depth, f) in &ctors {
                    let m = f(fov, aspect, near, far).to_cols_array();
                    let mm: M<f64> = M::from_cols(4, &m.iter().map(|x| *x as f64).collect::<Vec<_>>());
                    let inp = || format!("{}(fov={:?}, aspect={:?}, near={:?}, far={:?})", name, fov, aspect, near, far);
                    c.event(vcommon::rng::hash_str(name) ^ (it % 16), true);
                    if c.need_sample() { c.sample(format!("{}::{} -> {:?}", $tag, inp(), m)); }
                    let (nf, ff) = (near as f64, far as f64);
                    let depths: Vec<f64> = match depth { Depth::ZeroOne | Depth::Gl => vec![nf, ff, 0.5 * (nf + ff), nf * (ff / nf).sqrt()], _ => vec![nf, 2.0 * nf, 1e3 * nf, 1e6 * nf] };
                    for dp in depths {
                        for (sx, sy) in [(1.0, 1.0), (-1.0, 1.0), (1.0, -1.0), (-1.0, -1.0), (0.0, 0.0), (0.37, -0.61)] {
                            let z = if *rh { -dp } else { dp };
                            let p = [sx * dp * th * aspect as f64, sy * dp * th, z, 1.0];
                            let clip = mm.mul_vec(&p);
                            // clip-space w = -z (rh) / +z (lh), exactly as computed from the matrix rows
                            if clip[3] != dp {
                                viol(&mut c, "projection", "clip w", &inp, format!("w = {} at depth {}", clip[3], dp), format!("{}", dp), "w must be -z (rh) / +z (lh)".into());
                                continue;
                            }
                            let ndc = [clip[0] / clip[3], clip[1] / clip[3], clip[2] / clip[3]];
                            for (k, s) in [(0, sx), (1, sy)] {
                                let e = (ndc[k] - s).abs();
                                c.ratio_t("ndc xy", e / (8.0 * eps));
                                if !(e <= 8.0 * eps) {
                                    viol(&mut c, "projection", "ndc xy", &inp, format!("{:?} for frustum point {:?}", ndc, p), format!("({}, {})", sx, sy), "field of view / aspect must map to +-1".into());
                                }
                            }
                            let (ez, tolz) = match depth {
                                Depth::ZeroOne => ((ff / (ff - nf)) * (1.0 - nf / dp), 8.0 * eps * ff / (ff - nf)),
                                Depth::Gl => ((ff + nf) / (ff - nf) - 2.0 * (ff / (ff - nf)) * (nf / dp), 8.0 * eps * (ff + nf) / (ff - nf) * 2.0),
                                Depth::InfForward => (1.0 - nf / dp, 4.0 * eps),
                                Depth::InfReverse => (nf / dp, 4.0 * eps),
                            };
                            let e = (ndc[2] - ez).abs();
                            c.ratio_t("ndc z", e / tolz);
                            if !(e <= tolz) {
                                viol(&mut c, "projection", "ndc z", &inp, format!("z_ndc {} at depth {}", ndc[2], dp), format!("{}", ez), format!("depth mapping {:?}", depth));
                            }
                            // project_point3 = xyz / w of M*(p,1)
                            let pv = <$V3>::new(p[0] as $S, p[1] as $S, p[2] as $S);
                            let pin = [pv.x as f64, pv.y as f64, pv.z as f64, 1.0];
                            let cl = mm.mul_vec(&pin);
                            let cla = mm.abs().mul_vec(&pin.iter().map(|x| x.abs()).collect::<Vec<_>>());
                            let mut forms: Vec<(&'static str, [f64; 3])> = vec![("project_point3", { let g = <$M4>::from_cols_array(&m).project_point3(pv); [g.x as f64, g.y as f64, g.z as f64] })];
                            projections!(@p3a $has3a, forms, $M4, m, pv);
                            for (nm, g) in forms {
                                for k in 0..3 {
                                    let ex = cl[k] / cl[3];
                                    let tol = 8.0 * eps * (cla[k] / cl[3].abs() + ex.abs() * cla[3] / cl[3].abs());
                                    let e = (g[k] - ex).abs();
                                    c.ratio_t("project_point3", e / tol);
                                    if !(e <= tol) {
                                        viol(&mut c, "projection", nm, &inp, format!("{:?} for p={:?}", g, pv), format!("{}", ex), "project_point3 = xyz / w of M*(p,1)".into());
                                        break;
                                    }
                                }
                            }
                        }
                    }
                }
            }
            mon.end(c);
        }
        if let Some(mut c) = mon.begin($tag, "orthographic_*") {
            let mut rng = Rng::new(mon.op_seed($tag, "ortho"));
            let ctors: Vec<(&'static str, bool, bool, Box<dyn Fn($S, $S, $S, $S, $S, $S) -> $M4>)> = vec![
                ("orthographic_rh_gl", true, true, Box::new(|l, r, b, t, n, f| <$M4>::orthographic_rh_gl(l, r, b, t, n, f))),
                ("orthographic_lh", false, false, Box::new(|l, r, b, t, n, f| <$M4>::orthographic_lh(l, r, b, t, n, f))),
                ("orthographic_rh", true, false, Box::new(|l, r, b, t, n, f| <$M4>::orthographic_rh(l, r, b, t, n, f))),
            ];
            for it in 0..iters {
                let span = |r: &mut Rng| -> ($S, $S) {
                    let c0 = if r.bool() { 0.0 } else { r.logmag(-2.0, 4.0) };
                    let w = 10f64.powf(r.range(-2.0, 4.0));
                    let (a, b) = ((c0 - w) as $S, (c0 + w) as $S);
                    if r.below(8) == 0 { (b, a) } else { (a, b) } // occasionally flipped extents (still non-empty)
                };
                let (l, r) = span(&mut rng);
                let (b, t) = span(&mut rng);
                let near = if it % 3 == 0 { 0.0 } else { rng.logmag(-3.0, 3.0) } as $S;
                let far = (near as f64 + 10f64.powf(rng.range(-2.0, 5.0))) as $S;
                if l == r || b == t || near == far { continue; }
                for (name, rh, gl, f) in &ctors {
                    let m = f(l, r, b, t, near, far).to_cols_array();
                    let mm: M<f64> = M::from_cols(4, &m.iter().map(|x| *x as f64).collect::<Vec<_>>());
                    let inp = || format!("{}(l={:?}, r={:?}, b={:?}, t={:?}, near={:?}, far={:?})", name, l, r, b, t, near, far);
                    c.event(vcommon::rng::hash_str(name) ^ (it % 16), true);
                    if c.need_sample() { c.sample(format!("{}::{} -> {:?}", $tag, inp(), m)); }
                    let (lf, rf, bf, tf, nf, ff) = (l as f64, r as f64, b as f64, t as f64, near as f64, far as f64);
                    for (fx, fy, fz) in [(0.0, 0.0, 0.0), (1.0, 1.0, 1.0), (0.0, 1.0, 0.5), (1.0, 0.0, 1.0), (0.5, 0.5, 0.0), (0.3, 0.8, 0.6), (1.0, 1.0, 0.0), (0.0, 0.0, 1.0)] {
                        let dp = nf + fz * (ff - nf);
                        let p = [lf + fx * (rf - lf), bf + fy * (tf - bf), if *rh { -dp } else { dp }, 1.0];
                        let clip = mm.mul_vec(&p);
                        if clip[3] != 1.0 {
                            viol(&mut c, "projection", "ortho w", &inp, format!("{}", clip[3]), "1".into(), String::new());
                        }
                        let ex = [2.0 * fx - 1.0, 2.0 * fy - 1.0, if *gl { 2.0 * fz - 1.0 } else { fz }];
                        let tols = [8.0 * eps * (lf.abs() + rf.abs() + (rf - lf).abs()) / (rf - lf).abs(), 8.0 * eps * (bf.abs() + tf.abs() + (tf - bf).abs()) / (tf - bf).abs(), 8.0 * eps * (nf.abs() + ff.abs() + (ff - nf).abs()) / (ff - nf).abs()];
                        for k in 0..3 {
                            let e = (clip[k] - ex[k]).abs();
                            c.ratio_t("ortho ndc", e / tols[k]);
                            if !(e <= tols[k]) {
                                viol(&mut c, "projection", "ortho ndc", &inp, format!("{:?} for box point {:?}", clip, p), format!("{:?}", ex), "box planes must map to the documented NDC values".into());
                                break;
                            }
                        }
                    }
                }
            }
            mon.end(c);
        }
    }};
    (@p3a yes, $forms:ident, $M4:ident, $m:ident, $pv:ident) => {
        $forms.push(("project_point3a", { let g = <$M4>::from_cols_array(&$m).project_point3a(<Vec3A as crate::gen::FromLanes<f32, 3>>::mk($pv.to_array())); [g.x as f64, g.y as f64, g.z as f64] }));
    };
    (@p3a no, $forms:ident, $M4:ident, $m:ident, $pv:ident) => {};
}

fn canaries(mon: &mut Monitor) {
    mon.canary("look_to_rh with the lh sign", |m| {
        if let Some(mut c) = m.begin("Canary", "view") {
            let (eye, dir, up) = (Vec3::new(1.0, 2.0, 3.0), Vec3::new(0.0, 0.0, -1.0), Vec3::Y);
            let m4 = Mat4::look_to_lh(eye, dir, up).to_cols_array();
            let lin: [f64; 9] = [m4[0] as f64, m4[1] as f64, m4[2] as f64, m4[4] as f64, m4[5] as f64, m4[6] as f64, m4[8] as f64, m4[9] as f64, m4[10] as f64];
            view_post(&mut c, "x", &lin, None, [1.0, 2.0, 3.0], [0.0, 0.0, -1.0], [0.0, 1.0, 0.0], true, 1.2e-7, &|| String::new());
            c.event(0, true);
            m.end(c);
        }
    });
    mon.canary("view translation with a wrong sign", |m| {
        if let Some(mut c) = m.begin("Canary", "view") {
            let (eye, dir, up) = (Vec3::new(1.0, 2.0, 3.0), Vec3::new(0.0, 0.6, -0.8), Vec3::Y);
            let m4 = Mat4::look_to_rh(eye, dir, up).to_cols_array();
            let lin: [f64; 9] = [m4[0] as f64, m4[1] as f64, m4[2] as f64, m4[4] as f64, m4[5] as f64, m4[6] as f64, m4[8] as f64, m4[9] as f64, m4[10] as f64];
            view_post(&mut c, "x", &lin, Some([m4[12] as f64, -m4[13] as f64, m4[14] as f64]), [1.0, 2.0, 3.0], [0.0, 0.6, -0.8], [0.0, 1.0, 0.0], true, 1.2e-7, &|| String::new());
            c.event(0, true);
            m.end(c);
        }
    });
}

pub fn run(mon: &mut Monitor) {
    canaries(mon);
    views!(mon, "f32", f32, f32::EPSILON as f64, Vec3, Mat4, Affine3A, Quat, [Mat3, Mat3A]);
    views!(mon, "f64", f64, f64::EPSILON, DVec3, DMat4, DAffine3, DQuat, [DMat3]);
    projections!(mon, "f32", f32, f32::EPSILON as f64, Vec3, Mat4, a3: yes);
    projections!(mon, "f64", f64, f64::EPSILON, DVec3, DMat4, a3: no);
}

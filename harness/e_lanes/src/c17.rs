//! C17: all element access paths of a vector or quaternion see the same N lanes.
//! History monitor against a shadow `[bits; N]` model.

use crate::c16::{from_bits, FromBits};
use crate::elem::*;
use glam::*;
use vcommon::mon::*;
use vcommon::rng::Rng;

pub trait Acc: Copy + core::fmt::Debug + core::fmt::Display {
    type E: Elem + FromBits;
    const N: usize;
    const NAME: &'static str;
    fn ctors() -> Vec<&'static str>;
    fn ctor(kind: usize, l: &[Self::E]) -> Self;
    fn writes() -> Vec<&'static str>;
    fn write(&mut self, kind: usize, lane: usize, v: Self::E);
    fn reads() -> Vec<&'static str>;
    fn read(&self, kind: usize) -> Vec<Self::E>;
    fn constants() -> Vec<(&'static str, Self, Vec<Self::E>)>;
    /// further read paths that exist only for some types (conversions that carry the lanes into another vector type)
    fn extra_reads(&self) -> Vec<(&'static str, Vec<Self::E>)> {
        vec![]
    }
    fn debug_name() -> &'static str {
        Self::NAME
    }
}

macro_rules! fields_get {
    (2, $s:expr) => { vec![$s.x, $s.y] };
    (3, $s:expr) => { vec![$s.x, $s.y, $s.z] };
    (4, $s:expr) => { vec![$s.x, $s.y, $s.z, $s.w] };
}
macro_rules! field_set {
    (2, $s:expr, $lane:expr, $v:expr) => { match $lane { 0 => $s.x = $v, _ => $s.y = $v } };
    (3, $s:expr, $lane:expr, $v:expr) => { match $lane { 0 => $s.x = $v, 1 => $s.y = $v, _ => $s.z = $v } };
    (4, $s:expr, $lane:expr, $v:expr) => { match $lane { 0 => $s.x = $v, 1 => $s.y = $v, 2 => $s.z = $v, _ => $s.w = $v } };
}
macro_rules! with_set {
    (2, $s:expr, $lane:expr, $v:expr) => { match $lane { 0 => $s.with_x($v), _ => $s.with_y($v) } };
    (3, $s:expr, $lane:expr, $v:expr) => { match $lane { 0 => $s.with_x($v), 1 => $s.with_y($v), _ => $s.with_z($v) } };
    (4, $s:expr, $lane:expr, $v:expr) => { match $lane { 0 => $s.with_x($v), 1 => $s.with_y($v), 2 => $s.with_z($v), _ => $s.with_w($v) } };
}
macro_rules! tuple_from {
    (2, $T:ty, $l:expr) => { <$T>::from(($l[0], $l[1])) };
    (3, $T:ty, $l:expr) => { <$T>::from(($l[0], $l[1], $l[2])) };
    (4, $T:ty, $l:expr) => { <$T>::from(($l[0], $l[1], $l[2], $l[3])) };
}
macro_rules! tuple_into {
    (2, $S:ty, $s:expr) => {{ let t: ($S, $S) = $s.into(); vec![t.0, t.1] }};
    (3, $S:ty, $s:expr) => {{ let t: ($S, $S, $S) = $s.into(); vec![t.0, t.1, t.2] }};
    (4, $S:ty, $s:expr) => {{ let t: ($S, $S, $S, $S) = $s.into(); vec![t.0, t.1, t.2, t.3] }};
}
macro_rules! new_from {
    (2, $T:ty, $l:expr) => { <$T>::new($l[0], $l[1]) };
    (3, $T:ty, $l:expr) => { <$T>::new($l[0], $l[1], $l[2]) };
    (4, $T:ty, $l:expr) => { <$T>::new($l[0], $l[1], $l[2], $l[3]) };
}
macro_rules! free_from {
    (2, $f:ident, $l:expr) => { glam::$f($l[0], $l[1]) };
    (3, $f:ident, $l:expr) => { glam::$f($l[0], $l[1], $l[2]) };
    (4, $f:ident, $l:expr) => { glam::$f($l[0], $l[1], $l[2], $l[3]) };
}
macro_rules! axis_consts {
    (2, $T:ty, $v:ident, $one:expr, $zero:expr) => {
        $v.push(("X", <$T>::X, vec![$one, $zero]));
        $v.push(("Y", <$T>::Y, vec![$zero, $one]));
    };
    (3, $T:ty, $v:ident, $one:expr, $zero:expr) => {
        $v.push(("X", <$T>::X, vec![$one, $zero, $zero]));
        $v.push(("Y", <$T>::Y, vec![$zero, $one, $zero]));
        $v.push(("Z", <$T>::Z, vec![$zero, $zero, $one]));
    };
    (4, $T:ty, $v:ident, $one:expr, $zero:expr) => {
        $v.push(("X", <$T>::X, vec![$one, $zero, $zero, $zero]));
        $v.push(("Y", <$T>::Y, vec![$zero, $one, $zero, $zero]));
        $v.push(("Z", <$T>::Z, vec![$zero, $zero, $one, $zero]));
        $v.push(("W", <$T>::W, vec![$zero, $zero, $zero, $one]));
    };
}
macro_rules! neg_axis_consts {
    (2, $T:ty, $v:ident, $one:expr, $zero:expr) => {
        $v.push(("NEG_X", <$T>::NEG_X, vec![$one, $zero]));
        $v.push(("NEG_Y", <$T>::NEG_Y, vec![$zero, $one]));
    };
    (3, $T:ty, $v:ident, $one:expr, $zero:expr) => {
        $v.push(("NEG_X", <$T>::NEG_X, vec![$one, $zero, $zero]));
        $v.push(("NEG_Y", <$T>::NEG_Y, vec![$zero, $one, $zero]));
        $v.push(("NEG_Z", <$T>::NEG_Z, vec![$zero, $zero, $one]));
    };
    (4, $T:ty, $v:ident, $one:expr, $zero:expr) => {
        $v.push(("NEG_X", <$T>::NEG_X, vec![$one, $zero, $zero, $zero]));
        $v.push(("NEG_Y", <$T>::NEG_Y, vec![$zero, $one, $zero, $zero]));
        $v.push(("NEG_Z", <$T>::NEG_Z, vec![$zero, $zero, $one, $zero]));
        $v.push(("NEG_W", <$T>::NEG_W, vec![$zero, $zero, $zero, $one]));
    };
}
macro_rules! kind_consts {
    (float, $N:tt, $T:ty, $S:ty, $v:ident) => {
        $v.push(("NEG_ONE", <$T>::NEG_ONE, vec![-1.0 as $S; $N]));
        $v.push(("NAN", <$T>::NAN, vec![<$S>::NAN; $N]));
        $v.push(("INFINITY", <$T>::INFINITY, vec![<$S>::INFINITY; $N]));
        $v.push(("NEG_INFINITY", <$T>::NEG_INFINITY, vec![<$S>::NEG_INFINITY; $N]));
        neg_axis_consts!($N, $T, $v, -1.0 as $S, 0.0 as $S);
    };
    (signed, $N:tt, $T:ty, $S:ty, $v:ident) => {
        $v.push(("NEG_ONE", <$T>::NEG_ONE, vec![-1 as $S; $N]));
        neg_axis_consts!($N, $T, $v, -1 as $S, 0 as $S);
    };
    (unsigned, $N:tt, $T:ty, $S:ty, $v:ident) => {};
}

macro_rules! extra_reads {
    // the padded type: every conversion that moves its three lanes elsewhere must ignore the unused fourth lane, whatever
    // earlier writes left there
    (Vec3A, $s:expr) => {{
        let v: glam::Vec3A = $s;
        let t = <f32 as Elem>::tag(9);
        let a = glam::Vec4::from((v, t)).to_array();
        let b = glam::Vec4::from((t, v)).to_array();
        let e = v.extend(t).to_array();
        let mut buf = [t; 7];
        v.write_to_slice(&mut buf[2..]);
        vec![
            ("Vec4::from((Vec3A, f32))", a[..3].to_vec()),
            ("Vec4::from((f32, Vec3A))", b[1..].to_vec()),
            ("extend", e[..3].to_vec()),
            ("Vec3::from", glam::Vec3::from(v).to_array().to_vec()),
            ("write_to_slice(longer, offset)", buf[2..5].to_vec()),
            ("Vec3A == rebuilt", if v == glam::Vec3A::from_array(v.to_array()) || v.to_array().iter().any(|x| x.is_nan()) { v.to_array().to_vec() } else { vec![t; 3] }),
        ]
    }};
    (Vec3, $s:expr) => {{
        let v: glam::Vec3 = $s;
        let t = <f32 as Elem>::tag(9);
        vec![("Vec4::from((Vec3, f32))", glam::Vec4::from((v, t)).to_array()[..3].to_vec()), ("Vec3A::from", glam::Vec3A::from(v).to_array().to_vec()), ("extend", v.extend(t).to_array()[..3].to_vec())]
    }};
    (Vec4, $s:expr) => {{
        let v: glam::Vec4 = $s;
        vec![("truncate", { let mut x = v.truncate().to_array().to_vec(); x.push(v.w); x }), ("Vec3A::from_vec4", { let mut x = glam::Vec3A::from_vec4(v).to_array().to_vec(); x.push(v.w); x }), ("Into<(Vec3A, f32)>-like", { let (a, w): (glam::Vec3A, f32) = (glam::Vec3A::from_vec4(v), v.w); let mut x = a.to_array().to_vec(); x.push(w); x })]
    }};
    ($T:ident, $s:expr) => {
        vec![]
    };
}

macro_rules! impl_acc {
    ($T:ident, $S:ty, $N:tt, $free:ident, $kind:tt) => {
        impl Acc for $T {
            fn extra_reads(&self) -> Vec<(&'static str, Vec<$S>)> {
                extra_reads!($T, *self)
            }
            type E = $S;
            const N: usize = $N;
            const NAME: &'static str = stringify!($T);
            fn ctors() -> Vec<&'static str> {
                vec!["new", "from_array", "from_slice", "From<[T;N]>", "From<tuple>", "free fn", "from_slice(longer)", "splat+writes"]
            }
            fn ctor(kind: usize, l: &[$S]) -> Self {
                match kind {
                    0 => new_from!($N, $T, l),
                    1 => <$T>::from_array(core::array::from_fn(|k| l[k])),
                    2 => <$T>::from_slice(&l[..$N]),
                    3 => { let a: [$S; $N] = core::array::from_fn(|k| l[k]); <$T>::from(a) }
                    4 => tuple_from!($N, $T, l),
                    5 => free_from!($N, $free, l),
                    // a longer slice that does not start on a 16-byte boundary (whole-register loads must be unaligned loads)
                    6 => { let mut v: Vec<$S> = vec![<$S as Elem>::tag(12)]; v.extend_from_slice(&l[..$N]); v.push(<$S as Elem>::tag(13)); v.push(<$S as Elem>::tag(14)); <$T>::from_slice(&v[1..]) }
                    _ => { let mut s = <$T>::splat(l[0]); for k in 1..$N { s[k] = l[k]; } s }
                }
            }
            fn writes() -> Vec<&'static str> {
                vec!["field=", "IndexMut", "AsMut", "with_*"]
            }
            fn write(&mut self, kind: usize, lane: usize, v: $S) {
                match kind {
                    0 => field_set!($N, self, lane, v),
                    1 => self[lane] = v,
                    2 => { let a: &mut [$S; $N] = self.as_mut(); a[lane] = v; }
                    _ => *self = with_set!($N, (*self), lane, v),
                }
            }
            fn reads() -> Vec<&'static str> {
                vec!["fields", "Index", "to_array", "write_to_slice", "Into<[T;N]>", "Into<tuple>", "AsRef"]
            }
            fn read(&self, kind: usize) -> Vec<$S> {
                match kind {
                    0 => fields_get!($N, self),
                    1 => (0..$N).map(|k| self[k]).collect(),
                    2 => self.to_array().to_vec(),
                    3 => { let mut buf = [<$S as Elem>::tag(15); $N + 3]; self.write_to_slice(&mut buf[1..]); buf[1..$N + 1].to_vec() }
                    4 => { let a: [$S; $N] = (*self).into(); a.to_vec() }
                    5 => tuple_into!($N, $S, (*self)),
                    _ => { let a: &[$S; $N] = self.as_ref(); a.to_vec() }
                }
            }
            fn constants() -> Vec<(&'static str, Self, Vec<$S>)> {
                let mut v: Vec<(&'static str, Self, Vec<$S>)> = Vec::new();
                v.push(("ZERO", <$T>::ZERO, vec![0 as $S; $N]));
                v.push(("ONE", <$T>::ONE, vec![1 as $S; $N]));
                v.push(("MIN", <$T>::MIN, vec![<$S>::MIN; $N]));
                v.push(("MAX", <$T>::MAX, vec![<$S>::MAX; $N]));
                v.push(("default()", <$T>::default(), vec![0 as $S; $N]));
                axis_consts!($N, $T, v, 1 as $S, 0 as $S);
                for k in 0..$N {
                    let mut e = vec![0 as $S; $N];
                    e[k] = 1 as $S;
                    v.push(("AXES[k]", <$T>::AXES[k], e));
                }
                kind_consts!($kind, $N, $T, $S, v);
                v
            }
        }
    };
}

impl_acc!(Vec2, f32, 2, vec2, float);
impl_acc!(Vec3, f32, 3, vec3, float);
impl_acc!(Vec3A, f32, 3, vec3a, float);
impl_acc!(Vec4, f32, 4, vec4, float);
impl_acc!(DVec2, f64, 2, dvec2, float);
impl_acc!(DVec3, f64, 3, dvec3, float);
impl_acc!(DVec4, f64, 4, dvec4, float);
impl_acc!(I8Vec2, i8, 2, i8vec2, signed);
impl_acc!(I8Vec3, i8, 3, i8vec3, signed);
impl_acc!(I8Vec4, i8, 4, i8vec4, signed);
impl_acc!(U8Vec2, u8, 2, u8vec2, unsigned);
impl_acc!(U8Vec3, u8, 3, u8vec3, unsigned);
impl_acc!(U8Vec4, u8, 4, u8vec4, unsigned);
impl_acc!(I16Vec2, i16, 2, i16vec2, signed);
impl_acc!(I16Vec3, i16, 3, i16vec3, signed);
impl_acc!(I16Vec4, i16, 4, i16vec4, signed);
impl_acc!(U16Vec2, u16, 2, u16vec2, unsigned);
impl_acc!(U16Vec3, u16, 3, u16vec3, unsigned);
impl_acc!(U16Vec4, u16, 4, u16vec4, unsigned);
impl_acc!(IVec2, i32, 2, ivec2, signed);
impl_acc!(IVec3, i32, 3, ivec3, signed);
impl_acc!(IVec4, i32, 4, ivec4, signed);
impl_acc!(UVec2, u32, 2, uvec2, unsigned);
impl_acc!(UVec3, u32, 3, uvec3, unsigned);
impl_acc!(UVec4, u32, 4, uvec4, unsigned);
impl_acc!(I64Vec2, i64, 2, i64vec2, signed);
impl_acc!(I64Vec3, i64, 3, i64vec3, signed);
impl_acc!(I64Vec4, i64, 4, i64vec4, signed);
impl_acc!(U64Vec2, u64, 2, u64vec2, unsigned);
impl_acc!(U64Vec3, u64, 3, u64vec3, unsigned);
impl_acc!(U64Vec4, u64, 4, u64vec4, unsigned);
impl_acc!(USizeVec2, usize, 2, usizevec2, unsigned);
impl_acc!(USizeVec3, usize, 3, usizevec3, unsigned);
impl_acc!(USizeVec4, usize, 4, usizevec4, unsigned);

macro_rules! impl_acc_quat {
    ($T:ident, $S:ty, $V4:ident, $free:ident) => {
        impl Acc for $T {
            type E = $S;
            const N: usize = 4;
            const NAME: &'static str = stringify!($T);
            fn ctors() -> Vec<&'static str> {
                vec!["from_xyzw", "from_array", "from_slice", "from_vec4", "free fn", "from_slice(longer)"]
            }
            fn ctor(kind: usize, l: &[$S]) -> Self {
                match kind {
                    0 => <$T>::from_xyzw(l[0], l[1], l[2], l[3]),
                    1 => <$T>::from_array([l[0], l[1], l[2], l[3]]),
                    2 => <$T>::from_slice(&l[..4]),
                    3 => <$T>::from_vec4(<$V4>::new(l[0], l[1], l[2], l[3])),
                    4 => glam::$free(l[0], l[1], l[2], l[3]),
                    _ => { let mut v: Vec<$S> = vec![<$S as Elem>::tag(12)]; v.extend_from_slice(&l[..4]); v.push(<$S as Elem>::tag(13)); <$T>::from_slice(&v[1..]) }
                }
            }
            fn writes() -> Vec<&'static str> {
                vec!["field="]
            }
            fn write(&mut self, _kind: usize, lane: usize, v: $S) {
                field_set!(4, self, lane, v)
            }
            fn reads() -> Vec<&'static str> {
                vec!["fields", "to_array", "write_to_slice", "Into<[T;4]>", "Into<tuple>", "AsRef", "Into<Vec4>", "xyz()+w"]
            }
            fn read(&self, kind: usize) -> Vec<$S> {
                match kind {
                    0 => fields_get!(4, self),
                    1 => self.to_array().to_vec(),
                    2 => { let mut buf = [<$S as Elem>::tag(15); 7]; self.write_to_slice(&mut buf[1..]); buf[1..5].to_vec() }
                    3 => { let a: [$S; 4] = (*self).into(); a.to_vec() }
                    4 => tuple_into!(4, $S, (*self)),
                    5 => { let a: &[$S; 4] = self.as_ref(); a.to_vec() }
                    6 => { let v: $V4 = (*self).into(); v.to_array().to_vec() }
                    _ => { let v = self.xyz(); vec![v.x, v.y, v.z, self.w] }
                }
            }
            fn constants() -> Vec<(&'static str, Self, Vec<$S>)> {
                vec![
                    ("IDENTITY", <$T>::IDENTITY, vec![0.0, 0.0, 0.0, 1.0]),
                    ("default()", <$T>::default(), vec![0.0, 0.0, 0.0, 1.0]),
                    ("NAN", <$T>::NAN, vec![<$S>::NAN; 4]),
                ]
            }
        }
    };
}
impl_acc_quat!(Quat, f32, Vec4, quat);
impl_acc_quat!(DQuat, f64, DVec4, dquat);

fn model_debug<E: Elem>(name: &str, m: &[E]) -> String {
    let p: Vec<String> = m.iter().map(|x| format!("{:?}", x)).collect();
    format!("{}({})", name, p.join(", "))
}
fn model_display<E: Elem>(m: &[E]) -> String {
    let p: Vec<String> = m.iter().map(|x| format!("{}", x)).collect();
    format!("[{}]", p.join(", "))
}
fn model_display_p<E: Elem>(m: &[E]) -> String {
    let p: Vec<String> = m.iter().map(|x| format!("{:.3}", x)).collect();
    format!("[{}]", p.join(", "))
}

fn check_all<T: Acc>(c: &mut OpCtx, v: &T, model: &[T::E], hist: &dyn Fn() -> String) -> bool {
    let n = T::N;
    let mb: Vec<u64> = model.iter().map(|x| x.bits()).collect();
    for (ri, rn) in T::reads().iter().enumerate() {
        let got = v.read(ri);
        let gb: Vec<u64> = got.iter().map(|x| x.bits()).collect();
        if gb.len() != n || gb != mb {
            if c.wants_witness("read_mismatch", &[rn]) {
                c.violation("read_mismatch", &[rn], hist(), show_v(&got), show_v(model), format!("read path {} disagrees with the lane model", rn));
            } else {
                c.st.violations += 1;
            }
            return false;
        }
    }
    for (rn, got) in v.extra_reads() {
        let gb: Vec<u64> = got.iter().map(|x| x.bits()).collect();
        if gb != mb {
            if c.wants_witness("read_mismatch", &[rn]) {
                c.violation("read_mismatch", &[rn], hist(), show_v(&got), show_v(model), format!("read path {} disagrees with the lane model", rn));
            } else {
                c.st.violations += 1;
            }
            return false;
        }
    }
    let dbg = format!("{:?}", v);
    if dbg != model_debug(T::debug_name(), model) {
        c.violation("format_mismatch", &["debug"], hist(), dbg, model_debug(T::debug_name(), model), String::new());
        return false;
    }
    let dsp = format!("{}", v);
    if dsp != model_display(model) {
        c.violation("format_mismatch", &["display"], hist(), dsp, model_display(model), String::new());
        return false;
    }
    if <T::E as Elem>::IS_FLOAT {
        let dsp = format!("{:.3}", v);
        if dsp != model_display_p(model) {
            c.violation("format_mismatch", &["display.3"], hist(), dsp, model_display_p(model), String::new());
            return false;
        }
    }
    true
}

pub fn history_suite<T: Acc>(mon: &mut Monitor, histories: u64, max_len: usize) {
    let ty = T::NAME;
    let n = T::N;
    if let Some(mut c) = mon.begin(ty, "access histories") {
        let mut rng = Rng::new(mon.op_seed(ty, "hist"));
        let ctors = T::ctors();
        let writes = T::writes();
        for h in 0..histories {
            let ck = (h as usize) % ctors.len();
            let init: Vec<T::E> = (0..n + 1)
                .map(|k| match h % 3 {
                    0 => <T::E as Elem>::tag((k * 3 + h as usize) % 16),
                    1 => <T::E as Elem>::rand_bits(&mut rng),
                    _ => *rng.pick(&<T::E as Elem>::pool()),
                })
                .collect();
            let mut v = T::ctor(ck, &init);
            let mut model: Vec<T::E> = init[..n].to_vec();
            let mut log: Vec<String> = vec![format!("{}({})", ctors[ck], show_v(&model))];
            c.event(ck as u64, true);
            if !check_all::<T>(&mut c, &v, &model, &|| log.join("; ")) {
                continue;
            }
            let len = 1 + rng.idx(max_len);
            for _ in 0..len {
                let wk = rng.idx(writes.len());
                let lane = rng.idx(n);
                let val = match rng.below(3) {
                    0 => <T::E as Elem>::tag(rng.idx(16)),
                    1 => <T::E as Elem>::rand_bits(&mut rng),
                    _ => *rng.pick(&<T::E as Elem>::pool()),
                };
                v.write(wk, lane, val);
                model[lane] = val;
                log.push(format!("{}[{}]={}", writes[wk], lane, val.show()));
                c.event(((wk * 4 + lane) as u64) << 8 | (len as u64 & 0xff), true);
                if !check_all::<T>(&mut c, &v, &model, &|| log.join("; ")) {
                    break;
                }
            }
            if c.need_sample() && h == 3 {
                c.sample(format!("{}: {} => {:?}", ty, log.join("; "), v));
            }
        }
        mon.end(c);
    }
    if let Some(mut c) = mon.begin(ty, "named constants") {
        for (name, v, exp) in T::constants() {
            c.event(vcommon::rng::hash_str(name), true);
            let got = v.read(if T::reads()[2] == "to_array" { 2 } else { 1 });
            let ok = got.len() == exp.len() && got.iter().zip(exp.iter()).all(|(a, b)| (a != a && b != b) || a.bits() == b.bits());
            if !ok {
                c.violation("constant_mismatch", &[name], format!("{}::{}", ty, name), show_v(&got), show_v(&exp), String::new());
            }
        }
        c.sample(format!("{} named constants of {} against their documented lane values", T::constants().len(), ty));
        mon.end(c);
    }
}

fn canaries(mon: &mut Monitor) {
    // a vector whose IndexMut writes lane (i+1)%N
    #[derive(Clone, Copy, Debug)]
    struct Skew([f32; 3]);
    impl core::fmt::Display for Skew {
        fn fmt(&self, f: &mut core::fmt::Formatter<'_>) -> core::fmt::Result {
            write!(f, "[{}, {}, {}]", self.0[0], self.0[1], self.0[2])
        }
    }
    impl Acc for Skew {
        type E = f32;
        const N: usize = 3;
        const NAME: &'static str = "Skew";
        fn ctors() -> Vec<&'static str> { vec!["new"] }
        fn ctor(_k: usize, l: &[f32]) -> Self { Skew([l[0], l[1], l[2]]) }
        fn writes() -> Vec<&'static str> { vec!["field=", "IndexMut"] }
        fn write(&mut self, kind: usize, lane: usize, v: f32) { if kind == 0 { self.0[lane] = v } else { self.0[(lane + 1) % 3] = v } }
        fn reads() -> Vec<&'static str> { vec!["fields", "Index", "to_array"] }
        fn read(&self, _k: usize) -> Vec<f32> { self.0.to_vec() }
        fn constants() -> Vec<(&'static str, Self, Vec<f32>)> { vec![] }
        fn debug_name() -> &'static str { "Skew" }
    }
    mon.canary("IndexMut writing the neighbouring lane", |m| {
        if let Some(mut c) = m.begin("Canary", "hist") {
            let mut v = Skew::ctor(0, &[1.0, 2.0, 3.0]);
            let mut model = vec![1.0f32, 2.0, 3.0];
            v.write(1, 0, 9.0);
            model[0] = 9.0;
            let got = v.read(0);
            if got.iter().zip(model.iter()).any(|(a, b)| a.to_bits() != b.to_bits()) {
                c.violation("read_mismatch", &[], String::new(), String::new(), String::new(), String::new());
            }
            c.event(0, true);
            m.end(c);
        }
    });
    // to_array that canonicalises NaN payloads
    mon.canary("to_array losing NaN payloads", |m| {
        if let Some(mut c) = m.begin("Canary", "hist") {
            let model = [f32::from_bits(0x7fc1_2345), 1.0];
            let got = [model[0] + 0.0f32 * 0.0 + f32::NAN.min(0.0), 1.0];
            if got.iter().zip(model.iter()).any(|(a, b)| a.to_bits() != b.to_bits()) {
                c.violation("read_mismatch", &[], String::new(), String::new(), String::new(), String::new());
            }
            c.event(0, true);
            m.end(c);
        }
    });
}

pub fn run(mon: &mut Monitor) {
    let san = mon.config.starts_with("miri");
    let h = if san { 6 } else { mon.n(1_500, 150_000) };
    let l = if san { 6 } else { 32 };
    canaries(mon);
    macro_rules! go {
        ($T:ident, $S:ty, $N:expr, $M:ident, $name:expr) => {
            history_suite::<$T>(mon, h, l);
        };
    }
    crate::for_all_vec_types!(go);
    history_suite::<Quat>(mon, h, l);
    history_suite::<DQuat>(mon, h, l);
    let _ = from_bits::<f32>(0);
}

//! C15: comparison masks, select and the mask algebra behave as lane-wise booleans.

use crate::elem::*;
use glam::*;
use std::collections::hash_map::DefaultHasher;
use std::hash::{Hash, Hasher};
use std::panic::{catch_unwind, AssertUnwindSafe};
use vcommon::mon::*;
use vcommon::rng::Rng;

pub trait MaskLike: Copy + PartialEq + core::fmt::Debug + core::fmt::Display + Hash + 'static {
    const N: usize;
    const NAME: &'static str;
    fn make(b: &[bool]) -> Self;
    fn from_arr(b: &[bool]) -> Self;
    fn from_into(b: &[bool]) -> Self;
    fn splat_(b: bool) -> Self;
    fn dflt() -> Self;
    fn bitmask_(self) -> u32;
    fn any_(self) -> bool;
    fn all_(self) -> bool;
    fn test_(&self, i: usize) -> bool;
    fn set_(&mut self, i: usize, v: bool);
    fn not_(self) -> Self;
    fn and_(self, o: Self) -> Self;
    fn or_(self, o: Self) -> Self;
    fn xor_(self, o: Self) -> Self;
    fn and_assign_(self, o: Self) -> Self;
    fn or_assign_(self, o: Self) -> Self;
    fn xor_assign_(self, o: Self) -> Self;
    fn bools(self) -> Vec<bool>;
    fn u32s(self) -> Vec<u32>;
}

macro_rules! impl_mask {
    ($M:ident, $N:expr, $name:expr, [$($i:tt),*]) => {
        impl MaskLike for $M {
            const N: usize = $N;
            const NAME: &'static str = $name;
            fn make(b: &[bool]) -> Self { <$M>::new($(b[$i]),*) }
            fn from_arr(b: &[bool]) -> Self { <$M>::from_array([$(b[$i]),*]) }
            fn from_into(b: &[bool]) -> Self { let a: [bool; $N] = [$(b[$i]),*]; a.into() }
            fn splat_(b: bool) -> Self { <$M>::splat(b) }
            fn dflt() -> Self { <$M>::default() }
            fn bitmask_(self) -> u32 { self.bitmask() }
            fn any_(self) -> bool { self.any() }
            fn all_(self) -> bool { self.all() }
            fn test_(&self, i: usize) -> bool { self.test(i) }
            fn set_(&mut self, i: usize, v: bool) { self.set(i, v) }
            fn not_(self) -> Self { !self }
            fn and_(self, o: Self) -> Self { self & o }
            fn or_(self, o: Self) -> Self { self | o }
            fn xor_(self, o: Self) -> Self { self ^ o }
            fn and_assign_(mut self, o: Self) -> Self { self &= o; self }
            fn or_assign_(mut self, o: Self) -> Self { self |= o; self }
            fn xor_assign_(mut self, o: Self) -> Self { self ^= o; self }
            fn bools(self) -> Vec<bool> { let a: [bool; $N] = self.into(); a.to_vec() }
            fn u32s(self) -> Vec<u32> { let a: [u32; $N] = self.into(); a.to_vec() }
        }
    };
}
impl_mask!(BVec2, 2, "BVec2", [0, 1]);
impl_mask!(BVec3, 3, "BVec3", [0, 1, 2]);
impl_mask!(BVec4, 4, "BVec4", [0, 1, 2, 3]);
impl_mask!(BVec3A, 3, "BVec3A", [0, 1, 2]);
impl_mask!(BVec4A, 4, "BVec4A", [0, 1, 2, 3]);

fn hash_of<T: Hash>(t: &T) -> u64 {
    let mut h = DefaultHasher::new();
    t.hash(&mut h);
    h.finish()
}

fn bools_of(v: u32, n: usize) -> Vec<bool> {
    (0..n).map(|k| v & (1 << k) != 0).collect()
}
fn bm(b: &[bool]) -> u32 {
    b.iter().enumerate().fold(0, |m, (k, x)| m | ((*x as u32) << k))
}

/// A route that builds a mask value from N bools: constructors, conversions, comparisons.
pub struct Route<M> {
    pub name: String,
    pub make: Box<dyn Fn(&[bool]) -> M>,
}

fn model_debug(name: &str, b: &[bool]) -> String {
    let parts: Vec<String> = b.iter().map(|x| if *x { "0xffffffff".to_string() } else { "0x0".to_string() }).collect();
    format!("{}({})", name, parts.join(", "))
}
fn model_display(b: &[bool]) -> String {
    let parts: Vec<String> = b.iter().map(|x| format!("{}", x)).collect();
    format!("[{}]", parts.join(", "))
}

pub fn mask_suite<M: MaskLike>(mon: &mut Monitor, routes: Vec<Route<M>>) {
    let n = M::N;
    let ty = M::NAME;
    let nvals = 1u32 << n;
    // ---- unary observations on every value through every construction route --------------------
    if let Some(mut c) = mon.begin(ty, "observers[all values x all routes]") {
        for r in &routes {
            for val in 0..nvals {
                let b = bools_of(val, n);
                let m = (r.make)(&b);
                let sig = format!("{} via {}", model_display(&b), r.name);
                let mut fail = |c: &mut OpCtx, what: &str, got: String, exp: String| {
                    c.violation("mask_observer", &[what], sig.clone(), got, exp, format!("{} must be a function of the {} boolean lanes only", what, n));
                };
                c.event(val as u64 * 64 + (hash_of(&r.name) & 63), val != 0 && val != nvals - 1);
                if m.bitmask_() != val {
                    fail(&mut c, "bitmask", format!("{:#b}", m.bitmask_()), format!("{:#b}", val));
                }
                if m.any_() != (val != 0) {
                    fail(&mut c, "any", format!("{}", m.any_()), format!("{}", val != 0));
                }
                if m.all_() != (val == nvals - 1) {
                    fail(&mut c, "all", format!("{}", m.all_()), format!("{}", val == nvals - 1));
                }
                for i in 0..n {
                    if m.test_(i) != b[i] {
                        fail(&mut c, "test", format!("test({})={}", i, m.test_(i)), format!("{}", b[i]));
                    }
                }
                for i in [n, n + 1, n + 2, usize::MAX] {
                    let r1 = catch_unwind(AssertUnwindSafe(|| m.test_(i)));
                    if r1.is_ok() {
                        fail(&mut c, "test_oob", format!("test({}) returned {:?}", i, r1.ok()), "panic (index out of bounds)".into());
                    } else {
                        c.st.panics_expected += 1;
                    }
                    let r2 = catch_unwind(AssertUnwindSafe(|| {
                        let mut mm = m;
                        mm.set_(i, true);
                        mm.bitmask_()
                    }));
                    if r2.is_ok() {
                        fail(&mut c, "set_oob", format!("set({}, true) returned, bitmask {:?}", i, r2.ok()), "panic (index out of bounds)".into());
                    } else {
                        c.st.panics_expected += 1;
                    }
                }
                if m.bools() != b {
                    fail(&mut c, "into_bool_array", format!("{:?}", m.bools()), format!("{:?}", b));
                }
                let eu: Vec<u32> = b.iter().map(|x| if *x { u32::MAX } else { 0 }).collect();
                if m.u32s() != eu {
                    fail(&mut c, "into_u32_array", format!("{:x?}", m.u32s()), format!("{:x?}", eu));
                }
                let nb: Vec<bool> = b.iter().map(|x| !x).collect();
                if m.not_().bitmask_() != bm(&nb) || m.not_().bools() != nb {
                    fail(&mut c, "not", format!("{:#b}", m.not_().bitmask_()), format!("{:#b}", bm(&nb)));
                }
                let dbg = format!("{:?}", m);
                if dbg != model_debug(ty, &b) {
                    fail(&mut c, "debug", dbg, model_debug(ty, &b));
                }
                let dsp = format!("{}", m);
                if dsp != model_display(&b) {
                    fail(&mut c, "display", dsp, model_display(&b));
                }
                // equality and hash against the canonical construction
                let canon = M::make(&b);
                if !(m == canon) || m != canon {
                    fail(&mut c, "eq", "not equal to new(..) of the same lanes".into(), "equal".into());
                }
                if hash_of(&m) != hash_of(&canon) {
                    fail(&mut c, "hash", format!("{:x}", hash_of(&m)), format!("{:x}", hash_of(&canon)));
                }
                for other in 0..nvals {
                    if other != val {
                        let o = M::make(&bools_of(other, n));
                        if m == o {
                            fail(&mut c, "eq", format!("equal to a mask with lanes {:#b}", other), "not equal".into());
                        }
                    }
                }
                // set: every index, both values
                for i in 0..n {
                    for vset in [false, true] {
                        let mut mm = m;
                        mm.set_(i, vset);
                        let mut eb = b.clone();
                        eb[i] = vset;
                        if mm.bitmask_() != bm(&eb) || mm.bools() != eb || !(mm == M::make(&eb)) {
                            fail(&mut c, "set", format!("after set({},{}) lanes {:?}", i, vset, mm.bools()), format!("{:?}", eb));
                        }
                    }
                }
                if c.need_sample() && val == 5 % nvals {
                    c.sample(format!("{} via {}: bitmask {:#b} any {} all {} debug {:?} display {}", ty, r.name, m.bitmask_(), m.any_(), m.all_(), m, m));
                }
            }
        }
        if M::dflt().bitmask_() != 0 {
            c.violation("mask_observer", &["default"], "default()".into(), format!("{:#b}", M::dflt().bitmask_()), "0".into(), String::new());
        }
        for s in [false, true] {
            if M::splat_(s).bitmask_() != if s { nvals - 1 } else { 0 } {
                c.violation("mask_observer", &["splat"], format!("splat({})", s), format!("{:#b}", M::splat_(s).bitmask_()), String::new(), String::new());
            }
        }
        mon.end(c);
        if !mon.scratch {
            mon.exhaustive.push(format!("{}: all {} values x {} construction routes x all observers / indices", ty, nvals, routes.len()));
        }
    }
    // ---- binary operators on all pairs, through all pairs of routes -------------------------------
    if let Some(mut c) = mon.begin(ty, "and/or/xor/eq[all pairs]") {
        for (ri, r1) in routes.iter().enumerate() {
            for (rj, r2) in routes.iter().enumerate() {
                if ri != 0 && rj != 0 && ri != rj {
                    continue; // every route paired with the canonical one and with itself
                }
                for x in 0..nvals {
                    for y in 0..nvals {
                        let (bx, by) = (bools_of(x, n), bools_of(y, n));
                        let (a, b) = ((r1.make)(&bx), (r2.make)(&by));
                        c.event(((x * nvals + y) as u64) << 8 | (ri * 16 + rj) as u64, x != y && x != 0 && y != 0);
                        let checks: [(&str, M, u32); 6] = [
                            ("and", a.and_(b), x & y),
                            ("or", a.or_(b), x | y),
                            ("xor", a.xor_(b), x ^ y),
                            ("and_assign", a.and_assign_(b), x & y),
                            ("or_assign", a.or_assign_(b), x | y),
                            ("xor_assign", a.xor_assign_(b), x ^ y),
                        ];
                        for (name, got, exp) in checks {
                            if got.bitmask_() != exp || got.bools() != bools_of(exp, n) || !(got == M::make(&bools_of(exp, n))) || hash_of(&got) != hash_of(&M::make(&bools_of(exp, n))) {
                                c.violation("mask_algebra", &[name], format!("{:#b} ({}) {} {:#b} ({})", x, r1.name, name, y, r2.name), format!("{:#b}", got.bitmask_()), format!("{:#b}", exp), String::new());
                            }
                        }
                        if (a == b) != (x == y) || (a != b) != (x != y) {
                            c.violation("mask_algebra", &["eq"], format!("{:#b} ({}) == {:#b} ({})", x, r1.name, y, r2.name), format!("{}", a == b), format!("{}", x == y), String::new());
                        }
                    }
                }
            }
        }
        c.sample(format!("{}: all {}x{} value pairs for & | ^ == through route pairs", ty, nvals, nvals));
        mon.end(c);
        if !mon.scratch {
            mon.exhaustive.push(format!("{}: all {} ordered pairs of values for & | ^ (and assign forms), ==", ty, nvals * nvals));
        }
    }
}

fn std_routes<M: MaskLike>() -> Vec<Route<M>> {
    vec![
        Route { name: "new".into(), make: Box::new(|b| M::make(b)) },
        Route { name: "from_array".into(), make: Box::new(|b| M::from_arr(b)) },
        Route { name: "From<[bool;N]>".into(), make: Box::new(|b| M::from_into(b)) },
        Route { name: "set() from default".into(), make: Box::new(|b| { let mut m = M::dflt(); for (i, x) in b.iter().enumerate() { m.set_(i, *x); } m }) },
        Route { name: "set() from all-true".into(), make: Box::new(|b| { let mut m = M::splat_(true); for (i, x) in b.iter().enumerate().rev() { m.set_(i, *x); } m }) },
        Route { name: "not(not)".into(), make: Box::new(|b| M::make(b).not_().not_()) },
        Route { name: "xor with false".into(), make: Box::new(|b| M::make(b).xor_(M::splat_(false))) },
    ]
}

/// Routes that produce SIMD masks by comparing vectors (lane content 0xffffffff from cmpps, and, for
/// BVec3A, every state of the hidden fourth lane).
fn bvec3a_routes() -> Vec<Route<BVec3A>> {
    let mut v = std_routes::<BVec3A>();
    for (hn, h1, h2) in [("hidden-true", 7.0f32, 7.0f32), ("hidden-false", 7.0, 8.0), ("hidden-nan", f32::NAN, f32::NAN), ("hidden-inf", f32::INFINITY, f32::INFINITY)] {
        v.push(Route {
            name: format!("Vec3A::cmpeq, {}", hn),
            make: Box::new(move |b| {
                let a = Vec3A::from_vec4(Vec4::new(1.0, 2.0, 3.0, h1));
                let o = Vec3A::from_vec4(Vec4::new(if b[0] { 1.0 } else { 9.0 }, if b[1] { 2.0 } else { 9.0 }, if b[2] { 3.0 } else { 9.0 }, h2));
                a.cmpeq(o)
            }),
        });
        v.push(Route {
            name: format!("Vec3A::cmpne negated, {}", hn),
            make: Box::new(move |b| {
                let a = Vec3A::from_vec4(Vec4::new(1.0, 2.0, 3.0, h1));
                let o = Vec3A::from_vec4(Vec4::new(if b[0] { 1.0 } else { 9.0 }, if b[1] { 2.0 } else { 9.0 }, if b[2] { 3.0 } else { 9.0 }, h2));
                !a.cmpne(o)
            }),
        });
    }
    v.push(Route { name: "Vec3A::is_nan_mask".into(), make: Box::new(|b| Vec3A::new(if b[0] { f32::NAN } else { 0.0 }, if b[1] { f32::NAN } else { 1.0 }, if b[2] { f32::NAN } else { 2.0 }).is_nan_mask()) });
    v
}
fn bvec4a_routes() -> Vec<Route<BVec4A>> {
    let mut v = std_routes::<BVec4A>();
    #[cfg(not(feature = "scalar-math"))]
    v.push(Route { name: "Vec4::cmplt".into(), make: Box::new(|b| Vec4::new(1.0, 2.0, 3.0, 4.0).cmplt(Vec4::new(if b[0] { 5.0 } else { 0.0 }, if b[1] { 5.0 } else { 0.0 }, if b[2] { 5.0 } else { 0.0 }, if b[3] { 5.0 } else { 0.0 }))) });
    #[cfg(not(feature = "scalar-math"))]
    v.push(Route { name: "Vec4::is_finite_mask".into(), make: Box::new(|b| Vec4::new(if b[0] { 0.0 } else { f32::NAN }, if b[1] { 1.0 } else { f32::INFINITY }, if b[2] { 2.0 } else { f32::NEG_INFINITY }, if b[3] { 3.0 } else { f32::NAN }).is_finite_mask()) });
    v
}
fn bvec_routes_from_cmp<M: MaskLike>(extra: Vec<Route<M>>) -> Vec<Route<M>> {
    let mut v = std_routes::<M>();
    v.extend(extra);
    v
}

/// BVec3A / BVec4A observationally identical to BVec3 / BVec4 up to the printed type name.
/// Display / Debug under formatter flags (width, fill, alignment, precision, alternate): part of "observationally identical"
macro_rules! flagged {
    ($x:expr, $from:expr, $to:expr) => {
        vec![format!("{:8}", $x), format!("{:>9}", $x), format!("{:.2}", $x), format!("{:*^7.3}", $x), format!("{:08}", $x), format!("{:#?}", $x).replace($from, $to), format!("{:12?}", $x).replace($from, $to), format!("{:#}", $x)]
    };
}

fn twin_masks(mon: &mut Monitor) {
    if let Some(mut c) = mon.begin("BVec3A~BVec3,BVec4A~BVec4", "twin observers") {
        for val in 0..8u32 {
            let b = bools_of(val, 3);
            for r in bvec3a_routes() {
                let a = (r.make)(&b);
                let p = BVec3::new(b[0], b[1], b[2]);
                c.event(val as u64, true);
                let same = a.bitmask() == p.bitmask() && a.any() == p.any() && a.all() == p.all() && <[bool; 3]>::from(a) == <[bool; 3]>::from(p) && <[u32; 3]>::from(a) == <[u32; 3]>::from(p) && format!("{}", a) == format!("{}", p) && format!("{:?}", a).replace("BVec3A", "BVec3") == format!("{:?}", p) && (0..3).all(|i| a.test(i) == p.test(i));
                if !same {
                    c.violation("twin_mismatch", &[], format!("lanes {:?} via {}", b, r.name), format!("{:?}", a), format!("{:?}", p), "BVec3A must be observationally identical to BVec3".into());
                }
                let (fa, fp) = (flagged!(a, "BVec3A", "BVec3"), flagged!(p, "BVec3A", "BVec3"));
                if fa != fp {
                    if c.wants_witness("twin_mismatch", &["format flags"]) { c.violation("twin_mismatch", &["format flags"], format!("lanes {:?} via {}", b, r.name), format!("{:?}", fa), format!("{:?}", fp), "Display/Debug with width / precision / fill / alternate flags must match BVec3".into()); } else { c.st.violations += 1; }
                }
            }
        }
        for val in 0..16u32 {
            let b = bools_of(val, 4);
            for r in bvec4a_routes() {
                let a = (r.make)(&b);
                let p = BVec4::new(b[0], b[1], b[2], b[3]);
                c.event(16 + val as u64, true);
                let same = a.bitmask() == p.bitmask() && a.any() == p.any() && a.all() == p.all() && <[bool; 4]>::from(a) == <[bool; 4]>::from(p) && <[u32; 4]>::from(a) == <[u32; 4]>::from(p) && format!("{}", a) == format!("{}", p) && format!("{:?}", a).replace("BVec4A", "BVec4") == format!("{:?}", p) && (0..4).all(|i| a.test(i) == p.test(i));
                if !same {
                    c.violation("twin_mismatch", &[], format!("lanes {:?} via {}", b, r.name), format!("{:?}", a), format!("{:?}", p), "BVec4A must be observationally identical to BVec4".into());
                }
                let (fa, fp) = (flagged!(a, "BVec4A", "BVec4"), flagged!(p, "BVec4A", "BVec4"));
                if fa != fp {
                    if c.wants_witness("twin_mismatch", &["format flags"]) { c.violation("twin_mismatch", &["format flags"], format!("lanes {:?} via {}", b, r.name), format!("{:?}", fa), format!("{:?}", fp), "Display/Debug with width / precision / fill / alternate flags must match BVec4".into()); } else { c.st.violations += 1; }
                }
            }
        }
        c.sample("all 8 / 16 lane values x all construction routes, SIMD mask vs bool-field mask".into());
        mon.end(c);
    }
}

// ---- cmp* and select on every numeric vector type ------------------------------------------------

fn cmp_select<E: Elem, const N: usize>(
    mon: &mut Monitor,
    ty: &str,
    random: u64,
    cmp: &dyn Fn([E; N], [E; N]) -> [u32; 6],
    select: &dyn Fn(u32, [E; N], [E; N]) -> [E; N],
) {
    let names = ["cmpeq", "cmpne", "cmplt", "cmple", "cmpgt", "cmpge"];
    if let Some(mut c) = mon.begin(ty, "cmp*") {
        let pool = E::pool();
        let mut rng = Rng::new(mon.op_seed(ty, "cmp"));
        let mut run = |a: [E; N], b: [E; N], c: &mut OpCtx| {
            let got = cmp(a, b);
            let prims: [&dyn Fn(E, E) -> bool; 6] = [&|x, y| x == y, &|x, y| x != y, &|x, y| x < y, &|x, y| x <= y, &|x, y| x > y, &|x, y| x >= y];
            let mut key = 0u64;
            for (i, p) in prims.iter().enumerate() {
                let exp = (0..N).fold(0u32, |m, k| m | ((p(a[k], b[k]) as u32) << k));
                key = key * 17 + exp as u64;
                if got[i] != exp {
                    if c.wants_witness("mask_mismatch", &[names[i]]) {
                        c.violation("mask_mismatch", &[names[i]], format!("a={} b={}", show_v(&a), show_v(&b)), format!("{:#b}", got[i]), format!("{:#b}", exp), format!("{}: bit i = primitive comparison of lane i", names[i]));
                    } else {
                        c.st.violations += 1;
                    }
                }
            }
            c.event(key, key != 0);
            if c.need_sample() {
                c.sample(format!("cmp*({}, {}) -> eq {:#b} ne {:#b} lt {:#b} le {:#b} gt {:#b} ge {:#b}", show_v(&a), show_v(&b), got[0], got[1], got[2], got[3], got[4], got[5]));
            }
        };
        for i in 0..pool.len() {
            for j in 0..pool.len() {
                let lane = (i + j) % N;
                let mut a = [E::zero(); N];
                let mut b = [E::zero(); N];
                for k in 0..N {
                    a[k] = pool[(i + 3 * (k + 1)) % pool.len()];
                    b[k] = pool[(j + 7 * (k + 1) + i) % pool.len()];
                    if (i + j + k) % 3 == 0 {
                        b[k] = a[k];
                    }
                }
                a[lane] = pool[i];
                b[lane] = pool[j];
                run(a, b, &mut c);
            }
        }
        for it in 0..random {
            let mut a = [E::zero(); N];
            let mut b = [E::zero(); N];
            for k in 0..N {
                a[k] = if it % 2 == 0 { E::rand_bits(&mut rng) } else { *rng.pick(&pool) };
                b[k] = match rng.below(3) {
                    0 => a[k],
                    1 => E::rand_bits(&mut rng),
                    _ => *rng.pick(&pool),
                };
            }
            run(a, b, &mut c);
        }
        mon.end(c);
    }
    if let Some(mut c) = mon.begin(ty, "select") {
        let mut rng = Rng::new(mon.op_seed(ty, "select"));
        for round in 0..(4 + random / 64) {
            let mut a = [E::zero(); N];
            let mut b = [E::zero(); N];
            for k in 0..N {
                if round < 4 {
                    a[k] = E::tag((k * 2 + round as usize * 3) % 16);
                    b[k] = E::tag((k * 2 + 1 + round as usize * 5) % 16);
                } else {
                    a[k] = E::rand_bits(&mut rng);
                    b[k] = E::rand_bits(&mut rng);
                }
            }
            for m in 0..(1u32 << N) {
                let got = select(m, a, b);
                c.event(m as u64, m != 0 && m != (1 << N) - 1);
                for k in 0..N {
                    let e = if m & (1 << k) != 0 { a[k] } else { b[k] };
                    if got[k].bits() != e.bits() {
                        if c.wants_witness("select_mismatch", &[]) {
                            c.violation("select_mismatch", &[], format!("mask={:#b} a={} b={}", m, show_v(&a), show_v(&b)), show_v(&got), String::new(), format!("lane {} must be bit-for-bit {}", k, e.show()));
                        } else {
                            c.st.violations += 1;
                        }
                        break;
                    }
                }
                if c.need_sample() && m == 5 % (1 << N) {
                    c.sample(format!("select({:#b}, {}, {}) -> {}", m, show_v(&a), show_v(&b), show_v(&got)));
                }
            }
        }
        mon.end(c);
        if !mon.scratch {
            mon.exhaustive.push(format!("{}::select over all {} masks (tagged and random operands)", ty, 1 << N));
        }
    }
}

macro_rules! cmp_sel_type {
    ($T:ident, $S:ty, $N:expr, $M:ident, $name:expr) => {
        pub fn $T(mon: &mut Monitor) {
            let r = mon.n(2_000, 200_000);
            cmp_select::<$S, $N>(
                mon,
                $name,
                r,
                &|a, b| {
                    let (x, y) = (glam::$T::from_array(a), glam::$T::from_array(b));
                    [x.cmpeq(y).bitmask(), x.cmpne(y).bitmask(), x.cmplt(y).bitmask(), x.cmple(y).bitmask(), x.cmpgt(y).bitmask(), x.cmpge(y).bitmask()]
                },
                &|m, a, b| {
                    let mask = <$M as MaskLike>::make(&bools_of(m, 4));
                    glam::$T::select(mask, glam::$T::from_array(a), glam::$T::from_array(b)).to_array()
                },
            );
        }
    };
}
#[allow(non_snake_case)]
mod per_type {
    use super::*;
    crate::for_all_vec_types!(cmp_sel_type);
}

fn canaries(mon: &mut Monitor) {
    mon.canary("all() compares against 0xf for a 3-lane mask", |m| {
        #[derive(Clone, Copy, Debug, Hash, PartialEq)]
        struct Bad(u32);
        // emulate through cmp_select's comparator instead: cmple implemented as cmplt
        cmp_select::<f32, 3>(m, "Canary", 50, &|a, b| {
            let f = |p: &dyn Fn(f32, f32) -> bool| (0..3).fold(0u32, |mm, k| mm | ((p(a[k], b[k]) as u32) << k));
            [f(&|x, y| x == y), f(&|x, y| x != y), f(&|x, y| x < y), f(&|x, y| x < y), f(&|x, y| x > y), f(&|x, y| x >= y)]
        }, &|mk, a, b| core::array::from_fn(|k| if mk & (1 << k) != 0 { a[k] } else { b[k] }));
        let _ = Bad(0);
    });
    mon.canary("cmpne false on NaN", |m| {
        cmp_select::<f64, 2>(m, "Canary", 50, &|a, b| {
            let f = |p: &dyn Fn(f64, f64) -> bool| (0..2).fold(0u32, |mm, k| mm | ((p(a[k], b[k]) as u32) << k));
            [f(&|x, y| x == y), f(&|x, y| x < y || x > y), f(&|x, y| x < y), f(&|x, y| x <= y), f(&|x, y| x > y), f(&|x, y| x >= y)]
        }, &|mk, a, b| core::array::from_fn(|k| if mk & (1 << k) != 0 { a[k] } else { b[k] }));
    });
    mon.canary("select with swapped operands", |m| {
        cmp_select::<i32, 4>(m, "Canary", 50, &|a, b| {
            let f = |p: &dyn Fn(i32, i32) -> bool| (0..4).fold(0u32, |mm, k| mm | ((p(a[k], b[k]) as u32) << k));
            [f(&|x, y| x == y), f(&|x, y| x != y), f(&|x, y| x < y), f(&|x, y| x <= y), f(&|x, y| x > y), f(&|x, y| x >= y)]
        }, &|mk, a, b| core::array::from_fn(|k| if mk & (1 << k) != 0 { b[k] } else { a[k] }));
    });
    mon.canary("select loses the sign of zero (arithmetic blend)", |m| {
        cmp_select::<f32, 4>(m, "Canary", 50, &|a, b| {
            let f = |p: &dyn Fn(f32, f32) -> bool| (0..4).fold(0u32, |mm, k| mm | ((p(a[k], b[k]) as u32) << k));
            [f(&|x, y| x == y), f(&|x, y| x != y), f(&|x, y| x < y), f(&|x, y| x <= y), f(&|x, y| x > y), f(&|x, y| x >= y)]
        }, &|mk, a, b| core::array::from_fn(|k| if mk & (1 << k) != 0 { a[k] + 0.0 } else { b[k] + 0.0 }));
    });
    // a mask type whose any()/all() look at a fourth lane
    #[derive(Clone, Copy, Debug, Hash)]
    struct Leaky([bool; 4]);
    impl PartialEq for Leaky {
        fn eq(&self, o: &Self) -> bool {
            self.0 == o.0 // compares the hidden lane too
        }
    }
    impl core::fmt::Display for Leaky {
        fn fmt(&self, f: &mut core::fmt::Formatter<'_>) -> core::fmt::Result {
            write!(f, "[{}, {}, {}]", self.0[0], self.0[1], self.0[2])
        }
    }
    impl MaskLike for Leaky {
        const N: usize = 3;
        const NAME: &'static str = "Leaky";
        fn make(b: &[bool]) -> Self { Leaky([b[0], b[1], b[2], false]) }
        fn from_arr(b: &[bool]) -> Self { Self::make(b) }
        fn from_into(b: &[bool]) -> Self { Self::make(b) }
        fn splat_(b: bool) -> Self { Leaky([b, b, b, b]) }
        fn dflt() -> Self { Leaky([false; 4]) }
        fn bitmask_(self) -> u32 { bm(&self.0[..3]) }
        fn any_(self) -> bool { self.0.iter().any(|x| *x) }
        fn all_(self) -> bool { self.0[..3].iter().all(|x| *x) }
        fn test_(&self, i: usize) -> bool { self.0[..3][i] }
        fn set_(&mut self, i: usize, v: bool) { self.0[..3][i] = v }
        fn not_(self) -> Self { Leaky([!self.0[0], !self.0[1], !self.0[2], !self.0[3]]) }
        fn and_(self, o: Self) -> Self { Leaky(core::array::from_fn(|k| self.0[k] & o.0[k])) }
        fn or_(self, o: Self) -> Self { Leaky(core::array::from_fn(|k| self.0[k] | o.0[k])) }
        fn xor_(self, o: Self) -> Self { Leaky(core::array::from_fn(|k| self.0[k] ^ o.0[k])) }
        fn and_assign_(self, o: Self) -> Self { self.and_(o) }
        fn or_assign_(self, o: Self) -> Self { self.or_(o) }
        fn xor_assign_(self, o: Self) -> Self { self.xor_(o) }
        fn bools(self) -> Vec<bool> { self.0[..3].to_vec() }
        fn u32s(self) -> Vec<u32> { self.0[..3].iter().map(|x| if *x { u32::MAX } else { 0 }).collect() }
    }
    mon.canary("3-lane mask whose any()/== read the hidden lane", |m| {
        mask_suite::<Leaky>(m, std_routes::<Leaky>());
    });
}

pub fn run(mon: &mut Monitor) {
    vcommon::mon::quiet_panics();
    canaries(mon);
    mask_suite::<BVec2>(mon, bvec_routes_from_cmp::<BVec2>(vec![
        Route { name: "Vec2::cmpeq".into(), make: Box::new(|b| Vec2::new(1.0, 2.0).cmpeq(Vec2::new(if b[0] { 1.0 } else { 0.0 }, if b[1] { 2.0 } else { 0.0 }))) },
        Route { name: "I64Vec2::cmplt".into(), make: Box::new(|b| I64Vec2::new(1, 2).cmplt(I64Vec2::new(if b[0] { 5 } else { 0 }, if b[1] { 5 } else { 0 }))) },
    ]));
    mask_suite::<BVec3>(mon, bvec_routes_from_cmp::<BVec3>(vec![
        Route { name: "Vec3::cmpge".into(), make: Box::new(|b| Vec3::new(1.0, 2.0, 3.0).cmpge(Vec3::new(if b[0] { 1.0 } else { 9.0 }, if b[1] { 0.0 } else { 9.0 }, if b[2] { 3.0 } else { f32::NAN }))) },
        Route { name: "U8Vec3::cmpne".into(), make: Box::new(|b| U8Vec3::new(1, 2, 3).cmpne(U8Vec3::new(if b[0] { 0 } else { 1 }, if b[1] { 0 } else { 2 }, if b[2] { 0 } else { 3 }))) },
    ]));
    mask_suite::<BVec4>(mon, bvec_routes_from_cmp::<BVec4>(vec![
        Route { name: "DVec4::cmple".into(), make: Box::new(|b| DVec4::new(1.0, 2.0, 3.0, 4.0).cmple(DVec4::new(if b[0] { 1.0 } else { 0.0 }, if b[1] { 5.0 } else { f64::NAN }, if b[2] { 3.0 } else { 0.0 }, if b[3] { f64::INFINITY } else { 0.0 }))) },
    ]));
    mask_suite::<BVec3A>(mon, bvec3a_routes());
    mask_suite::<BVec4A>(mon, bvec4a_routes());
    twin_masks(mon);
    macro_rules! call_type {
        ($T:ident, $S:ty, $N:expr, $M:ident, $name:expr) => {
            per_type::$T(mon);
        };
    }
    crate::for_all_vec_types!(call_type);
}

//! C01: element-wise float vector operations equal the per-lane primitive.

use crate::lanes::*;
use glam::*;
use vcommon::fl::*;
use vcommon::mon::*;

// ---- primitive models -------------------------------------------------------

pub trait Prim: Fl {
    fn p_floor(self) -> Self;
    fn p_ceil(self) -> Self;
    fn p_trunc(self) -> Self;
    fn p_round(self) -> Self;
    fn p_abs(self) -> Self;
    fn p_signum(self) -> Self;
    fn p_copysign(self, s: Self) -> Self;
    fn p_min(self, o: Self) -> Self;
    fn p_max(self, o: Self) -> Self;
    fn p_clamp(self, lo: Self, hi: Self) -> Self;
    fn p_fract(self) -> Self;
    fn p_recip(self) -> Self;
    fn p_mul_add(self, a: Self, b: Self) -> Self;
    fn p_exp(self) -> Self;
    fn p_powf(self, n: Self) -> Self;
    fn p_div_euclid(self, o: Self) -> Self;
    fn p_rem_euclid(self, o: Self) -> Self;
    fn p_sign_negative(self) -> bool;
}

macro_rules! impl_prim {
    ($t:ty, $expf:path, $powf:path) => {
        impl Prim for $t {
            fn p_floor(self) -> Self {
                self.floor()
            }
            fn p_ceil(self) -> Self {
                self.ceil()
            }
            fn p_trunc(self) -> Self {
                self.trunc()
            }
            fn p_round(self) -> Self {
                self.round()
            }
            fn p_abs(self) -> Self {
                self.abs()
            }
            fn p_signum(self) -> Self {
                self.signum()
            }
            fn p_copysign(self, s: Self) -> Self {
                self.copysign(s)
            }
            fn p_min(self, o: Self) -> Self {
                self.min(o)
            }
            fn p_max(self, o: Self) -> Self {
                self.max(o)
            }
            fn p_clamp(self, lo: Self, hi: Self) -> Self {
                self.clamp(lo, hi)
            }
            fn p_fract(self) -> Self {
                self.fract()
            }
            fn p_recip(self) -> Self {
                self.recip()
            }
            fn p_mul_add(self, a: Self, b: Self) -> Self {
                self.mul_add(a, b)
            }
            fn p_exp(self) -> Self {
                $expf(self)
            }
            fn p_powf(self, n: Self) -> Self {
                $powf(self, n)
            }
            fn p_div_euclid(self, o: Self) -> Self {
                self.div_euclid(o)
            }
            fn p_rem_euclid(self, o: Self) -> Self {
                self.rem_euclid(o)
            }
            fn p_sign_negative(self) -> bool {
                self.is_sign_negative()
            }
        }
    };
}

// The lane lift is what C01 checks; the transcendental primitive is whichever
// math back end the build selected (std, or the libm crate with `libm`).
#[cfg(not(feature = "libm"))]
impl_prim!(f32, f32::exp, f32::powf);
#[cfg(not(feature = "libm"))]
impl_prim!(f64, f64::exp, f64::powf);
#[cfg(feature = "libm")]
impl_prim!(f32, libm::expf, libm::powf);
#[cfg(feature = "libm")]
impl_prim!(f64, libm::exp, libm::pow);

fn no_tag1<S: Fl>(_: S) -> &'static str {
    ""
}
fn no_tag2<S: Fl>(_: S, _: S) -> &'static str {
    ""
}
fn tie_tag<S: Fl>(x: S) -> &'static str {
    let v = x.f64();
    if v.is_finite() && (v.abs() - v.abs().floor()) == 0.5 {
        "tie"
    } else {
        "not_tie"
    }
}
fn rem_tag<S: Fl>(a: S, b: S) -> &'static str {
    let (x, y) = (a.f64(), b.f64());
    if !x.is_finite() || !y.is_finite() || y == 0.0 {
        return "nonfinite_or_zero";
    }
    if (x / y).abs() >= (1u64 << S::MANT_BITS) as f64 {
        "huge_quotient"
    } else if (x < 0.0) != (y < 0.0) && x != 0.0 {
        "mixed_sign"
    } else {
        "same_sign"
    }
}

macro_rules! float_suite {
    ($mon:expr, $T:ident, $S:ty, $N:expr, $name:expr) => {{
        let mon: &mut Monitor = $mon;
        let ty: &str = $name;
        let r = mon.n(3_000, 300_000);
        type S = $S;
        const N: usize = $N;
        let v = |a: [S; N]| <$T as crate::elem::MkLanes<S, N>>::mk(a);

        // --- arithmetic operators, all forms -----------------------------------
        macro_rules! arith {
            ($opname:expr, $op:tt, $opa:tt, $prim:expr, $tag:expr) => {{
                bin_vvv::<S, N>(mon, ty, $opname, Cmp::Ieq, Dom::Any, Shape::VV, r, &|a, b| (v(a) $op v(b)).to_array(), &$prim, &$tag);
                bin_vvv::<S, N>(mon, ty, concat!($opname, "(&v,&v)"), Cmp::Ieq, Dom::Any, Shape::VV, r / 4, &|a, b| (&v(a) $op &v(b)).to_array(), &$prim, &$tag);
                bin_vvv::<S, N>(mon, ty, concat!($opname, "(v,&v)"), Cmp::Ieq, Dom::Any, Shape::VV, r / 4, &|a, b| (v(a) $op &v(b)).to_array(), &$prim, &$tag);
                bin_vvv::<S, N>(mon, ty, concat!($opname, "(&v,v)"), Cmp::Ieq, Dom::Any, Shape::VV, r / 4, &|a, b| (&v(a) $op v(b)).to_array(), &$prim, &$tag);
                bin_vvv::<S, N>(mon, ty, concat!($opname, "_assign"), Cmp::Ieq, Dom::Any, Shape::VV, r / 4, &|a, b| { let mut x = v(a); x $opa v(b); x.to_array() }, &$prim, &$tag);
                bin_vvv::<S, N>(mon, ty, concat!($opname, "_assign(&v)"), Cmp::Ieq, Dom::Any, Shape::VV, r / 4, &|a, b| { let mut x = v(a); x $opa &v(b); x.to_array() }, &$prim, &$tag);
                bin_vvv::<S, N>(mon, ty, concat!($opname, "(v,s)"), Cmp::Ieq, Dom::Any, Shape::VS, r, &|a, b| (v(a) $op b[0]).to_array(), &$prim, &$tag);
                bin_vvv::<S, N>(mon, ty, concat!($opname, "(v,&s)"), Cmp::Ieq, Dom::Any, Shape::VS, r / 4, &|a, b| (v(a) $op &b[0]).to_array(), &$prim, &$tag);
                bin_vvv::<S, N>(mon, ty, concat!($opname, "(&v,s)"), Cmp::Ieq, Dom::Any, Shape::VS, r / 4, &|a, b| (&v(a) $op b[0]).to_array(), &$prim, &$tag);
                bin_vvv::<S, N>(mon, ty, concat!($opname, "(&v,&s)"), Cmp::Ieq, Dom::Any, Shape::VS, r / 4, &|a, b| (&v(a) $op &b[0]).to_array(), &$prim, &$tag);
                bin_vvv::<S, N>(mon, ty, concat!($opname, "_assign(s)"), Cmp::Ieq, Dom::Any, Shape::VS, r / 4, &|a, b| { let mut x = v(a); x $opa b[0]; x.to_array() }, &$prim, &$tag);
                bin_vvv::<S, N>(mon, ty, concat!($opname, "_assign(&s)"), Cmp::Ieq, Dom::Any, Shape::VS, r / 4, &|a, b| { let mut x = v(a); x $opa &b[0]; x.to_array() }, &$prim, &$tag);
                bin_vvv::<S, N>(mon, ty, concat!($opname, "(s,v)"), Cmp::Ieq, Dom::Any, Shape::SV, r, &|a, b| (a[0] $op v(b)).to_array(), &$prim, &$tag);
                bin_vvv::<S, N>(mon, ty, concat!($opname, "(s,&v)"), Cmp::Ieq, Dom::Any, Shape::SV, r / 4, &|a, b| (a[0] $op &v(b)).to_array(), &$prim, &$tag);
                bin_vvv::<S, N>(mon, ty, concat!($opname, "(&s,v)"), Cmp::Ieq, Dom::Any, Shape::SV, r / 4, &|a, b| (&a[0] $op v(b)).to_array(), &$prim, &$tag);
                bin_vvv::<S, N>(mon, ty, concat!($opname, "(&s,&v)"), Cmp::Ieq, Dom::Any, Shape::SV, r / 4, &|a, b| (&a[0] $op &v(b)).to_array(), &$prim, &$tag);
            }};
        }
        arith!("add", +, +=, |a: S, b: S| a + b, no_tag2::<S>);
        arith!("sub", -, -=, |a: S, b: S| a - b, no_tag2::<S>);
        arith!("mul", *, *=, |a: S, b: S| a * b, no_tag2::<S>);
        arith!("div", /, /=, |a: S, b: S| a / b, no_tag2::<S>);
        arith!("rem", %, %=, |a: S, b: S| a % b, rem_tag::<S>);

        // --- unary lane-wise -------------------------------------------------------
        un_vv::<S, N>(mon, ty, "neg", Cmp::Ieq, Dom::Any, r, &|a| (-v(a)).to_array(), &|x: S| -x, &no_tag1::<S>);
        un_vv::<S, N>(mon, ty, "neg(&v)", Cmp::Ieq, Dom::Any, r / 4, &|a| (-&v(a)).to_array(), &|x: S| -x, &no_tag1::<S>);
        un_vv::<S, N>(mon, ty, "abs", Cmp::Ieq, Dom::Any, r, &|a| v(a).abs().to_array(), &|x: S| x.p_abs(), &no_tag1::<S>);
        un_vv::<S, N>(mon, ty, "signum", Cmp::Ieq, Dom::Any, r, &|a| v(a).signum().to_array(), &|x: S| x.p_signum(), &no_tag1::<S>);
        un_vv::<S, N>(mon, ty, "floor", Cmp::Ieq, Dom::Any, r * 4, &|a| v(a).floor().to_array(), &|x: S| x.p_floor(), &tie_tag::<S>);
        un_vv::<S, N>(mon, ty, "ceil", Cmp::Ieq, Dom::Any, r * 4, &|a| v(a).ceil().to_array(), &|x: S| x.p_ceil(), &tie_tag::<S>);
        un_vv::<S, N>(mon, ty, "trunc", Cmp::Ieq, Dom::Any, r * 4, &|a| v(a).trunc().to_array(), &|x: S| x.p_trunc(), &tie_tag::<S>);
        un_vv::<S, N>(mon, ty, "round", Cmp::Ieq, Dom::Any, r * 4, &|a| v(a).round().to_array(), &|x: S| x.p_round(), &tie_tag::<S>);
        un_vv::<S, N>(mon, ty, "fract", Cmp::Ieq, Dom::Any, r * 4, &|a| v(a).fract().to_array(), &|x: S| x.p_fract(), &tie_tag::<S>);
        // GLSL-style fract = x - floor(x), and map = the closure applied to each lane in order
        un_vv::<S, N>(mon, ty, "fract_gl", Cmp::Ieq, Dom::Any, r * 2, &|a| v(a).fract_gl().to_array(), &|x: S| x - x.p_floor(), &tie_tag::<S>);
        un_vv::<S, N>(mon, ty, "map(|x| x * 3 - 1)", Cmp::Ieq, Dom::Any, r, &|a| v(a).map(|x| x * S::of(3.0) - S::of(1.0)).to_array(), &|x: S| x * S::of(3.0) - S::of(1.0), &no_tag1::<S>);
        un_vv::<S, N>(mon, ty, "recip", Cmp::Ieq, Dom::Any, r, &|a| v(a).recip().to_array(), &|x: S| x.p_recip(), &no_tag1::<S>);
        un_vv::<S, N>(mon, ty, "exp", Cmp::Ieq, Dom::Any, r, &|a| v(a).exp().to_array(), &|x: S| x.p_exp(), &no_tag1::<S>);

        // --- binary lane-wise ------------------------------------------------------
        bin_vvv::<S, N>(mon, ty, "copysign", Cmp::Ieq, Dom::Any, Shape::VV, r, &|a, b| v(a).copysign(v(b)).to_array(), &|x: S, y: S| x.p_copysign(y), &no_tag2::<S>);
        bin_vvv::<S, N>(mon, ty, "min", Cmp::Ieq, Dom::NoNan, Shape::VV, r, &|a, b| v(a).min(v(b)).to_array(), &|x: S, y: S| x.p_min(y), &no_tag2::<S>);
        bin_vvv::<S, N>(mon, ty, "max", Cmp::Ieq, Dom::NoNan, Shape::VV, r, &|a, b| v(a).max(v(b)).to_array(), &|x: S, y: S| x.p_max(y), &no_tag2::<S>);
        bin_vvv::<S, N>(mon, ty, "powf", Cmp::Ieq, Dom::Any, Shape::VS, r, &|a, b| v(a).powf(b[0]).to_array(), &|x: S, y: S| x.p_powf(y), &no_tag2::<S>);
        bin_vvv::<S, N>(mon, ty, "div_euclid", Cmp::Ieq, Dom::Any, Shape::VV, r * 2, &|a, b| v(a).div_euclid(v(b)).to_array(), &|x: S, y: S| x.p_div_euclid(y), &rem_tag::<S>);
        bin_vvv::<S, N>(mon, ty, "rem_euclid", Cmp::Ieq, Dom::Any, Shape::VV, r * 2, &|a, b| v(a).rem_euclid(v(b)).to_array(), &|x: S, y: S| x.p_rem_euclid(y), &rem_tag::<S>);

        // --- ternary ---------------------------------------------------------------
        ter_vvvv::<S, N>(mon, ty, "mul_add", Cmp::Ieq, Dom::Any, r * 2, &|_, _, _| {}, &|a, b, c| v(a).mul_add(v(b), v(c)).to_array(), &|x: S, y: S, z: S| x.p_mul_add(y, z));
        ter_vvvv::<S, N>(
            mon, ty, "clamp", Cmp::Ieq, Dom::NoNan, r * 2,
            &|_, lo, hi| { if *lo > *hi { core::mem::swap(lo, hi); } },
            &|a, b, c| v(a).clamp(v(b), v(c)).to_array(),
            &|x: S, lo: S, hi: S| x.p_clamp(lo, hi),
        );

        // --- comparisons -> masks ----------------------------------------------------
        bin_vvm::<S, N>(mon, ty, "cmpeq", r, &|a, b| v(a).cmpeq(v(b)).bitmask(), &|x: S, y: S| x == y);
        bin_vvm::<S, N>(mon, ty, "cmpne", r, &|a, b| v(a).cmpne(v(b)).bitmask(), &|x: S, y: S| x != y);
        bin_vvm::<S, N>(mon, ty, "cmplt", r, &|a, b| v(a).cmplt(v(b)).bitmask(), &|x: S, y: S| x < y);
        bin_vvm::<S, N>(mon, ty, "cmple", r, &|a, b| v(a).cmple(v(b)).bitmask(), &|x: S, y: S| x <= y);
        bin_vvm::<S, N>(mon, ty, "cmpgt", r, &|a, b| v(a).cmpgt(v(b)).bitmask(), &|x: S, y: S| x > y);
        bin_vvm::<S, N>(mon, ty, "cmpge", r, &|a, b| v(a).cmpge(v(b)).bitmask(), &|x: S, y: S| x >= y);

        // --- predicates ----------------------------------------------------------------
        un_vu::<S, N>(mon, ty, "is_nan", r, &|a| v(a).is_nan() as u32, &|a| a.iter().any(|x| x.nan()) as u32);
        un_vu::<S, N>(mon, ty, "is_nan_mask", r, &|a| v(a).is_nan_mask().bitmask(), &|a| (0..N).fold(0, |m, k| m | ((a[k].nan() as u32) << k)));
        un_vu::<S, N>(mon, ty, "is_finite", r, &|a| v(a).is_finite() as u32, &|a| a.iter().all(|x| x.finite()) as u32);
        un_vu::<S, N>(mon, ty, "is_finite_mask", r, &|a| v(a).is_finite_mask().bitmask(), &|a| (0..N).fold(0, |m, k| m | ((a[k].finite() as u32) << k)));
        un_vu::<S, N>(mon, ty, "is_negative_bitmask", r, &|a| v(a).is_negative_bitmask(), &|a| (0..N).fold(0, |m, k| m | ((a[k].p_sign_negative() as u32) << k)));
        bin_vvu::<S, N>(mon, ty, "eq", r, &|a, b| (v(a) == v(b)) as u32, &|a, b| (0..N).all(|k| a[k] == b[k]) as u32);
        bin_vvu::<S, N>(mon, ty, "ne", r, &|a, b| (v(a) != v(b)) as u32, &|a, b| (0..N).any(|k| a[k] != b[k]) as u32);
        for (i, tol) in [0.0f64, 1e-6, 0.5, 1.0, f64::INFINITY, f64::NAN].iter().enumerate() {
            let t = S::of(*tol);
            bin_vvu::<S, N>(mon, ty, &format!("abs_diff_eq[{}]", i), r / 4, &|a, b| v(a).abs_diff_eq(v(b), t) as u32, &|a, b| (0..N).all(|k| (a[k] - b[k]).p_abs() <= t) as u32);
        }

        // --- horizontal min / max (non-NaN lanes) ----------------------------------------
        un_vs::<S, N>(mon, ty, "min_element", Cmp::Ieq, Dom::NoNan, r, &|a| v(a).min_element(), &|a| a.iter().copied().fold(a[0], |m, x| m.p_min(x)));
        un_vs::<S, N>(mon, ty, "max_element", Cmp::Ieq, Dom::NoNan, r, &|a| v(a).max_element(), &|a| a.iter().copied().fold(a[0], |m, x| m.p_max(x)));
        {
            // positions: the property fixes the value found there; with ties (incl. -0 == +0) the first is documented
            if let Some(mut c) = mon.begin(ty, "min_position/max_position") {
            let mut rng = vcommon::rng::Rng::new(mon.op_seed(ty, "minmaxpos"));
            unary_inputs::<S, N>(Dom::NoNan, &mut rng, r, |a| {
                let x = v(a);
                let (pi, pa) = (x.min_position(), x.max_position());
                let mn = a.iter().copied().fold(a[0], |m, x| m.p_min(x));
                let mx = a.iter().copied().fold(a[0], |m, x| m.p_max(x));
                let ei = (0..N).find(|&k| a[k] == mn).unwrap();
                let ea = (0..N).find(|&k| a[k] == mx).unwrap();
                c.event(class_key(&a), ei != ea);
                if c.need_sample() {
                    c.sample(format!("min_position({}) -> {}", hexv(&a), pi));
                }
                if pi != ei || pa != ea {
                    c.violation("position_mismatch", &[], format!("a={}", hexv(&a)), format!("min@{} max@{}", pi, pa), format!("min@{} max@{}", ei, ea), "index of the first lane equal to the horizontal min/max".into());
                }
            });
            mon.end(c);
            }
        }

        // --- Sum / Product over iterators: left folds -------------------------------------
        {
            if let Some(mut c) = mon.begin(ty, "Sum/Product") {
                let mut rng = vcommon::rng::Rng::new(mon.op_seed(ty, "sumprod"));
                for it in 0..(r / 2).max(500) {
                    let len = (it % 9) as usize;
                    let mut items: Vec<[S; N]> = Vec::new();
                    for _ in 0..len {
                        let mut a = [S::ZERO; N];
                        for k in 0..N {
                            a[k] = if it % 3 == 0 { moderate(&mut rng, -3.0, 3.0) } else { hostile(&mut rng) };
                        }
                        items.push(a);
                    }
                    let vs: Vec<$T> = items.iter().map(|a| v(*a)).collect();
                    let s1: $T = vs.iter().copied().sum();
                    let s2: $T = vs.iter().sum();
                    let p1: $T = vs.iter().copied().product();
                    let p2: $T = vs.iter().product();
                    let mut es = [S::ZERO; N];
                    let mut ep = [S::ONE; N];
                    for a in &items {
                        for k in 0..N {
                            es[k] = es[k] + a[k];
                            ep[k] = ep[k] * a[k];
                        }
                    }
                    c.event(len as u64, len >= 2);
                    if c.need_sample() && len >= 2 {
                        c.sample(format!("sum of {} vectors -> {}", len, hexv(&s1.to_array())));
                    }
                    for (name, got, exp) in [("sum", s1, es), ("sum(&)", s2, es), ("product", p1, ep), ("product(&)", p2, ep)] {
                        let g = got.to_array();
                        if (0..N).any(|k| !ieq(g[k], exp[k])) {
                            c.violation("fold_mismatch", &[name], format!("items={:?}", items.iter().map(|a| hexv(a)).collect::<Vec<_>>()), hexv(&g), hexv(&exp), format!("{} must be the left fold from ZERO/ONE", name));
                        }
                    }
                }
                mon.end(c);
            }
        }
    }};
}

fn suite_vec2(mon: &mut Monitor) {
    float_suite!(mon, Vec2, f32, 2, "Vec2");
}
fn suite_vec3(mon: &mut Monitor) {
    float_suite!(mon, Vec3, f32, 3, "Vec3");
}
fn suite_vec3a(mon: &mut Monitor) {
    float_suite!(mon, Vec3A, f32, 3, "Vec3A");
}
fn suite_vec4(mon: &mut Monitor) {
    float_suite!(mon, Vec4, f32, 4, "Vec4");
}
fn suite_dvec2(mon: &mut Monitor) {
    float_suite!(mon, DVec2, f64, 2, "DVec2");
}
fn suite_dvec3(mon: &mut Monitor) {
    float_suite!(mon, DVec3, f64, 3, "DVec3");
}
fn suite_dvec4(mon: &mut Monitor) {
    float_suite!(mon, DVec4, f64, 4, "DVec4");
}

/// Rounding family over f32 bit patterns: stride-sampled in quick, all 2^32 in thorough.
fn rounding_sweep(mon: &mut Monitor) {
    let stride: u64 = if mon.thorough() { 1 } else { 509 };
    macro_rules! sweep {
        ($T:ident, $N:expr, $name:expr, $op:ident, $prim:ident) => {{
            if let Some(mut c) = mon.begin($name, concat!(stringify!($op), "[f32-pattern sweep]")) {
                let mut bits: u64 = 0;
                let mut n_events = 0u64;
                let mut bad = 0u64;
                while bits < (1u64 << 32) {
                    let mut a = [0f32; $N];
                    for k in 0..$N {
                        a[k] = f32::from_bits(((bits + k as u64 * stride) & 0xffff_ffff) as u32);
                    }
                    let got = <$T as crate::elem::MkLanes<f32, $N>>::mk(a).$op().to_array();
                    for k in 0..$N {
                        let e = a[k].$prim();
                        if !ieq(got[k], e) {
                            bad += 1;
                            let tag = tie_tag(a[k]);
                            if c.wants_witness("lane_mismatch", &[tag]) {
                                c.violation("lane_mismatch", &[tag], format!("a={} lane={}", hexv(&a), k), hexv(&got), e.hex(), String::new());
                            } else {
                                c.st.violations += 1;
                            }
                        }
                    }
                    n_events += 1;
                    bits += stride * $N;
                }
                let _ = bad;
                c.events(n_events);
                c.st.nontrivial += n_events;
                c.st.classes.insert(stride);
                c.st.classes.insert(stride + 1);
                c.sample(format!("{} f32 patterns (stride {}) through {}::{}", n_events * $N, stride, $name, stringify!($op)));
                mon.end(c);
                if stride == 1 {
                    mon.exhaustive.push(format!("{}::{} over all 2^32 f32 bit patterns", $name, stringify!($op)));
                }
            }
        }};
    }
    sweep!(Vec4, 4, "Vec4", floor, p_floor);
    sweep!(Vec4, 4, "Vec4", ceil, p_ceil);
    sweep!(Vec4, 4, "Vec4", trunc, p_trunc);
    sweep!(Vec4, 4, "Vec4", round, p_round);
    sweep!(Vec4, 4, "Vec4", fract, p_fract);
    sweep!(Vec3A, 3, "Vec3A", floor, p_floor);
    sweep!(Vec3A, 3, "Vec3A", ceil, p_ceil);
    sweep!(Vec3A, 3, "Vec3A", trunc, p_trunc);
    sweep!(Vec3A, 3, "Vec3A", round, p_round);
    sweep!(Vec3A, 3, "Vec3A", fract, p_fract);
    sweep!(Vec4, 4, "Vec4", abs, p_abs);
    sweep!(Vec4, 4, "Vec4", signum, p_signum);
    sweep!(Vec4, 4, "Vec4", recip, p_recip);
}

fn canaries(mon: &mut Monitor) {
    // deliberately wrong shims: the monitor must report each of them
    mon.canary("round ties-to-even", |m| {
        un_vv::<f32, 4>(m, "Canary", "round", Cmp::Ieq, Dom::Any, 200, &|a| a.map(|x| x.round_ties_even()), &|x: f32| x.round(), &no_tag1::<f32>);
    });
    mon.canary("floored remainder", |m| {
        bin_vvv::<f32, 4>(m, "Canary", "rem", Cmp::Ieq, Dom::Any, Shape::VV, 500, &|a, b| core::array::from_fn(|k| a[k] - (a[k] / b[k]).floor() * b[k]), &|x: f32, y: f32| x % y, &no_tag2::<f32>);
    });
    mon.canary("lane swap in add", |m| {
        bin_vvv::<f32, 4>(m, "Canary", "add", Cmp::Ieq, Dom::Any, Shape::VV, 100, &|a, b| [a[0] + b[0], a[2] + b[2], a[1] + b[1], a[3] + b[3]], &|x: f32, y: f32| x + y, &no_tag2::<f32>);
    });
    mon.canary("cmple as cmplt", |m| {
        bin_vvm::<f32, 4>(m, "Canary", "cmple", 100, &|a, b| (0..4).fold(0, |mm, k| mm | (((a[k] < b[k]) as u32) << k)), &|x: f32, y: f32| x <= y);
    });
    mon.canary("unfused mul_add", |m| {
        ter_vvvv::<f32, 4>(m, "Canary", "mul_add", Cmp::Ieq, Dom::Any, 3000, &|_, _, _| {}, &|a, b, c| core::array::from_fn(|k| a[k] * b[k] + c[k]), &|x: f32, y: f32, z: f32| x.mul_add(y, z));
    });
    mon.canary("fract via floor", |m| {
        un_vv::<f32, 4>(m, "Canary", "fract", Cmp::Ieq, Dom::Any, 200, &|a| a.map(|x| x - x.floor()), &|x: f32| x.fract(), &no_tag1::<f32>);
    });
    mon.canary("sign bitmask ignores lane 2", |m| {
        un_vu::<f32, 4>(m, "Canary", "is_negative_bitmask", 100, &|a| (0..4).fold(0, |mm, k| mm | ((a[k].is_sign_negative() as u32) << k)) & 0b1011, &|a| (0..4).fold(0, |mm, k| mm | ((a[k].is_sign_negative() as u32) << k)));
    });
    mon.canary("copysign operands swapped", |m| {
        bin_vvv::<f64, 2>(m, "Canary", "copysign", Cmp::Ieq, Dom::Any, Shape::VV, 100, &|a, b| [b[0].copysign(a[0]), b[1].copysign(a[1])], &|x: f64, y: f64| x.copysign(y), &no_tag2::<f64>);
    });
}

pub fn run(mon: &mut Monitor) {
    canaries(mon);
    suite_vec2(mon);
    suite_vec3(mon);
    suite_vec3a(mon);
    suite_vec4(mon);
    suite_dvec2(mon);
    suite_dvec3(mon);
    suite_dvec4(mon);
    rounding_sweep(mon);
}

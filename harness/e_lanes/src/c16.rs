//! C16: swizzle getters and with_ setters permute exactly the lanes their names spell.

use crate::elem::Elem;
use crate::swz_gen;
use glam::*;
use vcommon::mon::*;
use vcommon::rng::Rng;

/// Bit-level lane access for every vector type (visible lanes only).
pub trait LaneIO: Copy {
    fn type_name(&self) -> &'static str;
    fn count(&self) -> usize;
    fn lanes(&self) -> [u64; 4];
    fn from_lanes(l: &[u64]) -> Self;
}

macro_rules! impl_laneio {
    ($T:ident, $S:ty, $N:expr, $M:ident, $name:expr) => {
        impl LaneIO for $T {
            fn type_name(&self) -> &'static str {
                $name
            }
            fn count(&self) -> usize {
                $N
            }
            fn lanes(&self) -> [u64; 4] {
                let a = self.to_array();
                let mut o = [0u64; 4];
                for k in 0..$N {
                    o[k] = <$S as Elem>::bits(a[k]);
                }
                o
            }
            fn from_lanes(l: &[u64]) -> Self {
                let a: [$S; $N] = core::array::from_fn(|k| from_bits::<$S>(l[k]));
                <$T>::from_array(a)
            }
        }
    };
}

pub trait FromBits {
    fn fb(b: u64) -> Self;
}
macro_rules! fbi {
    ($($t:ty),*) => {$( impl FromBits for $t { fn fb(b: u64) -> Self { b as $t } } )*};
}
fbi!(i8, u8, i16, u16, i32, u32, i64, u64, usize);
impl FromBits for f32 {
    fn fb(b: u64) -> Self {
        f32::from_bits(b as u32)
    }
}
impl FromBits for f64 {
    fn fb(b: u64) -> Self {
        f64::from_bits(b)
    }
}
pub fn from_bits<S: FromBits>(b: u64) -> S {
    S::fb(b)
}

crate::for_all_vec_types!(impl_laneio);

fn idx(c: u8) -> usize {
    match c {
        b'x' => 0,
        b'y' => 1,
        b'z' => 2,
        _ => 3,
    }
}

fn fmt_l(l: &[u64], n: usize) -> String {
    let p: Vec<String> = l[..n].iter().map(|x| format!("{:#x}", x)).collect();
    format!("[{}]", p.join(", "))
}

/// lane patterns: pairwise distinct tags (NaN payloads, -0), equal lanes, random
fn patterns<E: Elem>(n: usize, rng: &mut Rng, random: usize) -> Vec<[u64; 4]> {
    let mut v = Vec::new();
    for r in 0..6 {
        let mut p = [0u64; 4];
        for k in 0..n {
            p[k] = E::tag((k * 3 + r * 5) % 16).bits();
        }
        v.push(p);
    }
    // equal lanes, pairs of equal lanes
    let t = E::tag(1).bits();
    v.push([t; 4]);
    v.push([E::tag(0).bits(), E::tag(0).bits(), E::tag(9).bits(), E::tag(9).bits()]);
    for _ in 0..random {
        let mut p = [0u64; 4];
        for k in 0..n {
            p[k] = E::rand_bits(rng).bits();
        }
        v.push(p);
    }
    v
}

struct Expect {
    t2: &'static str,
    t3: &'static str,
    t4: &'static str,
}

macro_rules! swz_suite {
    ($mon:expr, $T:ident, $S:ty, $N:tt, $name:expr, $t2:expr, $t3:expr, $t4:expr, $variants:expr) => {{
        let mon: &mut Monitor = $mon;
        let exp = Expect { t2: $t2, t3: $t3, t4: $t4 };
        let random = mon.n(48, 2000) as usize;
        let variants: Vec<(&str, Box<dyn Fn(&[u64]) -> $T>)> = $variants;
        if let Some(mut c) = mon.begin($name, "swizzle getters") {
            let mut rng = Rng::new(mon.op_seed($name, "get"));
            let pats = patterns::<$S>($N, &mut rng, random);
            let mut names_seen = std::collections::BTreeSet::new();
            for (pi, p) in pats.iter().enumerate() {
                for (vn, mk) in &variants {
                    let v: $T = mk(&p[..]);
                    let mut cb = |name: &'static str, tn: &'static str, cnt: usize, got: [u64; 4]| {
                        names_seen.insert(name);
                        let nb = name.as_bytes();
                        c.event((pi as u64) << 16 | vcommon::rng::hash_str(name) & 0xffff, pi < 6);
                        let want_t = match nb.len() {
                            2 => exp.t2,
                            3 => exp.t3,
                            _ => exp.t4,
                        };
                        let mut bad = None;
                        if tn != want_t || cnt != nb.len() {
                            bad = Some(format!("result type {} with {} lanes, documented {}", tn, cnt, want_t));
                        }
                        for i in 0..nb.len() {
                            if got[i] != p[idx(nb[i])] {
                                bad = Some(format!("lane {} must be source lane {}", i, nb[i] as char));
                                break;
                            }
                        }
                        if let Some(note) = bad {
                            if c.wants_witness("swizzle_mismatch", &[name]) {
                                c.violation("swizzle_mismatch", &[name], format!("{}({} built by {}).{}()", $name, fmt_l(&p[..], $N), vn, name), fmt_l(&got, nb.len()), String::new(), note);
                            } else {
                                c.st.violations += 1;
                            }
                        } else if pi == 0 && name.len() == $N && c.need_sample() {
                            c.sample(format!("{}({}).{}() -> {}", $name, fmt_l(&p[..], $N), name, fmt_l(&got, nb.len())));
                        }
                    };
                    swz_suite!(@get $N, v, &mut cb);
                }
            }
            c.count_n("distinct_names", names_seen.len() as u64);
            mon.end(c);
            if !mon.scratch {
                mon.exhaustive.push(format!("{}: all {} swizzle getter names", $name, names_seen.len()));
            }
        }
        swz_suite!(@set $N, mon, $T, $S, $name, variants, random);
    }};
    (@get 2, $v:expr, $cb:expr) => { swz_gen::get2($v, $cb) };
    (@get 3, $v:expr, $cb:expr) => { swz_gen::get3($v, $cb) };
    (@get 4, $v:expr, $cb:expr) => { swz_gen::get4($v, $cb) };
    (@set 2, $mon:expr, $T:ident, $S:ty, $name:expr, $variants:expr, $random:expr) => {};
    (@set 3, $mon:expr, $T:ident, $S:ty, $name:expr, $variants:expr, $random:expr) => { swz_suite!(@setn 3, get3, set3, $mon, $T, $S, $name, $variants, $random) };
    (@set 4, $mon:expr, $T:ident, $S:ty, $name:expr, $variants:expr, $random:expr) => { swz_suite!(@setn 4, get4, set4, $mon, $T, $S, $name, $variants, $random) };
    (@setn $N:expr, $get:ident, $set:ident, $mon:expr, $T:ident, $S:ty, $name:expr, $variants:expr, $random:expr) => {{
        let mon: &mut Monitor = $mon;
        if let Some(mut c) = mon.begin($name, "swizzle with_ setters") {
            let mut rng = Rng::new(mon.op_seed($name, "set"));
            let pats = patterns::<$S>($N, &mut rng, $random);
            let mut names_seen = std::collections::BTreeSet::new();
            for (pi, p) in pats.iter().enumerate() {
                // replacement lanes: distinct from the source tags
                let rhs: [u64; 4] = core::array::from_fn(|k| <$S as Elem>::tag(10 + k + pi % 3).bits());
                for (vn, mk) in &$variants {
                    let v: $T = mk(&p[..]);
                    let mut cb = |name: &'static str, got: [u64; 4]| {
                        names_seen.insert(name);
                        let nb = name.as_bytes();
                        c.event((pi as u64) << 16 | vcommon::rng::hash_str(name) & 0xffff, pi < 6);
                        let mut e = *p;
                        for i in 0..nb.len() {
                            e[idx(nb[i])] = rhs[i];
                        }
                        if got[..$N] != e[..$N] {
                            if c.wants_witness("with_mismatch", &[name]) {
                                c.violation("with_mismatch", &[name], format!("{}({} built by {}).with_{}({})", $name, fmt_l(&p[..], $N), vn, name, fmt_l(&rhs, nb.len())), fmt_l(&got, $N), fmt_l(&e, $N), "exactly the named lanes replaced in order, all others unchanged".into());
                            } else {
                                c.st.violations += 1;
                            }
                        } else if pi == 0 && c.need_sample() {
                            c.sample(format!("{}({}).with_{}({}) -> {}", $name, fmt_l(&p[..], $N), name, fmt_l(&rhs, nb.len()), fmt_l(&got, $N)));
                        }
                    };
                    swz_gen::$set(v, &rhs, &mut cb);
                    // read-back: with_<n>(v.<n>()) is the identity (write back what was read)
                    let mut ident_bad: Option<&'static str> = None;
                    {
                        let mut getter_results: Vec<(&'static str, [u64; 4])> = Vec::new();
                        swz_gen::$get(v, &mut |name, _tn, cnt, l| {
                            let nb = name.as_bytes();
                            let distinct = (0..cnt).all(|i| (0..i).all(|j| nb[i] != nb[j]));
                            if cnt < $N && distinct {
                                getter_results.push((name, l));
                            }
                        });
                        for (gname, gl) in getter_results {
                            swz_gen::$set(v, &gl, &mut |sname, got| {
                                if sname == gname && got[..$N] != p[..$N] {
                                    ident_bad = Some(sname);
                                }
                            });
                        }
                    }
                    if let Some(n) = ident_bad {
                        c.violation("with_readback", &[n], format!("{}({}) with_{}(self.{}())", $name, fmt_l(&p[..], $N), n, n), String::new(), String::new(), "writing back what was read must be the identity".into());
                    }
                }
            }
            c.count_n("distinct_names", names_seen.len() as u64);
            mon.end(c);
            if !mon.scratch {
                mon.exhaustive.push(format!("{}: all {} with_ setter names", $name, names_seen.len()));
            }
        }
    }};
}

fn plain<T: LaneIO + 'static>() -> Vec<(&'static str, Box<dyn Fn(&[u64]) -> T>)> {
    vec![("from_array", Box::new(|l: &[u64]| T::from_lanes(l)))]
}

fn vec3a_variants() -> Vec<(&'static str, Box<dyn Fn(&[u64]) -> Vec3A>)> {
    let mut v = plain::<Vec3A>();
    macro_rules! hid {
        ($n:expr, $h:expr) => {
            v.push(($n, Box::new(|l: &[u64]| Vec3A::from_vec4(Vec4::new(f32::from_bits(l[0] as u32), f32::from_bits(l[1] as u32), f32::from_bits(l[2] as u32), $h)))));
        };
    }
    hid!("from_vec4, hidden 0", 0.0);
    hid!("from_vec4, hidden 12345", 12345.0);
    hid!("from_vec4, hidden inf", f32::INFINITY);
    hid!("from_vec4, hidden NaN", f32::NAN);
    hid!("from_vec4, hidden sNaN", f32::from_bits(0x7fa0_0055));
    hid!("from_vec4, hidden all-ones", f32::from_bits(0xffff_ffff));
    v
}

fn canaries(mon: &mut Monitor) {
    // a wrong getter table: feed the monitor results of a *different* name
    mon.canary("swizzle yx returning xy", |m| {
        if let Some(mut c) = m.begin("Canary", "swizzle getters") {
            let p = [1u64, 2, 3, 4];
            let name = "yx";
            let got = [p[0], p[1], 0, 0];
            let nb = name.as_bytes();
            for i in 0..2 {
                if got[i] != p[idx(nb[i])] {
                    c.violation("swizzle_mismatch", &[name], String::new(), String::new(), String::new(), String::new());
                    break;
                }
            }
            c.event(0, true);
            m.end(c);
        }
    });
}

pub fn run(mon: &mut Monitor) {
    canaries(mon);
    swz_suite!(mon, Vec2, f32, 2, "Vec2", "Vec2", "Vec3", "Vec4", plain::<Vec2>());
    swz_suite!(mon, Vec3, f32, 3, "Vec3", "Vec2", "Vec3", "Vec4", plain::<Vec3>());
    swz_suite!(mon, Vec3A, f32, 3, "Vec3A", "Vec2", "Vec3A", "Vec4", vec3a_variants());
    swz_suite!(mon, Vec4, f32, 4, "Vec4", "Vec2", "Vec3", "Vec4", plain::<Vec4>());
    swz_suite!(mon, DVec2, f64, 2, "DVec2", "DVec2", "DVec3", "DVec4", plain::<DVec2>());
    swz_suite!(mon, DVec3, f64, 3, "DVec3", "DVec2", "DVec3", "DVec4", plain::<DVec3>());
    swz_suite!(mon, DVec4, f64, 4, "DVec4", "DVec2", "DVec3", "DVec4", plain::<DVec4>());
    macro_rules! ints {
        ($P:literal, $S:ty, $V2:ident, $V3:ident, $V4:ident) => {
            swz_suite!(mon, $V2, $S, 2, concat!($P, "Vec2"), concat!($P, "Vec2"), concat!($P, "Vec3"), concat!($P, "Vec4"), plain::<$V2>());
            swz_suite!(mon, $V3, $S, 3, concat!($P, "Vec3"), concat!($P, "Vec2"), concat!($P, "Vec3"), concat!($P, "Vec4"), plain::<$V3>());
            swz_suite!(mon, $V4, $S, 4, concat!($P, "Vec4"), concat!($P, "Vec2"), concat!($P, "Vec3"), concat!($P, "Vec4"), plain::<$V4>());
        };
    }
    ints!("I8", i8, I8Vec2, I8Vec3, I8Vec4);
    ints!("U8", u8, U8Vec2, U8Vec3, U8Vec4);
    ints!("I16", i16, I16Vec2, I16Vec3, I16Vec4);
    ints!("U16", u16, U16Vec2, U16Vec3, U16Vec4);
    ints!("I", i32, IVec2, IVec3, IVec4);
    ints!("U", u32, UVec2, UVec3, UVec4);
    ints!("I64", i64, I64Vec2, I64Vec3, I64Vec4);
    ints!("U64", u64, U64Vec2, U64Vec3, U64Vec4);
    ints!("USize", usize, USizeVec2, USizeVec3, USizeVec4);
}

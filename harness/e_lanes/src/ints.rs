//! Generic lane-lift checkers for integer vector types, including panic equivalence.

use crate::lanes::Shape;
use std::panic::{catch_unwind, AssertUnwindSafe};
use vcommon::int::*;
use vcommon::mon::*;
use vcommon::rng::Rng;

pub struct IOpts<'a, R> {
    pub rhs_values: Option<&'a [R]>,
    pub shape: Shape,
    /// enumerate all 2^32 pairs of 16-bit operands in the thorough tier
    pub deep16: bool,
    pub random: u64,
    /// f returns Option (checked_*) instead of panicking
    pub option_mode: bool,
}

impl<'a, R> IOpts<'a, R> {
    pub fn vv(random: u64) -> Self {
        IOpts { rhs_values: None, shape: Shape::VV, deep16: false, random, option_mode: false }
    }
    pub fn deep(mut self) -> Self {
        self.deep16 = true;
        self
    }
    pub fn shape(mut self, s: Shape) -> Self {
        self.shape = s;
        self
    }
    pub fn opt(mut self) -> Self {
        self.option_mode = true;
        self
    }
    pub fn rhs(mut self, v: &'a [R]) -> Self {
        self.rhs_values = Some(v);
        self
    }
}

pub fn ihex<S: Int>(v: &[S]) -> String {
    format!("{:?}", v)
}

fn benign<S: Int>(k: usize) -> S {
    S::wrap(k as i128 + 2)
}

/// Enumerate operand pairs. Returns a description of the domain when it was exhaustive.
pub fn pair_domain<S: Int, R: Int, const N: usize>(
    thorough: bool,
    oc: bool,
    opts: &IOpts<R>,
    rng: &mut Rng,
    mut cb: impl FnMut([S; N], [R; N], usize),
) -> Option<String> {
    let mut exhaustive = None;
    let small = |bits: u32| -> bool { bits == 8 };
    if opts.rhs_values.is_none() && small(S::BITS) && small(R::BITS) {
        // all 65536 operand pairs
        for idx in 0..65536u64 {
            let x = S::from_bits64(idx & 0xff);
            let y = R::from_bits64(idx >> 8);
            let lane = (idx as usize + (idx >> 8) as usize) % N;
            // pass 1: swept pair in one lane, benign distinct values elsewhere
            let mut a = [S::zero(); N];
            let mut b = [R::one(); N];
            for k in 0..N {
                a[k] = benign::<S>(k);
            }
            a[lane] = x;
            b[lane] = y;
            cb(a, b, lane);
            // pass 2: every lane holds a (different) swept pair
            if !oc || idx % 4 == 0 {
                for k in 0..N {
                    a[k] = S::from_bits64((idx + 37 * k as u64) & 0xff);
                    b[k] = R::from_bits64(((idx >> 8) + 91 * k as u64) & 0xff);
                }
                cb(a, b, lane);
            }
        }
        exhaustive = Some(format!("all 65536 {}x{} operand pairs", S::NAME, R::NAME));
    } else if opts.rhs_values.is_none() && opts.deep16 && thorough && !oc && S::BITS == 16 && R::BITS == 16 {
        for idx in 0..(1u64 << 32) {
            let x = S::from_bits64(idx & 0xffff);
            let y = R::from_bits64(idx >> 16);
            let lane = (idx % N as u64) as usize;
            let mut a = [S::zero(); N];
            let mut b = [R::one(); N];
            for k in 0..N {
                a[k] = S::from_bits64((idx + 3001 * k as u64) & 0xffff);
                b[k] = R::from_bits64(((idx >> 16) + 7919 * k as u64) & 0xffff);
            }
            a[lane] = x;
            b[lane] = y;
            cb(a, b, lane);
        }
        exhaustive = Some(format!("all 2^32 {}x{} operand pairs", S::NAME, R::NAME));
    } else {
        let la = S::lattice();
        let lb: Vec<R> = match opts.rhs_values {
            Some(v) => v.to_vec(),
            None => R::lattice(),
        };
        for (i, &x) in la.iter().enumerate() {
            for (j, &y) in lb.iter().enumerate() {
              // every boundary pair visits every lane position (a slip in one lane of one method needs that lane)
              for lane in 0..N {
                let mut a = [S::zero(); N];
                let mut b = [R::one(); N];
                if (i + j) % 2 == 0 {
                    for k in 0..N {
                        a[k] = benign::<S>(k);
                    }
                } else {
                    for k in 0..N {
                        a[k] = la[(i + 5 * (k + 1)) % la.len()];
                        b[k] = lb[(j + 3 * (k + 1)) % lb.len()];
                    }
                }
                a[lane] = x;
                b[lane] = y;
                cb(a, b, lane);
              }
            }
        }
        for it in 0..opts.random {
            let mut a = [S::zero(); N];
            let mut b = [R::one(); N];
            let lane = (it as usize) % N;
            let hostile_all = it % 3 == 0;
            for k in 0..N {
                if hostile_all || k == lane {
                    a[k] = S::random(rng);
                    b[k] = match opts.rhs_values {
                        Some(v) => v[rng.idx(v.len())],
                        None => R::random(rng),
                    };
                } else {
                    a[k] = benign::<S>(k);
                }
            }
            cb(a, b, lane);
        }
    }
    exhaustive
}

/// (vector, vector|scalar) -> vector with panic equivalence or Option equivalence.
pub fn ibin<S: Int, R: Int, O: Int, const N: usize>(
    mon: &mut Monitor,
    oc: bool,
    ty: &str,
    op: &str,
    opts: IOpts<R>,
    f: &dyn Fn([S; N], [R; N]) -> Option<[O; N]>,
    prim: &dyn Fn(S, R) -> Option<O>,
) {
    let Some(mut c) = mon.begin(ty, op) else { return };
    let mut rng = Rng::new(mon.op_seed(ty, op));
    let thorough = mon.thorough();
    let ex = pair_domain::<S, R, N>(thorough, oc, &opts, &mut rng, |mut a, mut b, lane| {
        match opts.shape {
            Shape::VV => {}
            Shape::VS => b = [b[lane]; N],
            Shape::SV => a = [a[lane]; N],
        }
        let mut exp = [None; N];
        let mut any_none = false;
        for k in 0..N {
            exp[k] = prim(a[k], b[k]);
            any_none |= exp[k].is_none();
        }
        let got = catch_unwind(AssertUnwindSafe(|| f(a, b)));
        let nontriv = a.iter().any(|x| x.bits64() != a[0].bits64()) || b.iter().any(|x| x.bits64() != b[0].bits64());
        c.event(iclass_key(&a) ^ iclass_key(&b).rotate_left(19) ^ (any_none as u64), nontriv);
        if c.need_sample() && nontriv {
            c.sample(format!("{}({}, {}) -> {:?}", op, ihex(&a), ihex(&b), got.as_ref().ok()));
        }
        let mut bad: Option<(&'static str, String)> = None;
        match (&got, opts.option_mode) {
            (Err(_), true) => bad = Some(("unexpected_panic", "checked form panicked".into())),
            (Err(_), false) => {
                if any_none {
                    c.st.panics_expected += 1;
                } else {
                    bad = Some(("unexpected_panic", "no lane's primitive panics for these operands".into()));
                }
            }
            (Ok(None), true) => {
                if !any_none {
                    bad = Some(("spurious_none", "every lane's primitive returns Some".into()));
                }
            }
            (Ok(None), false) => bad = Some(("harness", "non-option op returned None".into())),
            (Ok(Some(g)), _) => {
                if any_none {
                    bad = Some((if opts.option_mode { "missing_none" } else { "missing_panic" }, "some lane's primitive overflows / panics".into()));
                } else {
                    for k in 0..N {
                        if Some(g[k]) != exp[k] {
                            bad = Some(("lane_mismatch", format!("lane {}: got {:?} expected {:?}", k, g[k], exp[k].unwrap())));
                            break;
                        }
                    }
                }
            }
        }
        if let Some((kind, note)) = bad {
            if c.wants_witness(kind, &[]) {
                c.violation(kind, &[], format!("a={} b={}", ihex(&a), ihex(&b)), format!("{:?}", got.ok()), format!("{:?}", exp), note);
            } else {
                c.st.violations += 1;
            }
        }
    });
    mon.end(c);
    if let Some(e) = ex {
        let s = format!("{}::{} on {}", ty, op, e);
        if !mon.scratch {
            mon.exhaustive.push(s);
        }
    }
}

/// vector -> vector
pub fn iun<S: Int, O: Int, const N: usize>(
    mon: &mut Monitor,
    ty: &str,
    op: &str,
    random: u64,
    f: &dyn Fn([S; N]) -> Option<[O; N]>,
    prim: &dyn Fn(S) -> Option<O>,
) {
    let Some(mut c) = mon.begin(ty, op) else { return };
    let mut rng = Rng::new(mon.op_seed(ty, op));
    let mut run = |a: [S; N], c: &mut OpCtx| {
        let mut exp = [None; N];
        let mut any_none = false;
        for k in 0..N {
            exp[k] = prim(a[k]);
            any_none |= exp[k].is_none();
        }
        let got = catch_unwind(AssertUnwindSafe(|| f(a)));
        let nontriv = a.iter().any(|x| x.bits64() != a[0].bits64());
        c.event(iclass_key(&a) ^ (any_none as u64), nontriv);
        if c.need_sample() && nontriv {
            c.sample(format!("{}({}) -> {:?}", op, ihex(&a), got.as_ref().ok()));
        }
        let mut bad: Option<(&'static str, String)> = None;
        match &got {
            Err(_) => {
                if any_none {
                    c.st.panics_expected += 1;
                } else {
                    bad = Some(("unexpected_panic", String::new()));
                }
            }
            Ok(None) => bad = Some(("harness", String::new())),
            Ok(Some(g)) => {
                if any_none {
                    bad = Some(("missing_panic", "some lane's primitive panics".into()));
                } else {
                    for k in 0..N {
                        if Some(g[k]) != exp[k] {
                            bad = Some(("lane_mismatch", format!("lane {}", k)));
                            break;
                        }
                    }
                }
            }
        }
        if let Some((kind, note)) = bad {
            if c.wants_witness(kind, &[]) {
                c.violation(kind, &[], format!("a={}", ihex(&a)), format!("{:?}", got.ok()), format!("{:?}", exp), note);
            } else {
                c.st.violations += 1;
            }
        }
    };
    let mut ex = None;
    if S::BITS <= 16 {
        let n = 1u64 << S::BITS;
        for idx in 0..n {
            let lane = (idx % N as u64) as usize;
            let mut a = [S::zero(); N];
            for k in 0..N {
                a[k] = benign::<S>(k);
            }
            a[lane] = S::from_bits64(idx);
            run(a, &mut c);
            for k in 0..N {
                a[k] = S::from_bits64((idx + 37 * k as u64) & (n - 1));
            }
            run(a, &mut c);
        }
        ex = Some(format!("{}::{} on all {} values of {}", ty, op, n, S::NAME));
    } else {
        let l = S::lattice();
        for (i, &x) in l.iter().enumerate() {
            for lane in 0..N {
                let mut a = [S::zero(); N];
                for k in 0..N {
                    a[k] = if i % 2 == 0 { benign::<S>(k) } else { l[(i + 5 * (k + 1)) % l.len()] };
                }
                a[lane] = x;
                run(a, &mut c);
            }
        }
        for it in 0..random {
            let mut a = [S::zero(); N];
            for k in 0..N {
                a[k] = if it % 2 == 0 || k == (it as usize % N) { S::random(&mut rng) } else { benign::<S>(k) };
            }
            run(a, &mut c);
        }
    }
    mon.end(c);
    if let Some(e) = ex {
        if !mon.scratch {
            mon.exhaustive.push(e);
        }
    }
}

pub enum Exp<O> {
    Val(O),
    Panic,
    NoneV,
    /// the exact result fits but an intermediate may overflow under some association:
    /// either a panic or this value is accepted (counted as boundary)
    Either(O),
}

/// (vector, vector) -> scalar / Option<scalar> reduction
pub fn ired2<S: Int, O: Int, const N: usize>(
    mon: &mut Monitor,
    oc: bool,
    ty: &str,
    op: &str,
    random: u64,
    f: &dyn Fn([S; N], [S; N]) -> Option<O>,
    oracle: &dyn Fn(&[S; N], &[S; N]) -> Exp<O>,
) {
    let Some(mut c) = mon.begin(ty, op) else { return };
    let mut rng = Rng::new(mon.op_seed(ty, op));
    let opts: IOpts<S> = IOpts::vv(random);
    let thorough = mon.thorough();
    let ex = pair_domain::<S, S, N>(thorough, oc, &opts, &mut rng, |a, b, _lane| {
        let exp = oracle(&a, &b);
        let got = catch_unwind(AssertUnwindSafe(|| f(a, b)));
        let nontriv = a.iter().any(|x| x.bits64() != a[0].bits64()) || b.iter().any(|x| x.bits64() != b[0].bits64());
        c.event(iclass_key(&a) ^ iclass_key(&b).rotate_left(19), nontriv);
        if c.need_sample() && nontriv {
            c.sample(format!("{}({}, {}) -> {:?}", op, ihex(&a), ihex(&b), got.as_ref().ok()));
        }
        let bad: Option<(&'static str, String)> = match (&got, &exp) {
            (Err(_), Exp::Panic) => {
                c.st.panics_expected += 1;
                None
            }
            (Err(_), Exp::Either(_)) => {
                c.boundary();
                None
            }
            (Err(_), _) => Some(("unexpected_panic", String::new())),
            (Ok(None), Exp::NoneV) => None,
            (Ok(None), _) => Some(("spurious_none", String::new())),
            (Ok(Some(g)), Exp::Val(e)) | (Ok(Some(g)), Exp::Either(e)) => {
                if g == e {
                    None
                } else {
                    Some(("value_mismatch", format!("expected {:?}", e)))
                }
            }
            (Ok(Some(_)), Exp::Panic) => Some(("missing_panic", "exact result does not fit the type in an overflow-checking profile".into())),
            (Ok(Some(_)), Exp::NoneV) => Some(("missing_none", String::new())),
        };
        if let Some((kind, note)) = bad {
            if c.wants_witness(kind, &[]) {
                c.violation(kind, &[], format!("a={} b={}", ihex(&a), ihex(&b)), format!("{:?}", got.ok()), String::new(), note);
            } else {
                c.st.violations += 1;
            }
        }
    });
    mon.end(c);
    if let Some(e) = ex {
        if !mon.scratch {
            mon.exhaustive.push(format!("{}::{} on {}", ty, op, e));
        }
    }
}

/// An exactly known term of a reduction: its value modulo 2^64 and, when it fits, its exact i128 value.
#[derive(Clone, Copy, Debug)]
pub struct Wide {
    pub w: u64,
    pub e: Option<i128>,
}
pub fn wval(a: i128) -> Wide {
    Wide { w: a as u64, e: Some(a) }
}
pub fn wmul(a: i128, b: i128) -> Wide {
    Wide { w: (a as u64).wrapping_mul(b as u64), e: a.checked_mul(b) }
}

/// Expectation for a reduction that is a sum of exactly known terms.
/// `inner_ok` = no operation *inside* a term can overflow (e.g. the subtraction in an unsigned distance).
pub fn sum_expect<O: Int>(oc: bool, terms: &[Wide], inner_ok: bool) -> Exp<O> {
    let wrapped = O::from_bits64(terms.iter().fold(0u64, |s, t| s.wrapping_add(t.w)));
    if !oc {
        return Exp::Val(wrapped);
    }
    let mut exact: Option<i128> = Some(0);
    let mut pos: Option<i128> = Some(0);
    let mut neg: Option<i128> = Some(0);
    for t in terms {
        exact = match (exact, t.e) {
            (Some(x), Some(y)) => x.checked_add(y),
            _ => None,
        };
        match t.e {
            Some(y) if y > 0 => pos = pos.and_then(|p| p.checked_add(y)),
            Some(y) => neg = neg.and_then(|p| p.checked_add(y)),
            None => pos = None,
        }
    }
    let fits = |x: Option<i128>| matches!(x, Some(v) if O::fits(v));
    if !fits(exact) {
        return Exp::Panic;
    }
    if inner_ok && terms.iter().all(|t| fits(t.e)) && fits(pos) && fits(neg) {
        Exp::Val(wrapped)
    } else {
        Exp::Either(wrapped)
    }
}

/// Expectation for a product of exactly known factors.
pub fn prod_expect<O: Int>(oc: bool, factors: &[i128]) -> Exp<O> {
    let mut w: u128 = 1;
    for f in factors {
        w = w.wrapping_mul(*f as u128);
    }
    let wrapped = O::from_bits64(w as u64);
    if !oc {
        return Exp::Val(wrapped);
    }
    let n = factors.len();
    if n == 0 {
        return Exp::Val(O::one());
    }
    let mut all_fit = true;
    let mut full: Option<i128> = None;
    for mask in 1u32..(1 << n) {
        let mut p: Option<i128> = Some(1);
        for k in 0..n {
            if mask & (1 << k) != 0 {
                p = p.and_then(|x| x.checked_mul(factors[k]));
            }
        }
        let fits = matches!(p, Some(x) if O::fits(x));
        if mask == (1 << n) - 1 {
            full = if fits { p } else { None };
        }
        all_fit &= fits;
    }
    match full {
        None => {
            // exact product does not fit; but a zero factor makes the exact product 0 (fits) - handled above via fits
            Exp::Panic
        }
        Some(_) if all_fit => Exp::Val(wrapped),
        Some(_) => Exp::Either(wrapped),
    }
}

//! C13: integer vectors are the exact lane-wise lift of the Rust integer primitives,
//! including Option results of checked_* and panic equivalence in the current profile.

use crate::ints::*;
use crate::lanes::Shape;
use glam::*;
use std::panic::{catch_unwind, AssertUnwindSafe};
use vcommon::int::*;
use vcommon::mon::*;

fn cu<T>(f: impl FnOnce() -> T) -> Option<T> {
    catch_unwind(AssertUnwindSafe(f)).ok()
}

macro_rules! int_suite {
    ($mon:expr, $oc:expr, $T:ident, $S:ty, $N:expr, $name:expr, $signed:tt, $OS:ty, $OT:ident, $IV:ident, $UV:ident) => {{
        let mon: &mut Monitor = $mon;
        let oc: bool = $oc;
        let ty: &str = $name;
        type S = $S;
        const N: usize = $N;
        let r = mon.n(1_500, 100_000);
        let v = |a: [S; N]| <$T>::from_array(a);

        // ---- + - * with overflow semantics of the profile; / % panic on 0 and MIN/-1 ----
        macro_rules! arith {
            ($opname:expr, $op:tt, $opa:tt, $prim:expr, $deep:expr) => {{
                let p: &dyn Fn(S, S) -> Option<S> = &$prim;
                let o = |rr: u64| { let o: IOpts<S> = IOpts::vv(rr); if $deep { o.deep() } else { o } };
                ibin::<S, S, S, N>(mon, oc, ty, $opname, o(r), &|a, b| Some((v(a) $op v(b)).to_array()), p);
                ibin::<S, S, S, N>(mon, oc, ty, concat!($opname, "(&v,&v)"), IOpts::vv(r / 4), &|a, b| Some((&v(a) $op &v(b)).to_array()), p);
                ibin::<S, S, S, N>(mon, oc, ty, concat!($opname, "(v,&v)"), IOpts::vv(r / 4), &|a, b| Some((v(a) $op &v(b)).to_array()), p);
                ibin::<S, S, S, N>(mon, oc, ty, concat!($opname, "(&v,v)"), IOpts::vv(r / 4), &|a, b| Some((&v(a) $op v(b)).to_array()), p);
                ibin::<S, S, S, N>(mon, oc, ty, concat!($opname, "_assign"), IOpts::vv(r / 4), &|a, b| { let mut x = v(a); x $opa v(b); Some(x.to_array()) }, p);
                ibin::<S, S, S, N>(mon, oc, ty, concat!($opname, "_assign(&v)"), IOpts::vv(r / 4), &|a, b| { let mut x = v(a); x $opa &v(b); Some(x.to_array()) }, p);
                ibin::<S, S, S, N>(mon, oc, ty, concat!($opname, "(v,s)"), IOpts::vv(r).shape(Shape::VS), &|a, b| Some((v(a) $op b[0]).to_array()), p);
                ibin::<S, S, S, N>(mon, oc, ty, concat!($opname, "(v,&s)"), IOpts::vv(r / 4).shape(Shape::VS), &|a, b| Some((v(a) $op &b[0]).to_array()), p);
                ibin::<S, S, S, N>(mon, oc, ty, concat!($opname, "(&v,s)"), IOpts::vv(r / 4).shape(Shape::VS), &|a, b| Some((&v(a) $op b[0]).to_array()), p);
                ibin::<S, S, S, N>(mon, oc, ty, concat!($opname, "(&v,&s)"), IOpts::vv(r / 4).shape(Shape::VS), &|a, b| Some((&v(a) $op &b[0]).to_array()), p);
                ibin::<S, S, S, N>(mon, oc, ty, concat!($opname, "_assign(s)"), IOpts::vv(r / 4).shape(Shape::VS), &|a, b| { let mut x = v(a); x $opa b[0]; Some(x.to_array()) }, p);
                ibin::<S, S, S, N>(mon, oc, ty, concat!($opname, "_assign(&s)"), IOpts::vv(r / 4).shape(Shape::VS), &|a, b| { let mut x = v(a); x $opa &b[0]; Some(x.to_array()) }, p);
                ibin::<S, S, S, N>(mon, oc, ty, concat!($opname, "(s,v)"), IOpts::vv(r).shape(Shape::SV), &|a, b| Some((a[0] $op v(b)).to_array()), p);
                ibin::<S, S, S, N>(mon, oc, ty, concat!($opname, "(s,&v)"), IOpts::vv(r / 4).shape(Shape::SV), &|a, b| Some((a[0] $op &v(b)).to_array()), p);
                ibin::<S, S, S, N>(mon, oc, ty, concat!($opname, "(&s,v)"), IOpts::vv(r / 4).shape(Shape::SV), &|a, b| Some((&a[0] $op v(b)).to_array()), p);
                ibin::<S, S, S, N>(mon, oc, ty, concat!($opname, "(&s,&v)"), IOpts::vv(r / 4).shape(Shape::SV), &|a, b| Some((&a[0] $op &v(b)).to_array()), p);
            }};
        }
        arith!("add", +, +=, |a: S, b: S| if oc { a.checked_add(b) } else { Some(a.wrapping_add(b)) }, true);
        arith!("sub", -, -=, |a: S, b: S| if oc { a.checked_sub(b) } else { Some(a.wrapping_sub(b)) }, true);
        arith!("mul", *, *=, |a: S, b: S| if oc { a.checked_mul(b) } else { Some(a.wrapping_mul(b)) }, true);
        arith!("div", /, /=, |a: S, b: S| a.checked_div(b), true);
        arith!("rem", %, %=, |a: S, b: S| a.checked_rem(b), true);

        // ---- bit operations -----------------------------------------------------------
        macro_rules! bitop {
            ($opname:expr, $op:tt, $opa:tt, $prim:expr) => {{
                let p: &dyn Fn(S, S) -> Option<S> = &$prim;
                ibin::<S, S, S, N>(mon, oc, ty, $opname, IOpts::vv(r), &|a, b| Some((v(a) $op v(b)).to_array()), p);
                ibin::<S, S, S, N>(mon, oc, ty, concat!($opname, "(v,s)"), IOpts::vv(r).shape(Shape::VS), &|a, b| Some((v(a) $op b[0]).to_array()), p);
            }};
        }
        bitop!("bitand", &, &=, |a: S, b: S| Some(a & b));
        bitop!("bitor", |, |=, |a: S, b: S| Some(a | b));
        bitop!("bitxor", ^, ^=, |a: S, b: S| Some(a ^ b));
        iun::<S, S, N>(mon, ty, "not", r, &|a| Some((!v(a)).to_array()), &|x: S| Some(!x));

        // ---- shifts: every scalar count type and IVec/UVec counts ---------------------------
        macro_rules! shifts {
            ($C:ty) => {
                {
                    let bits = S::BITS as i128;
                    let mut counts: Vec<$C> = Vec::new();
                    // counts at and beyond the bit width, and counts whose low 8 / 16 / 32 bits are small (a truncating cast of the count would hide them)
                    for c in [0i128, 1, 2, 3, bits / 2, bits - 1, bits, bits + 1, 2 * bits, 63, 64, 65, 127, 255, 256, 257, 256 + bits - 1, 65536, 65537, 65536 + bits - 1, 1 << 32, (1 << 32) + 1, (1 << 32) + bits - 1, 1 << 40, 1 << 63, -1, -2, -256, -65536, -(1 << 32), <$C>::MAX as i128, <$C>::MIN as i128] {
                        if <$C as Int>::fits(c) { counts.push(c as $C); }
                    }
                    counts.sort(); counts.dedup();
                    let cn = stringify!($C);
                    ibin::<S, $C, S, N>(mon, oc, ty, &format!("shl<{}>", cn), IOpts::vv(r / 2).shape(Shape::VS).rhs(&counts), &|a, b| Some((v(a) << b[0]).to_array()), &|x: S, c: $C| cu(|| x << c));
                    ibin::<S, $C, S, N>(mon, oc, ty, &format!("shr<{}>", cn), IOpts::vv(r / 2).shape(Shape::VS).rhs(&counts), &|a, b| Some((v(a) >> b[0]).to_array()), &|x: S, c: $C| cu(|| x >> c));
                }
            };
        }
        shifts!(i8); shifts!(i16); shifts!(i32); shifts!(i64); shifts!(u8); shifts!(u16); shifts!(u32); shifts!(u64);
        {
            let bits = S::BITS as i32;
            let ic: Vec<i32> = vec![0, 1, 2, bits / 2, bits - 1, bits, bits + 1, 2 * bits, 63, 64, 256, 257, 65536, 65537, -1, -256, -65536, i32::MAX, i32::MIN];
            let uc: Vec<u32> = vec![0, 1, 2, (bits / 2) as u32, (bits - 1) as u32, bits as u32, (bits + 1) as u32, (2 * bits) as u32, 63, 64, 256, 257, 65536, 65537, u32::MAX];
            ibin::<S, i32, S, N>(mon, oc, ty, "shl<IVec>", IOpts::vv(r).rhs(&ic), &|a, b| Some((v(a) << <$IV>::from_array(b)).to_array()), &|x: S, c: i32| cu(|| x << c));
            ibin::<S, i32, S, N>(mon, oc, ty, "shr<IVec>", IOpts::vv(r).rhs(&ic), &|a, b| Some((v(a) >> <$IV>::from_array(b)).to_array()), &|x: S, c: i32| cu(|| x >> c));
            ibin::<S, u32, S, N>(mon, oc, ty, "shl<UVec>", IOpts::vv(r).rhs(&uc), &|a, b| Some((v(a) << <$UV>::from_array(b)).to_array()), &|x: S, c: u32| cu(|| x << c));
            ibin::<S, u32, S, N>(mon, oc, ty, "shr<UVec>", IOpts::vv(r).rhs(&uc), &|a, b| Some((v(a) >> <$UV>::from_array(b)).to_array()), &|x: S, c: u32| cu(|| x >> c));
        }

        // ---- min / max / clamp ------------------------------------------------------------------
        ibin::<S, S, S, N>(mon, oc, ty, "min", IOpts::vv(r), &|a, b| Some(v(a).min(v(b)).to_array()), &|x: S, y: S| Some(x.min(y)));
        ibin::<S, S, S, N>(mon, oc, ty, "max", IOpts::vv(r), &|a, b| Some(v(a).max(v(b)).to_array()), &|x: S, y: S| Some(x.max(y)));
        for (i, third) in S::lattice().into_iter().enumerate().filter(|(i, _)| i % 7 == 0) {
            // clamp(x, min(b,t), max(b,t)) with a rotating third operand
            ibin::<S, S, S, N>(mon, oc, ty, &format!("clamp[{}]", i), IOpts::vv(r / 16), &|a, b| {
                let lo: [S; N] = core::array::from_fn(|k| b[k].min(third));
                let hi: [S; N] = core::array::from_fn(|k| b[k].max(third));
                Some(v(a).clamp(v(lo), v(hi)).to_array())
            }, &|x: S, y: S| Some(x.clamp(y.min(third), y.max(third))));
        }

        // ---- checked / wrapping / saturating families ----------------------------------------------
        ibin::<S, S, S, N>(mon, oc, ty, "checked_add", IOpts::vv(r).opt().deep(), &|a, b| v(a).checked_add(v(b)).map(|x| x.to_array()), &|x: S, y: S| x.checked_add(y));
        ibin::<S, S, S, N>(mon, oc, ty, "checked_sub", IOpts::vv(r).opt().deep(), &|a, b| v(a).checked_sub(v(b)).map(|x| x.to_array()), &|x: S, y: S| x.checked_sub(y));
        ibin::<S, S, S, N>(mon, oc, ty, "checked_mul", IOpts::vv(r).opt().deep(), &|a, b| v(a).checked_mul(v(b)).map(|x| x.to_array()), &|x: S, y: S| x.checked_mul(y));
        ibin::<S, S, S, N>(mon, oc, ty, "checked_div", IOpts::vv(r).opt().deep(), &|a, b| v(a).checked_div(v(b)).map(|x| x.to_array()), &|x: S, y: S| x.checked_div(y));
        ibin::<S, S, S, N>(mon, oc, ty, "wrapping_add", IOpts::vv(r).deep(), &|a, b| Some(v(a).wrapping_add(v(b)).to_array()), &|x: S, y: S| Some(x.wrapping_add(y)));
        ibin::<S, S, S, N>(mon, oc, ty, "wrapping_sub", IOpts::vv(r).deep(), &|a, b| Some(v(a).wrapping_sub(v(b)).to_array()), &|x: S, y: S| Some(x.wrapping_sub(y)));
        ibin::<S, S, S, N>(mon, oc, ty, "wrapping_mul", IOpts::vv(r).deep(), &|a, b| Some(v(a).wrapping_mul(v(b)).to_array()), &|x: S, y: S| Some(x.wrapping_mul(y)));
        ibin::<S, S, S, N>(mon, oc, ty, "wrapping_div", IOpts::vv(r).deep(), &|a, b| Some(v(a).wrapping_div(v(b)).to_array()), &|x: S, y: S| if y == 0 { None } else { Some(x.wrapping_div(y)) });
        ibin::<S, S, S, N>(mon, oc, ty, "saturating_add", IOpts::vv(r).deep(), &|a, b| Some(v(a).saturating_add(v(b)).to_array()), &|x: S, y: S| Some(x.saturating_add(y)));
        ibin::<S, S, S, N>(mon, oc, ty, "saturating_sub", IOpts::vv(r).deep(), &|a, b| Some(v(a).saturating_sub(v(b)).to_array()), &|x: S, y: S| Some(x.saturating_sub(y)));
        ibin::<S, S, S, N>(mon, oc, ty, "saturating_mul", IOpts::vv(r).deep(), &|a, b| Some(v(a).saturating_mul(v(b)).to_array()), &|x: S, y: S| Some(x.saturating_mul(y)));
        ibin::<S, S, S, N>(mon, oc, ty, "saturating_div", IOpts::vv(r).deep(), &|a, b| Some(v(a).saturating_div(v(b)).to_array()), &|x: S, y: S| if y == 0 { None } else { Some(x.saturating_div(y)) });

        // ---- reductions --------------------------------------------------------------------------------
        ired2::<S, S, N>(mon, oc, ty, "dot", r, &|a, b| Some(v(a).dot(v(b))), &|a, b| {
            let t: Vec<Wide> = (0..N).map(|k| wmul(a[k].to_i128(), b[k].to_i128())).collect();
            sum_expect::<S>(oc, &t, true)
        });
        ired2::<S, S, N>(mon, oc, ty, "dot_into_vec", r / 4, &|a, b| { let d = v(a).dot_into_vec(v(b)).to_array(); if d.iter().all(|x| *x == d[0]) { Some(d[0]) } else { Some(d[0] ^ 0x55) } }, &|a, b| {
            let t: Vec<Wide> = (0..N).map(|k| wmul(a[k].to_i128(), b[k].to_i128())).collect();
            sum_expect::<S>(oc, &t, true)
        });
        ired2::<S, S, N>(mon, oc, ty, "length_squared", r, &|a, _b| Some(v(a).length_squared()), &|a, _b| {
            let t: Vec<Wide> = (0..N).map(|k| wmul(a[k].to_i128(), a[k].to_i128())).collect();
            sum_expect::<S>(oc, &t, true)
        });
        ired2::<S, S, N>(mon, oc, ty, "element_sum", r, &|a, _b| Some(v(a).element_sum()), &|a, _b| {
            let t: Vec<Wide> = (0..N).map(|k| wval(a[k].to_i128())).collect();
            sum_expect::<S>(oc, &t, true)
        });
        ired2::<S, S, N>(mon, oc, ty, "element_product", r, &|a, _b| Some(v(a).element_product()), &|a, _b| {
            let t: Vec<i128> = (0..N).map(|k| a[k].to_i128()).collect();
            prod_expect::<S>(oc, &t)
        });
        ired2::<S, S, N>(mon, oc, ty, "min_element", r / 2, &|a, _b| Some(v(a).min_element()), &|a, _b| Exp::Val(*a.iter().min().unwrap()));
        ired2::<S, S, N>(mon, oc, ty, "max_element", r / 2, &|a, _b| Some(v(a).max_element()), &|a, _b| Exp::Val(*a.iter().max().unwrap()));
        ired2::<S, u64, N>(mon, oc, ty, "min_position", r / 2, &|a, _b| Some(v(a).min_position() as u64), &|a, _b| { let m = *a.iter().min().unwrap(); Exp::Val(a.iter().position(|x| *x == m).unwrap() as u64) });
        ired2::<S, u64, N>(mon, oc, ty, "max_position", r / 2, &|a, _b| Some(v(a).max_position() as u64), &|a, _b| { let m = *a.iter().max().unwrap(); Exp::Val(a.iter().position(|x| *x == m).unwrap() as u64) });
        ired2::<S, u64, N>(mon, oc, ty, "eq", r / 2, &|a, b| Some((v(a) == v(b)) as u64), &|a, b| Exp::Val((a == b) as u64));

        // Sum / Product over iterators: folds of + and *
        if let Some(mut c) = mon.begin(ty, "Sum/Product") {
            let mut rng = vcommon::rng::Rng::new(mon.op_seed(ty, "sumprod"));
            for it in 0..(r / 2).max(400) {
                let len = (it % 7) as usize;
                let small = it % 2 == 0;
                let items: Vec<[S; N]> = (0..len).map(|_| core::array::from_fn(|_| if small { <S as Int>::wrap(rng.int_in(if <S as Int>::SIGNED { -3 } else { 0 }, 3) as i128) } else { <S as Int>::random(&mut rng) })).collect();
                let vs: Vec<$T> = items.iter().map(|a| v(*a)).collect();
                for (name, which) in [("sum", 0), ("sum(&)", 1), ("product", 2), ("product(&)", 3)] {
                    let got = cu(|| match which {
                        0 => vs.iter().copied().sum::<$T>(),
                        1 => vs.iter().sum::<$T>(),
                        2 => vs.iter().copied().product::<$T>(),
                        _ => vs.iter().product::<$T>(),
                    });
                    // per lane expectation
                    let mut bad = false;
                    let mut any_panic = false;
                    let mut any_either = false;
                    let mut expv = [<S as Int>::zero(); N];
                    for k in 0..N {
                        let t: Vec<i128> = items.iter().map(|a| a[k].to_i128()).collect();
                        let tw: Vec<Wide> = t.iter().map(|x| wval(*x)).collect();
                        let e = if which < 2 { sum_expect::<S>(oc, &tw, true) } else { prod_expect::<S>(oc, &t) };
                        match e {
                            Exp::Val(x) => expv[k] = x,
                            Exp::Either(x) => { expv[k] = x; any_either = true; }
                            Exp::Panic => any_panic = true,
                            Exp::NoneV => {}
                        }
                    }
                    match &got {
                        None => { if any_panic { c.st.panics_expected += 1; } else if any_either { c.boundary(); } else { bad = true; } }
                        Some(g) => { if any_panic { bad = true; } else if g.to_array() != expv { bad = true; } }
                    }
                    c.event(len as u64 * 4 + which as u64, len >= 2);
                    if bad {
                        c.violation("fold_mismatch", &[name], format!("items={:?}", items), format!("{:?}", got.map(|g| g.to_array())), format!("{:?} panic={}", expv, any_panic), String::new());
                    }
                }
            }
            c.sample("Sum/Product over 0..6 vectors, by value and by reference".into());
            mon.end(c);
        }

        int_suite!(@$signed mon, oc, ty, r, v, $T, $S, $N, $OS, $OT);
    }};

    // ---------------- signed-only operations -----------------------------------------------------------
    (@signed $mon:ident, $oc:ident, $ty:ident, $r:ident, $v:ident, $T:ident, $S:ty, $N:expr, $OS:ty, $OT:ident) => {{
        type U = $OS;
        let (mon, oc, ty, r, v) = (&mut *$mon, $oc, $ty, $r, $v);
        iun::<S, S, N>(mon, ty, "neg", r, &|a| Some((-v(a)).to_array()), &|x: S| if oc { x.checked_neg() } else { Some(x.wrapping_neg()) });
        iun::<S, S, N>(mon, ty, "neg(&v)", r / 4, &|a| Some((-&v(a)).to_array()), &|x: S| if oc { x.checked_neg() } else { Some(x.wrapping_neg()) });
        iun::<S, S, N>(mon, ty, "abs", r, &|a| Some(v(a).abs().to_array()), &|x: S| if oc { x.checked_abs() } else { Some(x.wrapping_abs()) });
        iun::<S, S, N>(mon, ty, "signum", r, &|a| Some(v(a).signum().to_array()), &|x: S| Some(x.signum()));
        ired2::<S, u64, N>(mon, oc, ty, "is_negative_bitmask", r / 2, &|a, _b| Some(v(a).is_negative_bitmask() as u64), &|a, _b| Exp::Val((0..N).fold(0u64, |m, k| m | (((a[k] < 0) as u64) << k))));
        ibin::<S, S, S, N>(mon, oc, ty, "div_euclid", IOpts::vv(r).deep(), &|a, b| Some(v(a).div_euclid(v(b)).to_array()), &|x: S, y: S| x.checked_div_euclid(y));
        ibin::<S, S, S, N>(mon, oc, ty, "rem_euclid", IOpts::vv(r).deep(), &|a, b| Some(v(a).rem_euclid(v(b)).to_array()), &|x: S, y: S| x.checked_rem_euclid(y));
        ired2::<S, S, N>(mon, oc, ty, "distance_squared", r, &|a, b| Some(v(a).distance_squared(v(b))), &|a, b| {
            let d: Vec<i128> = (0..N).map(|k| a[k].to_i128() - b[k].to_i128()).collect();
            let inner = d.iter().all(|x| <S as Int>::fits(*x));
            let t: Vec<Wide> = d.iter().map(|x| wmul(*x, *x)).collect();
            sum_expect::<S>(oc, &t, inner)
        });
        ired2::<S, U, N>(mon, oc, ty, "manhattan_distance", r, &|a, b| Some(v(a).manhattan_distance(v(b))), &|a, b| {
            let t: Vec<Wide> = (0..N).map(|k| wval((a[k].to_i128() - b[k].to_i128()).abs())).collect();
            sum_expect::<U>(oc, &t, true)
        });
        ired2::<S, U, N>(mon, oc, ty, "checked_manhattan_distance", r, &|a, b| v(a).checked_manhattan_distance(v(b)), &|a, b| {
            let t: i128 = (0..N).map(|k| (a[k].to_i128() - b[k].to_i128()).abs()).sum();
            if <U as Int>::fits(t) { Exp::Val(<U as Int>::wrap(t)) } else { Exp::NoneV }
        });
        ired2::<S, U, N>(mon, oc, ty, "chebyshev_distance", r, &|a, b| Some(v(a).chebyshev_distance(v(b))), &|a, b| {
            Exp::Val(<U as Int>::wrap((0..N).map(|k| (a[k].to_i128() - b[k].to_i128()).abs()).max().unwrap()))
        });
        let uo = |a: [U; N]| <$OT>::from_array(a);
        ibin::<S, U, S, N>(mon, oc, ty, "checked_add_unsigned", IOpts::vv(r).opt(), &|a, b| v(a).checked_add_unsigned(uo(b)).map(|x| x.to_array()), &|x: S, y: U| x.checked_add_unsigned(y));
        ibin::<S, U, S, N>(mon, oc, ty, "checked_sub_unsigned", IOpts::vv(r).opt(), &|a, b| v(a).checked_sub_unsigned(uo(b)).map(|x| x.to_array()), &|x: S, y: U| x.checked_sub_unsigned(y));
        ibin::<S, U, S, N>(mon, oc, ty, "wrapping_add_unsigned", IOpts::vv(r), &|a, b| Some(v(a).wrapping_add_unsigned(uo(b)).to_array()), &|x: S, y: U| Some(x.wrapping_add_unsigned(y)));
        ibin::<S, U, S, N>(mon, oc, ty, "wrapping_sub_unsigned", IOpts::vv(r), &|a, b| Some(v(a).wrapping_sub_unsigned(uo(b)).to_array()), &|x: S, y: U| Some(x.wrapping_sub_unsigned(y)));
        ibin::<S, U, S, N>(mon, oc, ty, "saturating_add_unsigned", IOpts::vv(r), &|a, b| Some(v(a).saturating_add_unsigned(uo(b)).to_array()), &|x: S, y: U| Some(x.saturating_add_unsigned(y)));
        ibin::<S, U, S, N>(mon, oc, ty, "saturating_sub_unsigned", IOpts::vv(r), &|a, b| Some(v(a).saturating_sub_unsigned(uo(b)).to_array()), &|x: S, y: U| Some(x.saturating_sub_unsigned(y)));
    }};

    // ---------------- unsigned-only operations ------------------------------------------------------------
    (@usz $mon:ident, $oc:ident, $ty:ident, $r:ident, $v:ident, $T:ident, $S:ty, $N:expr, $OS:ty, $OT:ident) => {{
        let (mon, oc, ty, r, v) = (&mut *$mon, $oc, $ty, $r, $v);
        ired2::<S, S, N>(mon, oc, ty, "manhattan_distance", r, &|a, b| Some(v(a).manhattan_distance(v(b))), &|a, b| {
            let t: Vec<Wide> = (0..N).map(|k| wval((a[k].to_i128() - b[k].to_i128()).abs())).collect();
            sum_expect::<S>(oc, &t, true)
        });
        ired2::<S, S, N>(mon, oc, ty, "checked_manhattan_distance", r, &|a, b| v(a).checked_manhattan_distance(v(b)), &|a, b| {
            let t: i128 = (0..N).map(|k| (a[k].to_i128() - b[k].to_i128()).abs()).sum();
            if <S as Int>::fits(t) { Exp::Val(<S as Int>::wrap(t)) } else { Exp::NoneV }
        });
        ired2::<S, S, N>(mon, oc, ty, "chebyshev_distance", r, &|a, b| Some(v(a).chebyshev_distance(v(b))), &|a, b| {
            Exp::Val(<S as Int>::wrap((0..N).map(|k| (a[k].to_i128() - b[k].to_i128()).abs()).max().unwrap()))
        });
    }};
    (@unsigned $mon:ident, $oc:ident, $ty:ident, $r:ident, $v:ident, $T:ident, $S:ty, $N:expr, $OS:ty, $OT:ident) => {{
        type I = $OS;
        int_suite!(@usz $mon, $oc, $ty, $r, $v, $T, $S, $N, $OS, $OT);
        let (mon, oc, ty, r, v) = (&mut *$mon, $oc, $ty, $r, $v);
        let io = |a: [I; N]| <$OT>::from_array(a);
        ibin::<S, I, S, N>(mon, oc, ty, "checked_add_signed", IOpts::vv(r).opt(), &|a, b| v(a).checked_add_signed(io(b)).map(|x| x.to_array()), &|x: S, y: I| x.checked_add_signed(y));
        ibin::<S, I, S, N>(mon, oc, ty, "wrapping_add_signed", IOpts::vv(r), &|a, b| Some(v(a).wrapping_add_signed(io(b)).to_array()), &|x: S, y: I| Some(x.wrapping_add_signed(y)));
        ibin::<S, I, S, N>(mon, oc, ty, "saturating_add_signed", IOpts::vv(r), &|a, b| Some(v(a).saturating_add_signed(io(b)).to_array()), &|x: S, y: I| Some(x.saturating_add_signed(y)));
    }};
}

macro_rules! suites {
    ($( $f:ident: $T:ident, $S:ty, $N:expr, $signed:tt, $OS:ty, $OT:ident, $IV:ident, $UV:ident; )*) => {
        $( fn $f(mon: &mut Monitor, oc: bool) { int_suite!(mon, oc, $T, $S, $N, stringify!($T), $signed, $OS, $OT, $IV, $UV); } )*
        fn all(mon: &mut Monitor, oc: bool) { $( $f(mon, oc); )* }
    };
}

suites! {
    s_i8v2: I8Vec2, i8, 2, signed, u8, U8Vec2, IVec2, UVec2;
    s_i8v3: I8Vec3, i8, 3, signed, u8, U8Vec3, IVec3, UVec3;
    s_i8v4: I8Vec4, i8, 4, signed, u8, U8Vec4, IVec4, UVec4;
    s_u8v2: U8Vec2, u8, 2, unsigned, i8, I8Vec2, IVec2, UVec2;
    s_u8v3: U8Vec3, u8, 3, unsigned, i8, I8Vec3, IVec3, UVec3;
    s_u8v4: U8Vec4, u8, 4, unsigned, i8, I8Vec4, IVec4, UVec4;
    s_i16v2: I16Vec2, i16, 2, signed, u16, U16Vec2, IVec2, UVec2;
    s_i16v3: I16Vec3, i16, 3, signed, u16, U16Vec3, IVec3, UVec3;
    s_i16v4: I16Vec4, i16, 4, signed, u16, U16Vec4, IVec4, UVec4;
    s_u16v2: U16Vec2, u16, 2, unsigned, i16, I16Vec2, IVec2, UVec2;
    s_u16v3: U16Vec3, u16, 3, unsigned, i16, I16Vec3, IVec3, UVec3;
    s_u16v4: U16Vec4, u16, 4, unsigned, i16, I16Vec4, IVec4, UVec4;
    s_iv2: IVec2, i32, 2, signed, u32, UVec2, IVec2, UVec2;
    s_iv3: IVec3, i32, 3, signed, u32, UVec3, IVec3, UVec3;
    s_iv4: IVec4, i32, 4, signed, u32, UVec4, IVec4, UVec4;
    s_uv2: UVec2, u32, 2, unsigned, i32, IVec2, IVec2, UVec2;
    s_uv3: UVec3, u32, 3, unsigned, i32, IVec3, IVec3, UVec3;
    s_uv4: UVec4, u32, 4, unsigned, i32, IVec4, IVec4, UVec4;
    s_i64v2: I64Vec2, i64, 2, signed, u64, U64Vec2, IVec2, UVec2;
    s_i64v3: I64Vec3, i64, 3, signed, u64, U64Vec3, IVec3, UVec3;
    s_i64v4: I64Vec4, i64, 4, signed, u64, U64Vec4, IVec4, UVec4;
    s_u64v2: U64Vec2, u64, 2, unsigned, i64, I64Vec2, IVec2, UVec2;
    s_u64v3: U64Vec3, u64, 3, unsigned, i64, I64Vec3, IVec3, UVec3;
    s_u64v4: U64Vec4, u64, 4, unsigned, i64, I64Vec4, IVec4, UVec4;
}

// usize has no signed counterpart type in glam: only the common part
macro_rules! usize_suite {
    ($f:ident, $T:ident, $N:expr, $IV:ident, $UV:ident) => {
        fn $f(mon: &mut Monitor, oc: bool) {
            int_suite!(mon, oc, $T, usize, $N, stringify!($T), usz, usize, $T, $IV, $UV);
        }
    };
}

fn canaries(mon: &mut Monitor, oc: bool) {
    mon.canary("add lane 1 uses lane 0 of rhs", |m| {
        ibin::<i8, i8, i8, 3>(m, oc, "Canary", "add", IOpts::vv(10), &|a, b| Some([a[0].wrapping_add(b[0]), a[1].wrapping_add(b[0]), a[2].wrapping_add(b[2])]), &|x: i8, y: i8| Some(x.wrapping_add(y)));
    });
    mon.canary("checked_add reports None only for lane 0", |m| {
        ibin::<i16, i16, i16, 2>(m, oc, "Canary", "checked_add", IOpts::vv(200).opt(), &|a, b| a[0].checked_add(b[0]).map(|x| [x, a[1].wrapping_add(b[1])]), &|x: i16, y: i16| x.checked_add(y));
    });
    mon.canary("saturating_sub as wrapping", |m| {
        ibin::<u8, u8, u8, 2>(m, oc, "Canary", "saturating_sub", IOpts::vv(10), &|a, b| Some([a[0].wrapping_sub(b[0]), a[1].saturating_sub(b[1])]), &|x: u8, y: u8| Some(x.saturating_sub(y)));
    });
    mon.canary("division swallowing the MIN/-1 panic", |m| {
        ibin::<i32, i32, i32, 2>(m, oc, "Canary", "div", IOpts::vv(100), &|a, b| Some([a[0].wrapping_div(b[0]), a[1].wrapping_div(b[1])]), &|x: i32, y: i32| x.checked_div(y));
    });
    mon.canary("shift count masked instead of primitive semantics", |m| {
        let counts: Vec<i64> = vec![0, 1, 7, 8, 9, 64, -1];
        ibin::<i8, i64, i8, 2>(m, oc, "Canary", "shl", IOpts::vv(50).shape(Shape::VS).rhs(&counts), &|a, b| Some([a[0] << (b[0] & 3), a[1] << (b[0] & 3)]), &|x: i8, c: i64| cu(|| x << c));
    });
    mon.canary("dot drops the last term", |m| {
        ired2::<i32, i32, 3>(m, oc, "Canary", "dot", 100, &|a, b| Some(a[0].wrapping_mul(b[0]).wrapping_add(a[1].wrapping_mul(b[1]))), &|a, b| Exp::Val((0..3).fold(0i32, |s, k| s.wrapping_add(a[k].wrapping_mul(b[k])))));
    });
}


/// Small polynomial operations (cross, perp, perp_dot, rotate): every component is a sum of signed products of lanes; the
/// expectation follows the primitive's semantics of the profile (wrapping in release, panic on overflow with overflow checks,
/// either when only an intermediate overflows).
fn geom_ops(mon: &mut Monitor, oc: bool) {
    fn neg(w: Wide) -> Wide { Wide { w: w.w.wrapping_neg(), e: w.e.map(|x| -x) } }
    /// p1 - p2 (or p1 + p2) of two lane products as the primitive computes it: each product first (an overflowing product
    /// panics with overflow checks even when the difference would fit), then the sum
    fn two_products<O: Int>(oc: bool, a: i128, b: i128, c: i128, d: i128, minus: bool) -> Exp<O> {
        let (p1, p2) = (wmul(a, b), wmul(c, d));
        if oc && !(matches!(p1.e, Some(v) if O::fits(v)) && matches!(p2.e, Some(v) if O::fits(v))) {
            return Exp::Panic;
        }
        sum_expect::<O>(oc, &[p1, if minus { neg(p2) } else { p2 }], true)
    }
    /// expectation for one component of a call that evaluates several: a certain panic elsewhere is a panic of the call,
    /// a possible one makes the outcome either
    fn combine<O: Int>(own: Exp<O>, others: &[Exp<O>]) -> Exp<O> {
        if matches!(own, Exp::Panic) || others.iter().any(|e| matches!(e, Exp::Panic)) { return Exp::Panic; }
        let v = match own { Exp::Val(v) | Exp::Either(v) => v, _ => return own };
        if matches!(own, Exp::Either(_)) || others.iter().any(|e| matches!(e, Exp::Either(_))) { Exp::Either(v) } else { Exp::Val(v) }
    }
    let r = mon.n(300, 20_000);
    macro_rules! cross3 {
        ($($T:ident, $S:ty);*) => {$({
            let ty = stringify!($T);
            for k in 0..3usize {
                let (i, j) = ((k + 1) % 3, (k + 2) % 3);
                let _ = (i, j);
                ired2::<$S, $S, 3>(mon, oc, ty, &format!("cross[{}]", k), r, &|a, b| Some($T::from_array(a).cross($T::from_array(b)).to_array()[k]), &|a, b| {
                    // the call evaluates all three components: it panics (overflow checks) as soon as one of them does
                    let comp = |k: usize| { let (i, j) = ((k + 1) % 3, (k + 2) % 3); two_products::<$S>(oc, a[i].to_i128(), b[j].to_i128(), b[i].to_i128(), a[j].to_i128(), true) };
                    combine(comp(k), &[comp((k + 1) % 3), comp((k + 2) % 3)])
                });
            }
        })*};
    }
    cross3!(I8Vec3, i8; U8Vec3, u8; I16Vec3, i16; U16Vec3, u16; IVec3, i32; UVec3, u32; I64Vec3, i64; U64Vec3, u64; USizeVec3, usize);
    macro_rules! planar {
        ($($T:ident, $S:ty);*) => {$({
            let ty = stringify!($T);
            ired2::<$S, $S, 2>(mon, oc, ty, "perp_dot", r, &|a, b| Some($T::from_array(a).perp_dot($T::from_array(b))), &|a, b| two_products::<$S>(oc, a[0].to_i128(), b[1].to_i128(), a[1].to_i128(), b[0].to_i128(), true));
            // b.rotate(a) = (b.x a.x - b.y a.y, b.y a.x + b.x a.y)
            ired2::<$S, $S, 2>(mon, oc, ty, "rotate[0]", r, &|a, b| Some($T::from_array(b).rotate($T::from_array(a)).to_array()[0]), &|a, b| {
                let c0 = two_products::<$S>(oc, b[0].to_i128(), a[0].to_i128(), b[1].to_i128(), a[1].to_i128(), true);
                let c1 = two_products::<$S>(oc, b[1].to_i128(), a[0].to_i128(), b[0].to_i128(), a[1].to_i128(), false);
                combine(c0, &[c1])
            });
            ired2::<$S, $S, 2>(mon, oc, ty, "rotate[1]", r, &|a, b| Some($T::from_array(b).rotate($T::from_array(a)).to_array()[1]), &|a, b| {
                let c0 = two_products::<$S>(oc, b[0].to_i128(), a[0].to_i128(), b[1].to_i128(), a[1].to_i128(), true);
                let c1 = two_products::<$S>(oc, b[1].to_i128(), a[0].to_i128(), b[0].to_i128(), a[1].to_i128(), false);
                combine(c1, &[c0])
            });
            ired2::<$S, $S, 2>(mon, oc, ty, "perp[0]", r / 2, &|a, _b| Some($T::from_array(a).perp().to_array()[0]), &|a, _b| sum_expect::<$S>(oc, &[neg(wval(a[1].to_i128()))], true));
            ired2::<$S, $S, 2>(mon, oc, ty, "perp[1]", r / 2, &|a, _b| Some($T::from_array(a).perp().to_array()[1]), &|a, _b| combine(Exp::Val(a[0]), &[sum_expect::<$S>(oc, &[neg(wval(a[1].to_i128()))], true)]));
        })*};
    }
    planar!(I8Vec2, i8; I16Vec2, i16; IVec2, i32; I64Vec2, i64);
    // map: the closure is applied to each lane in order
    if let Some(mut c) = mon.begin("int vectors", "map") {
        let g = IVec4::new(1, -2, 3, -4).map(|x| x * 10 + 1).to_array();
        let h = U8Vec3::new(1, 2, 3).map(|x| x + 7).to_array();
        let i = I64Vec2::new(5, -6).map(|x| -x).to_array();
        c.event(0, true);
        if g != [11, -19, 31, -39] || h != [8, 9, 10] || i != [-5, 6] {
            c.violation("lane_mismatch", &["map"], "map on IVec4 / U8Vec3 / I64Vec2".into(), format!("{:?} {:?} {:?}", g, h, i), "[11,-19,31,-39] [8,9,10] [-5,6]".into(), String::new());
        }
        mon.end(c);
    }
}

pub fn run(mon: &mut Monitor) {
    vcommon::mon::quiet_panics();
    let oc = overflow_checks();
    mon.notes.push(format!("overflow checks in this profile: {}", oc));
    canaries(mon, oc);
    all(mon, oc);
    s_usz2(mon, oc);
    s_usz3(mon, oc);
    s_usz4(mon, oc);
    geom_ops(mon, oc);
}

usize_suite!(s_usz2, USizeVec2, 2, IVec2, UVec2);
usize_suite!(s_usz3, USizeVec3, 3, IVec3, UVec3);
usize_suite!(s_usz4, USizeVec4, 4, IVec4, UVec4);

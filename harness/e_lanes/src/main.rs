//! e_lanes: lane-lift monitors (C01, C13, C14, C15, C16, C17).
#![cfg_attr(feature = "core-simd", feature(portable_simd))]
#![allow(clippy::all)]

mod c01;
mod c13;
mod c14;
mod c15;
mod conv_gen;
mod c16;
mod c17;
mod swz_gen;
mod elem;
mod ints;
mod lanes;

use vcommon::mon::Args;

fn main() {
    let args = Args::parse();
    let mut mon = args.monitor();
    let r = std::panic::catch_unwind(std::panic::AssertUnwindSafe(|| run(&args, &mut mon)));
    if r.is_err() {
        eprintln!("HARNESS PANIC escaped every monitor: {}", vcommon::mon::last_panic());
        std::process::exit(3);
    }
    args.finish(&mon);
}

fn run(args: &Args, mon: &mut vcommon::mon::Monitor) {
    match args.prop.as_str() {
        "C01" => c01::run(mon),
        "C13" => c13::run(mon),
        "C14" => c14::run(mon),
        "C15" => c15::run(mon),
        "C16" => c16::run(mon),
        "C17" => c17::run(mon),
        // C18's integer clause ("integer overflow or division by zero [panic] exactly where the primitive operation panics"):
        // the integer lane-lift monitor of C13, keeping only its panic-equivalence verdicts (value mismatches belong to C13)
        "C18" => {
            c13::run(mon);
            mon.violations.retain(|v| v.ty == "Canary" || v.kind == "unexpected_panic" || v.kind == "missing_panic");
            let kept: std::collections::HashMap<String, u64> = mon.violations.iter().fold(Default::default(), |mut m, v| { *m.entry(format!("{}::{}", v.ty, v.op)).or_insert(0) += 1; m });
            for (k, st) in mon.ops.iter_mut() {
                st.violations = kept.get(k).copied().unwrap_or(0);
            }
            mon.notes.push("integer panic equivalence only: kinds unexpected_panic / missing_panic of the C13 monitor".into());
        }
        p => {
            eprintln!("e_lanes: unknown property {}", p);
            std::process::exit(2);
        }
    }
}

//! e_lanes: lane-lift monitors (C01, C13, C14, C15, C16, C17).
#![cfg_attr(feature = "core-simd", feature(portable_simd))]
#![allow(clippy::all)]

mod c01;
mod lanes;

use vcommon::mon::Args;

fn main() {
    let args = Args::parse();
    let mut mon = args.monitor();
    match args.prop.as_str() {
        "C01" => c01::run(&mut mon),
        p => {
            eprintln!("e_lanes: unknown property {}", p);
            std::process::exit(2);
        }
    }
    args.finish(&mon);
}

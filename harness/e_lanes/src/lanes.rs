//! Generic lane-lift checkers for float vector types (oracle O-lane).
//! The glam side is passed in as a closure over plain arrays so that the same
//! checker serves every type; the oracle side is the Rust primitive.

use vcommon::fl::*;
use vcommon::mon::*;
use vcommon::rng::Rng;

#[derive(Clone, Copy, PartialEq)]
pub enum Cmp {
    Ieq,
    Beq,
}
#[derive(Clone, Copy, PartialEq)]
pub enum Dom {
    Any,
    NoNan,
}

#[inline]
fn eqc<S: Fl>(c: Cmp, a: S, b: S) -> bool {
    match c {
        Cmp::Ieq => ieq(a, b),
        Cmp::Beq => beq(a, b),
    }
}

pub fn hexv<S: Fl>(v: &[S]) -> String {
    let parts: Vec<String> = v.iter().map(|x| x.hex()).collect();
    format!("[{}]", parts.join(", "))
}

fn all_equal<S: Fl>(v: &[S]) -> bool {
    v.iter().all(|x| x.bits() == v[0].bits())
}


/// Lattice placement for a unary operand: every lattice value in every lane,
/// other lanes filled with other lattice values.
pub fn unary_inputs<S: Fl, const N: usize>(dom: Dom, rng: &mut Rng, random: u64, mut f: impl FnMut([S; N])) {
    let l = S::lattice();
    let ok = |x: S| dom == Dom::Any || !x.nan();
    for (i, &v) in l.iter().enumerate() {
        if !ok(v) {
            continue;
        }
        for lane in 0..N {
            let mut a = [S::ZERO; N];
            for k in 0..N {
                let mut j = (i + 7 * (k + 1) + 3 * lane) % l.len();
                while !ok(l[j]) {
                    j = (j + 1) % l.len();
                }
                a[k] = l[j];
            }
            a[lane] = v;
            f(a);
        }
    }
    for _ in 0..random {
        let mut a = [S::ZERO; N];
        for k in 0..N {
            loop {
                a[k] = hostile(rng);
                if ok(a[k]) {
                    break;
                }
            }
        }
        f(a);
    }
}

/// Binary operands: every ordered lattice pair in every lane + random hostile pairs + quotient generator.
pub fn binary_inputs<S: Fl, const N: usize>(dom: Dom, rng: &mut Rng, random: u64, mut f: impl FnMut([S; N], [S; N], usize)) {
    let l = S::lattice();
    let ok = |x: S| dom == Dom::Any || !x.nan();
    let n = l.len();
    for i in 0..n {
        for j in 0..n {
            if !ok(l[i]) || !ok(l[j]) {
                continue;
            }
            let lane = (i * n + j) % N;
            let mut a = [S::ZERO; N];
            let mut b = [S::ZERO; N];
            for k in 0..N {
                let mut ia = (i + 5 * (k + 1)) % n;
                let mut ib = (j + 11 * (k + 1) + i) % n;
                while !ok(l[ia]) {
                    ia = (ia + 1) % n;
                }
                while !ok(l[ib]) {
                    ib = (ib + 1) % n;
                }
                a[k] = l[ia];
                b[k] = l[ib];
            }
            a[lane] = l[i];
            b[lane] = l[j];
            f(a, b, lane);
        }
    }
    for it in 0..random {
        let mut a = [S::ZERO; N];
        let mut b = [S::ZERO; N];
        for k in 0..N {
            loop {
                a[k] = hostile(rng);
                if ok(a[k]) {
                    break;
                }
            }
            loop {
                b[k] = hostile(rng);
                if ok(b[k]) {
                    break;
                }
            }
            if it % 4 == 0 {
                // quotient generator: |a/b| from 1 up to 2^60, mixed signs, exact multiples and ties
                let q = r_quot(rng);
                let bb: S = moderate(rng, -6.0, 6.0);
                let frac = match rng.below(4) {
                    0 => 0.0,
                    1 => 0.5,
                    _ => rng.unit(),
                };
                a[k] = S::of(bb.f64() * (q + frac));
                b[k] = bb;
            }
        }
        f(a, b, (it as usize) % N);
    }
}

fn r_quot(rng: &mut Rng) -> f64 {
    let e = rng.range(0.0, 60.0);
    let q = e.exp2().floor();
    if rng.bool() {
        q
    } else {
        -q
    }
}

fn nontrivial<S: Fl>(a: &[S], exp: &[S]) -> bool {
    !all_equal(a) && a.iter().zip(exp.iter()).any(|(x, y)| x.bits() != y.bits())
}

/// vector -> vector, lane-wise
pub fn un_vv<S: Fl, const N: usize>(
    mon: &mut Monitor,
    ty: &str,
    op: &str,
    cmp: Cmp,
    dom: Dom,
    random: u64,
    f: &dyn Fn([S; N]) -> [S; N],
    prim: &dyn Fn(S) -> S,
    tagger: &dyn Fn(S) -> &'static str,
) {
    let Some(mut c) = mon.begin(ty, op) else { return };
    let mut rng = Rng::new(mon.op_seed(ty, op));
    unary_inputs::<S, N>(dom, &mut rng, random, |a| {
        let got = f(a);
        let mut exp = [S::ZERO; N];
        for k in 0..N {
            exp[k] = prim(a[k]);
        }
        c.event(class_key(&a), nontrivial(&a, &exp));
        if c.need_sample() {
            c.sample(format!("{}({}) -> {}", op, hexv(&a), hexv(&got)));
        }
        for k in 0..N {
            if !eqc(cmp, got[k], exp[k]) {
                let tag = tagger(a[k]);
                if c.wants_witness("lane_mismatch", &[tag]) {
                    c.violation(
                        "lane_mismatch",
                        &[tag],
                        format!("a={} lane={}", hexv(&a), k),
                        hexv(&got),
                        hexv(&exp),
                        format!("lane {}: got {} expected primitive {}", k, got[k].hex(), exp[k].hex()),
                    );
                } else {
                    c.st.violations += 1;
                }
                break;
            }
        }
    });
    mon.end(c);
}

/// (vector, vector) -> vector, lane-wise
#[derive(Clone, Copy, PartialEq)]
pub enum Shape {
    VV,
    /// right operand is a scalar: b is a splat of the swept lane's value
    VS,
    /// left operand is a scalar
    SV,
}

pub fn bin_vvv<S: Fl, const N: usize>(
    mon: &mut Monitor,
    ty: &str,
    op: &str,
    cmp: Cmp,
    dom: Dom,
    shape: Shape,
    random: u64,
    f: &dyn Fn([S; N], [S; N]) -> [S; N],
    prim: &dyn Fn(S, S) -> S,
    tagger: &dyn Fn(S, S) -> &'static str,
) {
    let Some(mut c) = mon.begin(ty, op) else { return };
    let mut rng = Rng::new(mon.op_seed(ty, op));
    binary_inputs::<S, N>(dom, &mut rng, random, |mut a, mut b, lane| {
        match shape {
            Shape::VV => {}
            Shape::VS => b = [b[lane]; N],
            Shape::SV => a = [a[lane]; N],
        }
        let got = f(a, b);
        let mut exp = [S::ZERO; N];
        for k in 0..N {
            exp[k] = prim(a[k], b[k]);
        }
        let base = if shape == Shape::SV { &b } else { &a };
        c.event(class_key(&a) ^ class_key(&b).rotate_left(17), nontrivial(base, &exp));
        if c.need_sample() {
            c.sample(format!("{}({}, {}) -> {}", op, hexv(&a), hexv(&b), hexv(&got)));
        }
        for k in 0..N {
            if !eqc(cmp, got[k], exp[k]) {
                let tag = tagger(a[k], b[k]);
                if c.wants_witness("lane_mismatch", &[tag]) {
                    c.violation(
                        "lane_mismatch",
                        &[tag],
                        format!("a={} b={} lane={}", hexv(&a), hexv(&b), k),
                        hexv(&got),
                        hexv(&exp),
                        format!("lane {}: got {} expected primitive {}", k, got[k].hex(), exp[k].hex()),
                    );
                } else {
                    c.st.violations += 1;
                }
                break;
            }
        }
    });
    mon.end(c);
}

/// (vector, vector, vector) -> vector lane-wise; `fix` may repair the operand triple to
/// satisfy a documented precondition (clamp: min <= max).
pub fn ter_vvvv<S: Fl, const N: usize>(
    mon: &mut Monitor,
    ty: &str,
    op: &str,
    cmp: Cmp,
    dom: Dom,
    random: u64,
    fix: &dyn Fn(&mut S, &mut S, &mut S),
    f: &dyn Fn([S; N], [S; N], [S; N]) -> [S; N],
    prim: &dyn Fn(S, S, S) -> S,
) {
    let Some(mut c) = mon.begin(ty, op) else { return };
    let mut rng = Rng::new(mon.op_seed(ty, op));
    let l = S::lattice();
    let ok = |x: S| dom == Dom::Any || !x.nan();
    let run = |mut a: [S; N], mut b: [S; N], mut d: [S; N], c: &mut OpCtx| {
        for k in 0..N {
            fix(&mut a[k], &mut b[k], &mut d[k]);
        }
        let got = f(a, b, d);
        let mut exp = [S::ZERO; N];
        for k in 0..N {
            exp[k] = prim(a[k], b[k], d[k]);
        }
        c.event(class_key(&a) ^ class_key(&b).rotate_left(17) ^ class_key(&d).rotate_left(34), nontrivial(&a, &exp));
        if c.need_sample() {
            c.sample(format!("{}({}, {}, {}) -> {}", op, hexv(&a), hexv(&b), hexv(&d), hexv(&got)));
        }
        for k in 0..N {
            if !eqc(cmp, got[k], exp[k]) {
                if c.wants_witness("lane_mismatch", &[]) {
                    c.violation(
                        "lane_mismatch",
                        &[],
                        format!("a={} b={} c={} lane={}", hexv(&a), hexv(&b), hexv(&d), k),
                        hexv(&got),
                        hexv(&exp),
                        format!("lane {}: got {} expected primitive {}", k, got[k].hex(), exp[k].hex()),
                    );
                } else {
                    c.st.violations += 1;
                }
                break;
            }
        }
    };
    // sampled lattice triples: every pair in (a,b) with a rotating third operand
    let n = l.len();
    for i in 0..n {
        for j in 0..n {
            let t = (i * 3 + j * 5 + 1) % n;
            if !ok(l[i]) || !ok(l[j]) || !ok(l[t]) {
                continue;
            }
            let lane = (i + j) % N;
            let mut a = [S::ZERO; N];
            let mut b = [S::ZERO; N];
            let mut d = [S::ZERO; N];
            for k in 0..N {
                let pick = |s: usize| {
                    let mut q = s % n;
                    while !ok(l[q]) {
                        q = (q + 1) % n;
                    }
                    l[q]
                };
                a[k] = pick(i + 5 * (k + 1));
                b[k] = pick(j + 11 * (k + 1));
                d[k] = pick(t + 13 * (k + 1));
            }
            a[lane] = l[i];
            b[lane] = l[j];
            d[lane] = l[t];
            run(a, b, d, &mut c);
        }
    }
    for _ in 0..random {
        let mut a = [S::ZERO; N];
        let mut b = [S::ZERO; N];
        let mut d = [S::ZERO; N];
        for k in 0..N {
            for slot in [&mut a[k], &mut b[k], &mut d[k]] {
                loop {
                    *slot = hostile(&mut rng);
                    if ok(*slot) {
                        break;
                    }
                }
            }
        }
        run(a, b, d, &mut c);
    }
    mon.end(c);
}

/// (vector, vector) -> per-lane bools (as bitmask)
pub fn bin_vvm<S: Fl, const N: usize>(
    mon: &mut Monitor,
    ty: &str,
    op: &str,
    random: u64,
    f: &dyn Fn([S; N], [S; N]) -> u32,
    prim: &dyn Fn(S, S) -> bool,
) {
    let Some(mut c) = mon.begin(ty, op) else { return };
    let mut rng = Rng::new(mon.op_seed(ty, op));
    binary_inputs::<S, N>(Dom::Any, &mut rng, random, |a, b, _lane| {
        let got = f(a, b);
        let mut exp = 0u32;
        for k in 0..N {
            if prim(a[k], b[k]) {
                exp |= 1 << k;
            }
        }
        c.event(class_key(&a) ^ class_key(&b).rotate_left(17), exp != 0 && exp != (1 << N) - 1);
        if c.need_sample() {
            c.sample(format!("{}({}, {}) -> mask {:#b}", op, hexv(&a), hexv(&b), got));
        }
        if got != exp {
            if c.wants_witness("mask_mismatch", &[]) {
                c.violation(
                    "mask_mismatch",
                    &[],
                    format!("a={} b={}", hexv(&a), hexv(&b)),
                    format!("{:#06b}", got),
                    format!("{:#06b}", exp),
                    "bit i = primitive comparison of lane i".into(),
                );
            } else {
                c.st.violations += 1;
            }
        }
    });
    mon.end(c);
}

/// vector -> u32 (bitmask of a per-lane predicate, or 0/1 for any/all style results)
pub fn un_vu<S: Fl, const N: usize>(
    mon: &mut Monitor,
    ty: &str,
    op: &str,
    random: u64,
    f: &dyn Fn([S; N]) -> u32,
    oracle: &dyn Fn(&[S; N]) -> u32,
) {
    let Some(mut c) = mon.begin(ty, op) else { return };
    let mut rng = Rng::new(mon.op_seed(ty, op));
    unary_inputs::<S, N>(Dom::Any, &mut rng, random, |a| {
        let got = f(a);
        let exp = oracle(&a);
        c.event(class_key(&a), !all_equal(&a));
        if c.need_sample() {
            c.sample(format!("{}({}) -> {}", op, hexv(&a), got));
        }
        if got != exp {
            if c.wants_witness("value_mismatch", &[]) {
                c.violation("value_mismatch", &[], format!("a={}", hexv(&a)), format!("{}", got), format!("{}", exp), String::new());
            } else {
                c.st.violations += 1;
            }
        }
    });
    mon.end(c);
}

/// vector -> scalar reduction with a fold oracle
pub fn un_vs<S: Fl, const N: usize>(
    mon: &mut Monitor,
    ty: &str,
    op: &str,
    cmp: Cmp,
    dom: Dom,
    random: u64,
    f: &dyn Fn([S; N]) -> S,
    oracle: &dyn Fn(&[S; N]) -> S,
) {
    let Some(mut c) = mon.begin(ty, op) else { return };
    let mut rng = Rng::new(mon.op_seed(ty, op));
    unary_inputs::<S, N>(dom, &mut rng, random, |a| {
        let got = f(a);
        let exp = oracle(&a);
        c.event(class_key(&a), !all_equal(&a));
        if c.need_sample() {
            c.sample(format!("{}({}) -> {}", op, hexv(&a), got.hex()));
        }
        if !eqc(cmp, got, exp) {
            if c.wants_witness("value_mismatch", &[]) {
                c.violation("value_mismatch", &[], format!("a={}", hexv(&a)), got.hex(), exp.hex(), String::new());
            } else {
                c.st.violations += 1;
            }
        }
    });
    mon.end(c);
}

/// (vector, vector) -> u32 (bool results such as ==, abs_diff_eq with a third scalar folded in by the caller)
pub fn bin_vvu<S: Fl, const N: usize>(
    mon: &mut Monitor,
    ty: &str,
    op: &str,
    random: u64,
    f: &dyn Fn([S; N], [S; N]) -> u32,
    oracle: &dyn Fn(&[S; N], &[S; N]) -> u32,
) {
    let Some(mut c) = mon.begin(ty, op) else { return };
    let mut rng = Rng::new(mon.op_seed(ty, op));
    let mut flip = 0u64;
    binary_inputs::<S, N>(Dom::Any, &mut rng, random, |a, mut b, _lane| {
        // make "equal" outcomes reachable: every third event copies most lanes of a into b
        flip += 1;
        if flip % 3 == 0 {
            let keep = (flip / 3) as usize % (N + 1);
            for k in 0..N {
                if k != keep {
                    b[k] = a[k];
                }
            }
        }
        let got = f(a, b);
        let exp = oracle(&a, &b);
        c.event(class_key(&a) ^ class_key(&b).rotate_left(17), !all_equal(&a));
        if c.need_sample() {
            c.sample(format!("{}({}, {}) -> {}", op, hexv(&a), hexv(&b), got));
        }
        if got != exp {
            if c.wants_witness("value_mismatch", &[]) {
                c.violation("value_mismatch", &[], format!("a={} b={}", hexv(&a), hexv(&b)), format!("{}", got), format!("{}", exp), String::new());
            } else {
                c.st.violations += 1;
            }
        }
    });
    mon.end(c);
}

//! C14: conversions between vector types match the primitive conversions lane by lane.

use crate::elem::*;
use vcommon::mon::*;
use vcommon::rng::Rng;

/// Source-scalar domains for conversion checks.
pub trait SrcDom: Elem {
    /// number of bits if the whole domain is enumerated in every tier (8/16-bit), else 0
    const SMALL_BITS: u32;
    fn boundary_values() -> Vec<Self>;
    fn from_index(i: u64) -> Self;
    fn same(a: Self, b: Self) -> bool;
}

fn int_boundaries_i128() -> Vec<i128> {
    let mut v: Vec<i128> = vec![0, 1, -1, 2, -2];
    for k in 1..=64u32 {
        let p = 1i128 << k;
        for d in -2..=2 {
            v.push(p + d);
            v.push(-p + d);
        }
        v.push(p / 2 + p / 4); // 1.5 * 2^(k-1)
    }
    v
}

/// Integers next to the rounding ties of int -> f32 / f64: 2^k + m*2^(k-p+1) + 2^(k-p) + d for p = 24, 53 mantissa bits,
/// three mantissa patterns m and d in {-1, 0, 1}.  d = 0 is the exact tie (to even); d = +-1 decides the direction, and a
/// conversion that rounds twice (through f64 on the way to f32) loses d.
fn float_tie_neighbours_i128() -> Vec<i128> {
    let mut v = vec![];
    for p in [24u32, 53] {
        for k in p + 1..=63 {
            for m in [0i128, (1i128 << (p - 1)) - 1, 0x5_a5a5_a5a5_a5a5 & ((1i128 << (p - 1)) - 1)] {
                for d in -1..=1 {
                    let x = (1i128 << k) + (m << (k - p + 1)) + (1i128 << (k - p)) + d;
                    v.push(x);
                    v.push(-x);
                }
            }
        }
    }
    v
}

macro_rules! srcdom_int {
    ($t:ty, $small:expr) => {
        impl SrcDom for $t {
            const SMALL_BITS: u32 = $small;
            fn boundary_values() -> Vec<Self> {
                let mut v: Vec<$t> = int_boundaries_i128().into_iter().chain(float_tie_neighbours_i128()).filter(|x| *x >= <$t>::MIN as i128 && *x <= <$t>::MAX as i128).map(|x| x as $t).collect();
                v.push(<$t>::MIN);
                v.push(<$t>::MAX);
                v.sort();
                v.dedup();
                v
            }
            fn from_index(i: u64) -> Self {
                i as $t
            }
            fn same(a: Self, b: Self) -> bool {
                a == b
            }
        }
    };
}
srcdom_int!(i8, 8);
srcdom_int!(u8, 8);
srcdom_int!(i16, 16);
srcdom_int!(u16, 16);
srcdom_int!(i32, 0);
srcdom_int!(u32, 0);
srcdom_int!(i64, 0);
srcdom_int!(u64, 0);
srcdom_int!(usize, 0);

macro_rules! srcdom_float {
    ($t:ty, $u:ty) => {
        impl SrcDom for $t {
            const SMALL_BITS: u32 = 0;
            fn boundary_values() -> Vec<Self> {
                let mut v: Vec<$t> = <$t as Elem>::pool();
                for b in int_boundaries_i128() {
                    let f = b as $t;
                    // the boundary as a float, its neighbours a few ulps away, and +-0.5 / +-1
                    for d in -3i64..=3 {
                        let bits = (f.to_bits() as i64 + d) as $u;
                        v.push(<$t>::from_bits(bits));
                    }
                    v.push(f + 0.5);
                    v.push(f - 0.5);
                    v.push(f + 0.99);
                    v.push(f - 0.99);
                }
                for x in [0.1, 0.5, 0.9, 0.99999, 1.5, 2.5, 255.5, 256.5, 127.5, 128.5, 32767.5, 65535.5] {
                    v.push(x as $t);
                    v.push(-(x as $t));
                }
                v
            }
            fn from_index(i: u64) -> Self {
                <$t>::from_bits(i as $u)
            }
            fn same(a: Self, b: Self) -> bool {
                (a.is_nan() && b.is_nan()) || a == b
            }
        }
    };
}
srcdom_float!(f32, u32);
srcdom_float!(f64, u64);

pub struct Conv<'a> {
    pub mon: &'a mut Monitor,
    pub random: u64,
}

impl<'a> Conv<'a> {
    fn values<S: SrcDom>(&self, ty: &str, op: &str, all_f32: bool) -> (Vec<S>, Option<String>) {
        if S::SMALL_BITS > 0 {
            let n = 1u64 << S::SMALL_BITS;
            return ((0..n).map(S::from_index).collect(), Some(format!("all {} values of {}", n, S::NAME)));
        }
        let _ = all_f32;
        let mut v = S::boundary_values();
        let mut rng = Rng::new(self.mon.op_seed(ty, op));
        for _ in 0..self.random {
            v.push(S::rand_bits(&mut rng));
        }
        (v, None)
    }

    fn lane_check<S: SrcDom, D: SrcDom, const N: usize>(
        &mut self,
        ty: &str,
        op: &str,
        f: &dyn Fn([S; N]) -> Option<[D; N]>,
        prim: &dyn Fn(S) -> Option<D>,
        sweep_f32: bool,
    ) {
        let Some(mut c) = self.mon.begin(ty, op) else { return };
        let (vals, mut ex) = self.values::<S>(ty, op, false);
        let mut one = |a: [S; N], c: &mut OpCtx| {
            let got = f(a);
            let exp: [Option<D>; N] = core::array::from_fn(|k| prim(a[k]));
            let any_none = exp.iter().any(|x| x.is_none());
            let key = exp.iter().fold(0u64, |h, x| h * 31 + x.map(|d| (d.bits() % 29) + 1).unwrap_or(0));
            c.event(key, a.iter().any(|x| x.bits() != a[0].bits()));
            let bad = match &got {
                None => !any_none,
                Some(g) => any_none || (0..N).any(|k| !D::same(g[k], exp[k].unwrap())),
            };
            if bad {
                let kind = if got.is_none() { "spurious_err" } else if any_none { "missing_err" } else { "lane_mismatch" };
                if c.wants_witness(kind, &[]) {
                    c.violation(kind, &[], format!("src={}", show_v(&a)), format!("{:?}", got.map(|g| show_v(&g))), format!("{:?}", exp.iter().map(|x| x.map(|d| d.show())).collect::<Vec<_>>()), "each lane must equal the primitive conversion of that lane; Err iff some lane does not fit".into());
                } else {
                    c.st.violations += 1;
                }
            } else if c.need_sample() && a.iter().any(|x| x.bits() != a[0].bits()) {
                c.sample(format!("{}::{}({}) -> {:?}", ty, op, show_v(&a), got.map(|g| show_v(&g))));
            }
        };
        let n = vals.len();
        for i in 0..n {
            let a: [S; N] = core::array::from_fn(|k| vals[(i + k * 7) % n]);
            one(a, &mut c);
            // the swept value alone among benign lanes (so that a failing lane is the only one)
            let mut b = [S::one(); N];
            b[i % N] = vals[i];
            one(b, &mut c);
        }
        if sweep_f32 && S::NAME == "f32" {
            let thorough = self.mon.thorough();
            let stride: u64 = if thorough { 1 } else { 4099 };
            let mut i: u64 = 0;
            let mut cnt = 0u64;
            while i < (1u64 << 32) {
                let a: [S; N] = core::array::from_fn(|k| S::from_index((i + k as u64 * 0x0101_0101) & 0xffff_ffff));
                let got = f(a);
                cnt += 1;
                let mut ok = true;
                match &got {
                    None => ok = (0..N).any(|k| prim(a[k]).is_none()),
                    Some(g) => {
                        for k in 0..N {
                            match prim(a[k]) {
                                Some(e) if D::same(g[k], e) => {}
                                _ => ok = false,
                            }
                        }
                    }
                }
                if !ok {
                    one(a, &mut c); // records the witness
                }
                i += stride;
            }
            c.events(cnt);
            c.st.nontrivial += cnt;
            if thorough {
                ex = Some("all 2^32 f32 bit patterns (every pattern in lane 0, offsets in the other lanes)".into());
            } else {
                c.count_n("f32_stride_sweep_patterns", cnt);
            }
        }
        self.mon.end(c);
        if let Some(e) = ex {
            if !self.mon.scratch {
                self.mon.exhaustive.push(format!("{}::{} on {}", ty, op, e));
            }
        }
    }

    pub fn cast<S: SrcDom, D: SrcDom, const N: usize>(&mut self, ty: &str, op: &str, f: &dyn Fn([S; N]) -> [D; N], prim: &dyn Fn(S) -> D) {
        let sweep = S::NAME == "f32";
        self.lane_check::<S, D, N>(ty, op, &|a| Some(f(a)), &|x| Some(prim(x)), sweep);
    }
    pub fn from_num<S: SrcDom, D: SrcDom, const N: usize>(&mut self, ty: &str, op: &str, f: &dyn Fn([S; N]) -> [D; N], prim: &dyn Fn(S) -> D) {
        let sweep = S::NAME == "f32";
        self.lane_check::<S, D, N>(ty, op, &|a| Some(f(a)), &|x| Some(prim(x)), sweep);
    }
    pub fn try_from<S: SrcDom, D: SrcDom, const N: usize>(&mut self, ty: &str, op: &str, f: &dyn Fn([S; N]) -> Option<[D; N]>, prim: &dyn Fn(S) -> Option<D>) {
        self.lane_check::<S, D, N>(ty, op, f, prim, false);
    }
    pub fn from_mask<D: SrcDom, const N: usize>(&mut self, ty: &str, op: &str, f: &dyn Fn(&[bool]) -> [D; N], one: D, zero: D) {
        let Some(mut c) = self.mon.begin(ty, op) else { return };
        for m in 0..(1u32 << N) {
            let b: Vec<bool> = (0..4).map(|k| m & (1 << k) != 0).collect();
            let got = f(&b);
            c.event(m as u64, m != 0 && m != (1 << N) - 1);
            for k in 0..N {
                let e = if b[k] { one } else { zero };
                if got[k].bits() != e.bits() {
                    c.violation("mask_conversion", &[], format!("mask {:#b}", m), show_v(&got), String::new(), "true is 1, false is 0".into());
                    break;
                }
            }
            if c.need_sample() && m == 5 % (1 << N) {
                c.sample(format!("{}::{}(mask {:#b}) -> {}", ty, op, m, show_v(&got)));
            }
        }
        self.mon.end(c);
        if !self.mon.scratch {
            self.mon.exhaustive.push(format!("{}::{} on all {} masks", ty, op, 1 << N));
        }
    }
    /// structural conversions: output lane i is bit-for-bit input lane i (i < ndst)
    pub fn moves<S: SrcDom>(&mut self, ty: &str, op: &str, nsrc: usize, ndst: usize, f: &dyn Fn(&[S]) -> Vec<S>) {
        let Some(mut c) = self.mon.begin(ty, op) else { return };
        let mut rng = Rng::new(self.mon.op_seed(ty, op));
        for round in 0..(8 + self.random / 16) {
            let l: Vec<S> = (0..nsrc.max(4))
                .map(|k| if round < 8 { S::tag((k * 3 + round as usize * 5) % 16) } else { S::rand_bits(&mut rng) })
                .collect();
            let got = f(&l);
            c.event(round, true);
            let ok = got.len() == ndst && (0..ndst).all(|k| got[k].bits() == l[k].bits());
            if !ok {
                if c.wants_witness("move_mismatch", &[]) {
                    c.violation("move_mismatch", &[], format!("src lanes {}", show_v(&l[..nsrc])), show_v(&got), show_v(&l[..ndst]), "lanes must be preserved bit-for-bit in order".into());
                } else {
                    c.st.violations += 1;
                }
            } else if c.need_sample() {
                c.sample(format!("{}::{}({}) -> {}", ty, op, show_v(&l[..nsrc]), show_v(&got)));
            }
        }
        self.mon.end(c);
    }
}

fn canaries(mon: &mut Monitor) {
    mon.canary("f32->i8 cast that wraps instead of saturating", |m| {
        let mut c = Conv { mon: m, random: 100 };
        c.cast::<f32, i8, 2>("Canary", "as_i8", &|a| [a[0] as i32 as i8, a[1] as i8], &|x| x as i8);
    });
    mon.canary("TryFrom that only checks lane 0", |m| {
        let mut c = Conv { mon: m, random: 100 };
        c.try_from::<i32, u8, 3>("Canary", "TryFrom", &|a| u8::try_from(a[0]).ok().map(|x| [x, a[1] as u8, a[2] as u8]), &|x| u8::try_from(x).ok());
    });
    mon.canary("u16->i16 From implemented with as (lossy)", |m| {
        let mut c = Conv { mon: m, random: 100 };
        c.try_from::<u16, i16, 2>("Canary", "TryFrom", &|a| Some([a[0] as i16, a[1] as i16]), &|x| i16::try_from(x).ok());
    });
    mon.canary("extend writes w into lane 2", |m| {
        let mut c = Conv { mon: m, random: 16 };
        c.moves::<f32>("Canary", "extend", 4, 4, &|l| vec![l[0], l[1], l[3], l[2]]);
    });
    mon.canary("f64->f32 cast that truncates instead of rounding to nearest", |m| {
        let mut c = Conv { mon: m, random: 2000 };
        c.cast::<f64, f32, 2>("Canary", "as_vec2", &|a| a.map(|x| { let r = x as f32; if (r as f64).abs() > x.abs() && r.is_finite() { f32::from_bits(r.to_bits() - 1) } else { r } }), &|x| x as f32);
    });
}

pub fn run(mon: &mut Monitor) {
    canaries(mon);
    let random = mon.n(2_000, 400_000);
    let mut c = Conv { mon, random };
    crate::conv_gen::run_all(&mut c);
}

//! Element abstraction shared by the mask / swizzle / access-path monitors:
//! any lane scalar of any of the 40 vector types.

use vcommon::fl::Fl;
use vcommon::int::Int;
use vcommon::rng::Rng;

pub trait Elem: Copy + PartialOrd + PartialEq + core::fmt::Debug + core::fmt::Display + 'static {
    const NAME: &'static str;
    const IS_FLOAT: bool;
    /// hostile comparison pool (NaN, +-0, +-inf for floats; MIN/MAX/0/+-1 for ints)
    fn pool() -> Vec<Self>;
    /// pairwise distinct tagged bit patterns (floats: includes NaN payloads and -0)
    fn tag(i: usize) -> Self;
    fn bits(self) -> u64;
    fn rand_bits(r: &mut Rng) -> Self;
    fn show(self) -> String;
    fn zero() -> Self;
    fn one() -> Self;
}

macro_rules! elem_float {
    ($t:ty, $u:ty, $name:expr, $tags:expr) => {
        impl Elem for $t {
            const NAME: &'static str = $name;
            const IS_FLOAT: bool = true;
            fn pool() -> Vec<Self> {
                <$t as Fl>::lattice().to_vec()
            }
            fn tag(i: usize) -> Self {
                let t: &[$u] = &$tags;
                if i < t.len() {
                    <$t>::from_bits(t[i])
                } else {
                    (i as $t) * 1.25 + 0.0625
                }
            }
            fn bits(self) -> u64 {
                self.to_bits() as u64
            }
            fn rand_bits(r: &mut Rng) -> Self {
                <$t as Fl>::random_bits(r)
            }
            fn show(self) -> String {
                <$t as Fl>::hex(self)
            }
            fn zero() -> Self {
                0.0
            }
            fn one() -> Self {
                1.0
            }
        }
    };
}
// tags: -0, quiet NaN with payload, signalling NaN with payload, negative NaN, subnormal, ordinary values...
elem_float!(f32, u32, "f32", [0x8000_0000u32, 0x7fc1_2345, 0x7fa0_0001, 0xffc0_0077, 0x0000_0001, 0x3f80_0000, 0xc000_0000, 0x4040_0000, 0x7f80_0000, 0x0000_0000, 0x4080_0001, 0x40a0_0002, 0x40c0_0003, 0x40e0_0004, 0x4100_0005, 0x4110_0006]);
elem_float!(f64, u64, "f64", [0x8000_0000_0000_0000u64, 0x7ff8_1234_5678_9abc, 0x7ff4_0000_0000_0001, 0xfff8_0000_0000_0077, 0x1, 0x3ff0_0000_0000_0000, 0xc000_0000_0000_0000, 0x4008_0000_0000_0000, 0x7ff0_0000_0000_0000, 0x0, 0x4010_0000_0000_0001, 0x4014_0000_0000_0002, 0x4018_0000_0000_0003, 0x401c_0000_0000_0004, 0x4020_0000_0000_0005, 0x4022_0000_0000_0006]);

macro_rules! elem_int {
    ($t:ty, $name:expr) => {
        impl Elem for $t {
            const NAME: &'static str = $name;
            const IS_FLOAT: bool = false;
            fn pool() -> Vec<Self> {
                <$t as Int>::lattice()
            }
            fn tag(i: usize) -> Self {
                // distinct, includes MIN / MAX / 0 and values with the top bit set
                let special: [$t; 4] = [<$t>::MIN, <$t>::MAX, 0, <$t>::MAX / 2 + 1];
                if i < 4 {
                    special[i]
                } else {
                    (<$t>::MAX / 3).wrapping_add((i as $t).wrapping_mul(7)).wrapping_add(1)
                }
            }
            fn bits(self) -> u64 {
                self as u64
            }
            fn rand_bits(r: &mut Rng) -> Self {
                r.next_u64() as $t
            }
            fn show(self) -> String {
                format!("{}", self)
            }
            fn zero() -> Self {
                0
            }
            fn one() -> Self {
                1
            }
        }
    };
}
elem_int!(i8, "i8");
elem_int!(u8, "u8");
elem_int!(i16, "i16");
elem_int!(u16, "u16");
elem_int!(i32, "i32");
elem_int!(u32, "u32");
elem_int!(i64, "i64");
elem_int!(u64, "u64");
elem_int!(usize, "usize");

/// Vec4's mask type: BVec4A on SIMD back ends, BVec4 under scalar-math.
#[cfg(not(feature = "scalar-math"))]
pub type Vec4Mask = glam::BVec4A;
#[cfg(feature = "scalar-math")]
pub type Vec4Mask = glam::BVec4;

pub fn show_v<E: Elem>(v: &[E]) -> String {
    let p: Vec<String> = v.iter().map(|x| x.show()).collect();
    format!("[{}]", p.join(", "))
}

/// Apply a macro to the full table of the 40 numeric vector types:
/// (Type, scalar, N, mask type, "Name")
#[macro_export]
macro_rules! for_all_vec_types {
    ($m:ident) => {
        $m!(Vec2, f32, 2, BVec2, "Vec2");
        $m!(Vec3, f32, 3, BVec3, "Vec3");
        $m!(Vec3A, f32, 3, BVec3A, "Vec3A");
        $m!(Vec4, f32, 4, Vec4Mask, "Vec4");
        $m!(DVec2, f64, 2, BVec2, "DVec2");
        $m!(DVec3, f64, 3, BVec3, "DVec3");
        $m!(DVec4, f64, 4, BVec4, "DVec4");
        $m!(I8Vec2, i8, 2, BVec2, "I8Vec2");
        $m!(I8Vec3, i8, 3, BVec3, "I8Vec3");
        $m!(I8Vec4, i8, 4, BVec4, "I8Vec4");
        $m!(U8Vec2, u8, 2, BVec2, "U8Vec2");
        $m!(U8Vec3, u8, 3, BVec3, "U8Vec3");
        $m!(U8Vec4, u8, 4, BVec4, "U8Vec4");
        $m!(I16Vec2, i16, 2, BVec2, "I16Vec2");
        $m!(I16Vec3, i16, 3, BVec3, "I16Vec3");
        $m!(I16Vec4, i16, 4, BVec4, "I16Vec4");
        $m!(U16Vec2, u16, 2, BVec2, "U16Vec2");
        $m!(U16Vec3, u16, 3, BVec3, "U16Vec3");
        $m!(U16Vec4, u16, 4, BVec4, "U16Vec4");
        $m!(IVec2, i32, 2, BVec2, "IVec2");
        $m!(IVec3, i32, 3, BVec3, "IVec3");
        $m!(IVec4, i32, 4, BVec4, "IVec4");
        $m!(UVec2, u32, 2, BVec2, "UVec2");
        $m!(UVec3, u32, 3, BVec3, "UVec3");
        $m!(UVec4, u32, 4, BVec4, "UVec4");
        $m!(I64Vec2, i64, 2, BVec2, "I64Vec2");
        $m!(I64Vec3, i64, 3, BVec3, "I64Vec3");
        $m!(I64Vec4, i64, 4, BVec4, "I64Vec4");
        $m!(U64Vec2, u64, 2, BVec2, "U64Vec2");
        $m!(U64Vec3, u64, 3, BVec3, "U64Vec3");
        $m!(U64Vec4, u64, 4, BVec4, "U64Vec4");
        $m!(USizeVec2, usize, 2, BVec2, "USizeVec2");
        $m!(USizeVec3, usize, 3, BVec3, "USizeVec3");
        $m!(USizeVec4, usize, 4, BVec4, "USizeVec4");
    };
}


/// A `Vec3A` with the given visible lanes, built the ways users come by one: `from_array` (fourth lane = z), `from_vec4`
/// (fourth lane arbitrary) or after an in-place write of z (fourth lane keeps the old z).  The route is a deterministic
/// function of the lane bits.  Under scalar-math there is no fourth lane and all routes coincide.
pub fn mk3a(a: [f32; 3]) -> glam::Vec3A {
    use glam::{Vec3A, Vec4};
    let h = vcommon::rng::mix(a[0].to_bits() as u64 | ((a[1].to_bits() as u64) << 32), a[2].to_bits() as u64 ^ 0x51ed);
    let junk = [0.0f32, 1.0, -7.5e3, f32::INFINITY, f32::NEG_INFINITY, f32::NAN, 1e-40, 3e38][((h >> 8) % 8) as usize];
    match h % 4 {
        0 => Vec3A::from_array(a),
        1 | 2 => Vec3A::from_vec4(Vec4::new(a[0], a[1], a[2], junk)),
        _ => {
            let mut v = Vec3A::new(a[0], a[1], junk);
            v.z = a[2];
            v
        }
    }
}
pub trait MkLanes<S, const N: usize>: Sized {
    fn mk(a: [S; N]) -> Self;
}
macro_rules! plain_mk {
    ($($T:ident, $S:ty, $N:expr);*) => {$( impl MkLanes<$S, $N> for glam::$T { fn mk(a: [$S; $N]) -> Self { glam::$T::from_array(a) } } )*};
}
plain_mk!(Vec2, f32, 2; Vec3, f32, 3; Vec4, f32, 4; DVec2, f64, 2; DVec3, f64, 3; DVec4, f64, 4);
impl MkLanes<f32, 3> for glam::Vec3A {
    fn mk(a: [f32; 3]) -> Self {
        mk3a(a)
    }
}

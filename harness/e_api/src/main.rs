//! e_api: monitors that are generic over the public API (generated call registry):
//! C18 panic monitor, C08 hidden-lane twin execution, C07 cross-build traces, C20 assertion equivalence.
#![cfg_attr(feature = "core-simd", feature(portable_simd))]
#![allow(clippy::all)]

mod registry_gen;
mod val;
mod c07;
mod c08;
mod c18;
mod c20;
mod c20v;

use vcommon::mon::Args;

fn main() {
    let args = Args::parse();
    let mut mon = args.monitor();
    vcommon::mon::quiet_panics();
    let r = std::panic::catch_unwind(std::panic::AssertUnwindSafe(|| run(&args, &mut mon)));
    if r.is_err() {
        eprintln!("HARNESS PANIC escaped every monitor: {}", vcommon::mon::last_panic());
        std::process::exit(3);
    }
    args.finish(&mon);
}

fn run(args: &Args, mon: &mut vcommon::mon::Monitor) {
    if args.mode.as_deref() == Some("cmp") {
        // trace comparison is shared by C07 and C20
        return c07::run(mon, args);
    }
    match args.prop.as_str() {
        "C07" => c07::run(mon, args),
        "C08" => c08::run(mon, args),
        "C18" => c18::run(mon, args),
        "C20" => c20::run(mon, args),
        p => {
            eprintln!("e_api: unknown property {}", p);
            std::process::exit(2);
        }
    }
}

//! C18: only documented panics occur and no access goes out of bounds.
use crate::registry_gen::registry;
use crate::val::*;
use glam::*;
use std::panic::{catch_unwind, AssertUnwindSafe};
use vcommon::mon::*;

pub fn run(mon: &mut Monitor, args: &Args) {
    let reg = registry();
    let san = matches!(args.mode.as_deref(), Some("san") | Some("miri"));
    let miri = args.mode.as_deref() == Some("miri");
    if !san {
        canaries(mon);
    }
    if miri {
        // the UB interpreter is ~4 orders of magnitude slower: one ordinary call of every entry that
        // involves a SIMD-backed type (pointer casts, unions, unaligned loads/stores live there)
        let sub: Vec<Entry> = reg.into_iter().filter(|e| e.simd8 && e.kind != "fmt").collect();
        miri_registry(mon, &sub);
    } else {
        panic_monitor(mon, &reg, san);
    }
    slice_monitor(mon, miri);
    if !miri {
        index_monitor(mon);
    }
    conversions_touch(mon);
}

/// Every registry entry with lattice values in every scalar slot: no panic allowed
/// (indices are drawn in range and slices are long enough, so no documented panic applies).
fn panic_monitor(mon: &mut Monitor, reg: &[Entry], san: bool) {
    let rounds = if san { 1 } else { mon.n(60, 1500) };
    for e in reg {
        let Some(mut c) = mon.begin(e.ty, e.name) else { continue };
        let seed = mon.op_seed(e.ty, e.name);
        let mut run_one = |c: &mut OpCtx, s: &mut Src, tag: &'static str, key: u64| {
            let r = catch_unwind(AssertUnwindSafe(|| (e.call)(s)));
            c.event(key, true);
            if r.is_err() {
                let msg = last_panic();
                // replay with logging to show the argument values
                let mut s2 = Src::new(0, s.mode);
                s2.rng = s.rng.clone();
                if c.wants_witness("unexpected_panic", &[tag]) {
                    c.violation("unexpected_panic", &[tag], format!("{}::{} mode {:?} hot slot {:?}", e.ty, e.name, s.mode, s.hot), msg, "no panic".into(), "float APIs must not panic without glam-assert (only short slices, out-of-range indices and integer overflow / division by zero are documented)".into());
                } else {
                    c.st.violations += 1;
                }
            }
        };
        // how many scalar slots does this entry draw?
        let mut probe = Src::new(seed, Mode::Ordinary);
        let _ = catch_unwind(AssertUnwindSafe(|| (e.call)(&mut probe)));
        let slots = probe.slot.min(24);
        for round in 0..rounds {
            for h in 0..slots {
                let mut s = Src::new(vcommon::rng::mix(seed, round * 64 + h as u64), Mode::Lattice);
                s.hot = Some(h);
                run_one(&mut c, &mut s, "one-hot", (h as u64) << 8 | (round % 16));
            }
            let mut s = Src::new(vcommon::rng::mix(seed, 0xabc0 + round), Mode::Lattice);
            run_one(&mut c, &mut s, "lattice-tuple", 0xffff00 | (round % 64));
            let mut s = Src::new(vcommon::rng::mix(seed, 0xdef0 + round), Mode::Ordinary);
            run_one(&mut c, &mut s, "ordinary", 0xfffe00 | (round % 64));
        }
        c.sample(format!("{}::{} with every scalar slot ({}) set to lattice values in turn", e.ty, e.name, slots));
        mon.end(c);
    }
}

fn miri_registry(mon: &mut Monitor, reg: &[Entry]) {
    if let Some(mut c) = mon.begin_unsharded("registry", "one call of every SIMD-type entry") {
        for (i, e) in reg.iter().enumerate() {
            if i as u32 % mon.shard.1 != mon.shard.0 {
                continue;
            }
            let mut s = Src::new(vcommon::rng::mix(mon.seed, i as u64), Mode::Ordinary);
            let r = catch_unwind(AssertUnwindSafe(|| (e.call)(&mut s)));
            c.event(i as u64, true);
            if r.is_err() {
                c.violation("unexpected_panic", &["miri"], format!("{}::{}", e.ty, e.name), last_panic(), String::new(), String::new());
            }
        }
        c.sample("every registry entry touching a SIMD-backed type executed once under the interpreter".into());
        mon.end(c);
    }
}

// ---- slices -----------------------------------------------------------------------------------------------------
pub trait Sc: Copy + PartialEq + core::fmt::Debug + 'static {
    fn val(i: usize) -> Self;
    fn sent(i: usize) -> Self;
    fn same(a: Self, b: Self) -> bool;
}
impl Sc for f32 {
    fn val(i: usize) -> Self {
        1.5 + i as f32
    }
    fn sent(i: usize) -> Self {
        f32::from_bits(0x7fc5_5a00 + i as u32)
    }
    fn same(a: Self, b: Self) -> bool {
        a.to_bits() == b.to_bits()
    }
}
impl Sc for f64 {
    fn val(i: usize) -> Self {
        1.5 + i as f64
    }
    fn sent(i: usize) -> Self {
        f64::from_bits(0x7ff8_5a5a_0000_0000 + i as u64)
    }
    fn same(a: Self, b: Self) -> bool {
        a.to_bits() == b.to_bits()
    }
}
macro_rules! sc_int {
    ($($t:ty),*) => {$( impl Sc for $t { fn val(i: usize) -> Self { (i as $t).wrapping_add(3) } fn sent(i: usize) -> Self { (0x5a as $t).wrapping_add(i as $t) } fn same(a: Self, b: Self) -> bool { a == b } } )*};
}
sc_int!(i8, u8, i16, u16, i32, u32, i64, u64, usize);

/// `read(&[S]) -> lanes` and `write(lanes, &mut [S])` for one type with N elements
fn slice_suite<S: Sc>(mon: &mut Monitor, ty: &str, n: usize, read_name: &str, write_name: &str, read: &dyn Fn(&[S]) -> Vec<S>, write: &dyn Fn(&[S], &mut [S])) {
    if let Some(mut c) = mon.begin(ty, &format!("{}/{}", read_name, write_name)) {
        let vals: Vec<S> = (0..n).map(S::val).collect();
        for len in 0..n + 5 {
            // ---- read: exactly sized heap allocation (one element too many is out of bounds for ASan / Miri)
            let src: Box<[S]> = (0..len).map(S::val).collect::<Vec<S>>().into_boxed_slice();
            let r = catch_unwind(AssertUnwindSafe(|| read(&src)));
            c.event(len as u64, true);
            match (&r, len >= n) {
                (Ok(g), true) => {
                    if g.len() != n || (0..n).any(|k| !S::same(g[k], src[k])) {
                        c.violation("slice", &[read_name, "value"], format!("len {}", len), format!("{:?}", g), format!("{:?}", &src[..n]), "must read exactly the first N elements in order".into());
                    }
                }
                (Ok(g), false) => c.violation("slice", &[read_name, "missing_panic"], format!("len {} < {}", len, n), format!("{:?}", g), "panic".into(), "slice shorter than the element count must panic".into()),
                (Err(_), true) => c.violation("slice", &[read_name, "unexpected_panic"], format!("len {} >= {}", len, n), last_panic(), "value".into(), String::new()),
                (Err(_), false) => c.st.panics_expected += 1,
            }
            // ---- write into a window of a sentinel buffer
            let total = len + 8;
            let mut buf: Vec<S> = (0..total).map(S::sent).collect();
            let before = buf.clone();
            let r = catch_unwind(AssertUnwindSafe(|| write(&vals, &mut buf[3..3 + len])));
            c.event(100 + len as u64, true);
            match (&r, len >= n) {
                (Ok(()), true) => {
                    let ok = (0..total).all(|k| if k >= 3 && k < 3 + n { S::same(buf[k], vals[k - 3]) } else { S::same(buf[k], before[k]) });
                    if !ok {
                        c.violation("slice", &[write_name, "extent"], format!("len {}", len), format!("{:?}", buf), String::new(), "must write exactly the first N elements and leave the rest untouched".into());
                    }
                }
                (Ok(()), false) => c.violation("slice", &[write_name, "missing_panic"], format!("len {} < {}", len, n), format!("{:?}", buf), "panic".into(), "slice shorter than the element count must panic".into()),
                (Err(_), true) => c.violation("slice", &[write_name, "unexpected_panic"], format!("len {} >= {}", len, n), last_panic(), String::new(), String::new()),
                (Err(_), false) => {
                    c.st.panics_expected += 1;
                    if (0..total).any(|k| !S::same(buf[k], before[k])) {
                        c.violation("slice", &[write_name, "partial_write"], format!("len {} < {}", len, n), format!("{:?}", buf), format!("{:?}", before), "the panic must be raised before any memory is touched".into());
                    }
                }
            }
            // ---- write into an exactly sized heap allocation (red zone right behind it)
            let mut exact: Box<[S]> = (0..len).map(S::sent).collect::<Vec<S>>().into_boxed_slice();
            let r = catch_unwind(AssertUnwindSafe(|| write(&vals, &mut exact)));
            if r.is_ok() != (len >= n) {
                c.violation("slice", &[write_name, "panic_mismatch"], format!("exact heap slice len {}", len), format!("{:?}", r.is_ok()), String::new(), String::new());
            }
        }
        c.sample(format!("{}: {} / {} with every slice length 0..{} (sentinel window and exactly sized heap slices)", ty, read_name, write_name, n + 4));
        mon.end(c);
        if !mon.scratch {
            mon.exhaustive.push(format!("{}: {}/{} for all slice lengths 0..N+4", ty, read_name, write_name));
        }
    }
}

macro_rules! vec_slices {
    ($mon:expr, $T:ident, $S:ty, $N:expr) => {
        slice_suite::<$S>($mon, stringify!($T), $N, "from_slice", "write_to_slice", &|s| <$T>::from_slice(s).to_array().to_vec(), &|v, d| <$T>::from_array(core::array::from_fn(|k| v[k])).write_to_slice(d));
    };
}
macro_rules! mat_slices {
    ($mon:expr, $T:ident, $S:ty, $N:expr) => {
        slice_suite::<$S>($mon, stringify!($T), $N, "from_cols_slice", "write_cols_to_slice", &|s| <$T>::from_cols_slice(s).to_cols_array().to_vec(), &|v, d| <$T>::from_cols_array(&core::array::from_fn(|k| v[k])).write_cols_to_slice(d));
    };
}

fn slice_monitor(mon: &mut Monitor, miri: bool) {
    if miri {
        vec_slices!(mon, Vec3A, f32, 3);
        vec_slices!(mon, Vec4, f32, 4);
        vec_slices!(mon, Quat, f32, 4);
        mat_slices!(mon, Mat2, f32, 4);
        mat_slices!(mon, Mat3A, f32, 9);
        mat_slices!(mon, Mat4, f32, 16);
        mat_slices!(mon, Affine3A, f32, 12);
        return;
    }
    vec_slices!(mon, Vec2, f32, 2);
    vec_slices!(mon, Vec3, f32, 3);
    vec_slices!(mon, Vec3A, f32, 3);
    vec_slices!(mon, Vec4, f32, 4);
    vec_slices!(mon, Quat, f32, 4);
    vec_slices!(mon, DVec2, f64, 2);
    vec_slices!(mon, DVec3, f64, 3);
    vec_slices!(mon, DVec4, f64, 4);
    vec_slices!(mon, DQuat, f64, 4);
    mat_slices!(mon, Mat2, f32, 4);
    mat_slices!(mon, Mat3, f32, 9);
    mat_slices!(mon, Mat3A, f32, 9);
    mat_slices!(mon, Mat4, f32, 16);
    mat_slices!(mon, DMat2, f64, 4);
    mat_slices!(mon, DMat3, f64, 9);
    mat_slices!(mon, DMat4, f64, 16);
    mat_slices!(mon, Affine2, f32, 6);
    mat_slices!(mon, Affine3A, f32, 12);
    mat_slices!(mon, DAffine2, f64, 6);
    mat_slices!(mon, DAffine3, f64, 12);
    vec_slices!(mon, I8Vec2, i8, 2);
    vec_slices!(mon, U8Vec3, u8, 3);
    vec_slices!(mon, I16Vec4, i16, 4);
    vec_slices!(mon, U16Vec2, u16, 2);
    vec_slices!(mon, IVec3, i32, 3);
    vec_slices!(mon, UVec4, u32, 4);
    vec_slices!(mon, I64Vec2, i64, 2);
    vec_slices!(mon, U64Vec3, u64, 3);
    vec_slices!(mon, USizeVec4, usize, 4);
}

// ---- indices ------------------------------------------------------------------------------------------------------
fn index_monitor(mon: &mut Monitor) {
    macro_rules! idx {
        ($T:ident, $S:ty, $N:expr, $mk:expr) => {
            if let Some(mut c) = mon.begin(stringify!($T), "Index/IndexMut range") {
                let v: $T = $mk;
                let arr = v.to_array();
                for i in [0usize, 1, 2, 3, 4, 5, 6, 7, usize::MAX, usize::MAX / 2] {
                    let r = catch_unwind(AssertUnwindSafe(|| v[i]));
                    let w = catch_unwind(AssertUnwindSafe(|| { let mut m = v; m[i] = arr[0]; m.to_array() }));
                    c.event(i as u64 & 15, true);
                    if i < $N {
                        match r { Ok(g) => if !<$S as Sc>::same(g, arr[i]) { c.violation("index", &["value"], format!("[{}]", i), format!("{:?}", g), format!("{:?}", arr[i]), String::new()); }, Err(_) => c.violation("index", &["unexpected_panic"], format!("[{}]", i), last_panic(), String::new(), String::new()) }
                        if w.is_err() { c.violation("index", &["unexpected_panic"], format!("[{}] =", i), last_panic(), String::new(), String::new()); }
                    } else {
                        if r.is_ok() { c.violation("index", &["missing_panic"], format!("[{}] on a {}-vector", i, $N), format!("{:?}", r.ok()), "panic".into(), "out-of-range index must panic (never reach a hidden lane or adjacent memory)".into()); } else { c.st.panics_expected += 1; }
                        if w.is_ok() { c.violation("index", &["missing_panic"], format!("[{}] = on a {}-vector", i, $N), format!("{:?}", w.ok()), "panic".into(), String::new()); } else { c.st.panics_expected += 1; }
                    }
                }
                c.sample(format!("{}: Index / IndexMut with indices 0..7, usize::MAX", stringify!($T)));
                mon.end(c);
            }
        };
    }
    idx!(Vec2, f32, 2, Vec2::new(1.0, 2.0));
    idx!(Vec3, f32, 3, Vec3::new(1.0, 2.0, 3.0));
    idx!(Vec3A, f32, 3, Vec3A::from_vec4(Vec4::new(1.0, 2.0, 3.0, 77.0)));
    idx!(Vec4, f32, 4, Vec4::new(1.0, 2.0, 3.0, 4.0));
    idx!(DVec2, f64, 2, DVec2::new(1.0, 2.0));
    idx!(DVec3, f64, 3, DVec3::new(1.0, 2.0, 3.0));
    idx!(DVec4, f64, 4, DVec4::new(1.0, 2.0, 3.0, 4.0));
    idx!(IVec3, i32, 3, IVec3::new(1, 2, 3));
    idx!(U8Vec4, u8, 4, U8Vec4::new(1, 2, 3, 4));
    idx!(I64Vec2, i64, 2, I64Vec2::new(1, 2));
    // matrix col / row / col_mut and mask test / set index ranges
    macro_rules! mcol {
        ($T:ident, $N:expr) => {
            if let Some(mut c) = mon.begin(stringify!($T), "col/row/col_mut range") {
                let m = <$T>::IDENTITY;
                for i in [0usize, 1, 2, 3, 4, 5, 6, usize::MAX] {
                    let rs = [catch_unwind(AssertUnwindSafe(|| { let _ = m.col(i); })).is_ok(), catch_unwind(AssertUnwindSafe(|| { let _ = m.row(i); })).is_ok(), catch_unwind(AssertUnwindSafe(|| { let mut mm = m; let _ = *mm.col_mut(i); })).is_ok()];
                    c.event(i as u64 & 15, true);
                    for (k, ok) in rs.iter().enumerate() {
                        if *ok != (i < $N) {
                            c.violation("index", &[["col", "row", "col_mut"][k], if i < $N { "unexpected_panic" } else { "missing_panic" }], format!("index {}", i), format!("returned: {}", ok), String::new(), String::new());
                        } else if !*ok { c.st.panics_expected += 1; }
                    }
                }
                c.sample(format!("{}: col/row/col_mut indices 0..6, usize::MAX", stringify!($T)));
                mon.end(c);
            }
        };
    }
    mcol!(Mat2, 2);
    mcol!(Mat3, 3);
    mcol!(Mat3A, 3);
    mcol!(Mat4, 4);
    mcol!(DMat2, 2);
    mcol!(DMat3, 3);
    mcol!(DMat4, 4);
    macro_rules! mask {
        ($T:ident, $N:expr) => {
            if let Some(mut c) = mon.begin(stringify!($T), "test/set range") {
                let m = <$T>::splat(true);
                for i in [0usize, 1, 2, 3, 4, 5, 6, usize::MAX] {
                    let t = catch_unwind(AssertUnwindSafe(|| m.test(i))).is_ok();
                    let s = catch_unwind(AssertUnwindSafe(|| { let mut mm = m; mm.set(i, false); mm.bitmask() })).is_ok();
                    c.event(i as u64 & 15, true);
                    if t != (i < $N) || s != (i < $N) {
                        c.violation("index", &["test/set", if i < $N { "unexpected_panic" } else { "missing_panic" }], format!("index {}", i), format!("test returned: {}, set returned: {}", t, s), String::new(), String::new());
                    } else if !t { c.st.panics_expected += 2; }
                }
                c.sample(format!("{}: test/set indices 0..6, usize::MAX", stringify!($T)));
                mon.end(c);
            }
        };
    }
    mask!(BVec2, 2);
    mask!(BVec3, 3);
    mask!(BVec4, 4);
    mask!(BVec3A, 3);
    mask!(BVec4A, 4);
}

/// Conversions of the SIMD-backed types that go through pointer casts / aligned stores (targets for the
/// sanitizers; values are checked too).
fn conversions_touch(mon: &mut Monitor) {
    if let Some(mut c) = mon.begin("SIMD-conversions", "AsRef/AsMut/Deref/Into arrays") {
        for k in 0..16 {
            let f = |i: usize| 1.25f32 + (i + k) as f32;
            let v4 = Vec4::new(f(0), f(1), f(2), f(3));
            let v3a = Vec3A::new(f(0), f(1), f(2));
            let q = Quat::from_xyzw(f(0), f(1), f(2), f(3));
            let m2 = Mat2::from_cols_array(&[f(0), f(1), f(2), f(3)]);
            let mut ok = true;
            let a4: [f32; 4] = v4.into();
            ok &= a4 == [f(0), f(1), f(2), f(3)];
            let r4: &[f32; 4] = v4.as_ref();
            ok &= *r4 == a4;
            let a3: [f32; 3] = v3a.into();
            ok &= a3 == [f(0), f(1), f(2)];
            let r3: &[f32; 3] = v3a.as_ref();
            ok &= *r3 == a3;
            let t3: (f32, f32, f32) = v3a.into();
            ok &= t3 == (f(0), f(1), f(2));
            let v3: Vec3 = v3a.into();
            ok &= v3.to_array() == a3;
            let back: Vec3A = v3.into();
            ok &= back.to_array() == a3;
            let mut w = v3a;
            { let m: &mut [f32; 3] = w.as_mut(); m[1] = 9.0; }
            ok &= w.to_array() == [f(0), 9.0, f(2)];
            w.z = 7.0;
            ok &= w.to_array() == [f(0), 9.0, 7.0] && w.x == f(0);
            let qa: [f32; 4] = q.into();
            ok &= qa == [f(0), f(1), f(2), f(3)] && q.w == f(3);
            let rm: &[f32; 4] = m2.as_ref();
            ok &= *rm == [f(0), f(1), f(2), f(3)];
            ok &= m2.mul_vec2(Vec2::new(1.0, 0.0)).to_array() == [f(0), f(1)];
            ok &= m2.x_axis.y == f(1) && m2.y_axis.x == f(2);
            let t4: (f32, f32, f32, f32) = v4.into();
            ok &= t4 == (f(0), f(1), f(2), f(3));
            const CQ: Quat = Quat::from_xyzw(1.0, 2.0, 3.0, 4.0);
            const CV: Vec4 = Vec4::new(1.0, 2.0, 3.0, 4.0);
            const C3: Vec3A = Vec3A::new(1.0, 2.0, 3.0);
            ok &= CQ.to_array() == [1.0, 2.0, 3.0, 4.0] && CV.to_array() == [1.0, 2.0, 3.0, 4.0] && C3.to_array() == [1.0, 2.0, 3.0];
            c.event(k as u64, true);
            if !ok {
                c.violation("conversion", &[], format!("k={}", k), String::new(), String::new(), "pointer-cast / aligned-store conversions of SIMD types must move exactly the visible lanes".into());
            }
        }
        c.sample("Vec4/Vec3A/Quat/Mat2: Into<array/tuple>, AsRef/AsMut, Deref fields, From<Vec3A> for Vec3, const constructors".into());
        mon.end(c);
    }
}

fn canaries(mon: &mut Monitor) {
    mon.canary("write_to_slice storing a whole register into a 3-element destination", |m| {
        slice_suite::<f32>(m, "Canary", 3, "from_slice", "write_to_slice", &|s| s[..3].to_vec(), &|v, d| {
            assert!(d.len() >= 3);
            let n = d.len().min(4);
            for k in 0..n { d[k] = if k < 3 { v[k] } else { 0.0 }; }
        });
    });
    mon.canary("from_slice without the length assertion", |m| {
        slice_suite::<f32>(m, "Canary", 4, "from_slice", "write_to_slice", &|s| (0..4).map(|k| *s.get(k).unwrap_or(&0.0)).collect(), &|v, d| d[..4].copy_from_slice(&v[..4]));
    });
    mon.canary("element-by-element write (partial write before the panic)", |m| {
        slice_suite::<f64>(m, "Canary", 4, "from_slice", "write_to_slice", &|s| s[..4].to_vec(), &|v, d| { for k in 0..4 { d[k] = v[k]; } });
    });
    mon.canary("clamp with NaN bounds in the registry", |m| {
        let e = Entry { ty: "Canary", name: "clamp", hidden: false, simd8: false, kind: "fn", call: |s: &mut Src| { let a: f32 = s.draw(); let b: f32 = s.draw(); let mut o = Out::new(); a.clamp(b - 1.0, b).cap(&mut o); o } };
        panic_monitor(m, &[e], false);
    });
}

//! C20, second vocabulary: the precondition-carrying operations of *every* float vector type
//! (Vec2, Vec3, Vec3A, Vec4, DVec2, DVec3, DVec4) in chains fed with the type's own outputs, and the
//! catalogue of documented precondition violations, one minimal violation per `glam_assert!` conjunct
//! (a single lane with min > max, one non-unit operand out of two, one zero near plane, ...).
use crate::c07::cap_of;
use crate::val::Out;
use glam::*;
use std::panic::{catch_unwind, AssertUnwindSafe};
use vcommon::mon::*;
use vcommon::rng::{hash_str, Rng};

/// How users come by a value of the type: padded SIMD types may carry anything in the unused lane.
pub trait Dress: Copy {
    fn dress(self, _r: &mut Rng) -> Self {
        self
    }
}
impl Dress for Vec2 {}
impl Dress for Vec3 {}
impl Dress for Vec4 {}
impl Dress for DVec2 {}
impl Dress for DVec3 {}
impl Dress for DVec4 {}
impl Dress for Vec3A {
    fn dress(self, r: &mut Rng) -> Self {
        match r.below(6) {
            // the first three lanes of a Vec4 (a matrix column, a homogeneous point, a plane ...)
            0 => Vec3A::from_vec4(Vec4::new(self.x, self.y, self.z, 0.0)),
            1 => Vec3A::from_vec4(Vec4::new(self.x, self.y, self.z, f32::INFINITY)),
            2 => Vec3A::from_vec4(Vec4::new(self.x, self.y, self.z, f32::NAN)),
            // computed: the unused lane of a quotient by a Vec4 column with w = 0 is z/0 or 0/0
            3 => {
                let d = Vec3A::from_vec4(Vec4::new(1.0, 1.0, 1.0, 0.0));
                self / d
            }
            4 => {
                let d = Vec3A::from_vec4(Vec4::new(1.0, 1.0, 1.0, 0.0));
                (self * d) / d
            }
            _ => self,
        }
    }
}

macro_rules! vecfam {
    ($modname:ident, $S:ty, $V:ident, $N:expr, $tag:expr, $extra:ident) => {
        pub mod $modname {
            use super::*;
            pub struct Pools {
                pub u: Vec<$V>,
                pub v: Vec<$V>,
            }
            pub const TAG: &str = $tag;
            fn keep(p: &mut Vec<$V>, v: $V, r: &mut Rng) {
                if !v.to_array().iter().all(|x| x.is_finite()) { return; }
                if p.len() < 12 { p.push(v); } else { let i = r.idx(12); p[i] = v; }
            }
            /// finite, and far enough from zero that the squared length is a normal number: "not of length zero, nor very
            /// close to zero" in the words of `normalize`'s documentation.  Vectors without a direction are not fed to the
            /// direction-consuming operations (normalize*, rotate_towards, slerp); see DESIGN.md, C20.
            pub fn has_direction(v: $V) -> bool {
                let l2: f64 = v.to_array().iter().map(|x| (*x as f64) * (*x as f64)).sum();
                v.to_array().iter().all(|x| x.is_finite()) && l2 >= (<$S>::MIN_POSITIVE as f64) * 16.0 && l2 <= (<$S>::MAX as f64) / 16.0
            }
            pub fn gen(r: &mut Rng) -> $V {
                // finite, non-zero, squared length a normal number and finite
                let s = match r.below(7) { 0 => 1e-15, 1 => 1e12, 2 => 1e-6, 3 => 1e3, _ => 1.0 } * r.range(0.3, 3.0);
                loop {
                    let a: [$S; $N] = core::array::from_fn(|k| if r.below(9) == 0 && k > 0 { 0.0 } else { (r.normal() * s) as $S });
                    let v = <$V>::from_array(a);
                    if has_direction(v) { return v.dress(r); }
                }
            }
            pub fn fresh() -> Pools {
                Pools { u: vec![<$V>::X, <$V>::NEG_Y], v: vec![<$V>::ONE, <$V>::from_array(core::array::from_fn(|k| [1.0, -2.0, 3.0, -4.0][k] as $S))] }
            }
            pub const NOPS: usize = 16;
            pub fn step(p: &mut Pools, r: &mut Rng, sink: &mut dyn FnMut(&'static str, Out)) {
                let op = r.idx(NOPS);
                macro_rules! pick { ($pool:expr) => {{ let i = r.idx($pool.len()); let x = $pool[i]; x.dress(r) }}; }
                macro_rules! out { ($name:expr, $v:expr) => { sink($name, cap_of(&$v)) }; }
                match op {
                    0 => { let v = gen(r).normalize(); keep(&mut p.u, v, r); out!("normalize", v); }
                    1 => { if let Some(v) = gen(r).try_normalize() { keep(&mut p.u, v, r); out!("try_normalize", v); } let z = <$V>::ZERO.try_normalize(); out!("try_normalize(0)", z.is_none()); }
                    2 => { let fb = pick!(p.u); let v = gen(r).normalize_or(fb); keep(&mut p.u, v, r); out!("normalize_or", v); let w = <$V>::ZERO.normalize_or(fb); keep(&mut p.u, w, r); let z = gen(r).normalize_or_zero(); if z != <$V>::ZERO { keep(&mut p.u, z, r); } out!("normalize_or_zero", z); }
                    3 => { let (n, l) = gen(r).normalize_and_length(); if l > 0.0 { keep(&mut p.u, n, r); } out!("normalize_and_length", (n, l)); }
                    4 => {
                        let (a, b) = (gen(r), if r.below(4) == 0 { pick!(p.v) } else { gen(r) });
                        let lo = a.min(b);
                        // bounds that coincide in some lanes are valid (min <= max)
                        let hi = if r.below(3) == 0 { <$V>::select(<$V>::X.cmpgt(<$V>::ZERO), lo, a.max(b)) } else { a.max(b) };
                        // the bounds carry their own (independent) unused lanes
                        let (lo, hi) = (lo.dress(r), hi.dress(r));
                        let v = pick!(p.v).clamp(lo, hi);
                        keep(&mut p.v, v, r);
                        out!("clamp", v);
                    }
                    5 => {
                        let lo = (if r.below(4) == 0 { 0.0 } else { r.range(0.0, 2.0) }) as $S;
                        let hi = lo + (if r.below(4) == 0 { 0.0 } else { r.range(0.0, 3.0) }) as $S;
                        let v = pick!(p.v).clamp_length(lo, hi); keep(&mut p.v, v, r); out!("clamp_length", v);
                        let w = pick!(p.v).clamp_length_max(hi); out!("clamp_length_max", w);
                        let x = pick!(p.v).clamp_length_min(lo); out!("clamp_length_min", x);
                        let y = pick!(p.v).clamp_length_max(0.0); out!("clamp_length_max(0)", y);
                    }
                    6 => { let v = pick!(p.v).project_onto(gen(r)); out!("project_onto", v); let w = pick!(p.v).reject_from(gen(r)); out!("reject_from", w); }
                    7 => { let v = pick!(p.v).project_onto_normalized(pick!(p.u)); out!("project_onto_normalized", v); let w = pick!(p.v).reject_from_normalized(pick!(p.u)); keep(&mut p.v, w, r); out!("reject_from_normalized", w); }
                    8 => { let v = pick!(p.v).reflect(pick!(p.u)); keep(&mut p.v, v, r); out!("reflect", v); let w = pick!(p.u).reflect(pick!(p.u)); keep(&mut p.u, w.normalize_or(<$V>::X), r); }
                    9 => { let eta = r.range(0.4, 1.6) as $S; let v = pick!(p.u).refract(pick!(p.u), eta); out!("refract", v); if has_direction(v) { if let Some(n) = v.try_normalize() { keep(&mut p.u, n, r); } } }
                    10 => { let v = pick!(p.v).lerp(pick!(p.v), r.unit() as $S); keep(&mut p.v, v, r); out!("lerp", v); let m = pick!(p.v).midpoint(gen(r)); keep(&mut p.v, m, r); let t = pick!(p.v).move_towards(pick!(p.v), r.range(0.0, 2.0) as $S); keep(&mut p.v, t, r); out!("move_towards", t); }
                    11 => { let v = -pick!(p.u); keep(&mut p.u, v, r); let a = pick!(p.u).dot(pick!(p.u)); out!("dot", a); let d = pick!(p.v).distance(pick!(p.v)); out!("distance", d); }
                    12 => { let v = pick!(p.v); out!("is_normalized/is_finite", (pick!(p.u).is_normalized(), v.is_finite(), v.is_nan())); let w = v.abs().signum().copysign(v); keep(&mut p.v, w, r); }
                    _ => { $extra!(p, r, sink, op, $S, $V); }
                }
            }
            pub fn check(p: &Pools) -> (f64, String) {
                let mut worst = (0.0f64, String::new());
                for v in &p.u {
                    let m = ((v.length_squared() - 1.0).abs() as f64) / 2e-4;
                    let m = if m.is_nan() { f64::INFINITY } else { m };
                    if m > worst.0 { worst = (m, format!("unit {} {:?}", stringify!($V), v)); }
                    if !v.is_normalized() { worst = (f64::INFINITY, format!("{} {:?} produced as a unit vector fails is_normalized()", stringify!($V), v)); }
                }
                for v in &p.v {
                    // is_finite() of a pooled value agrees with its visible lanes
                    let fin = v.to_array().iter().all(|x| x.is_finite());
                    if fin != v.is_finite() { worst = (f64::INFINITY, format!("{} {:?}: is_finite() = {} disagrees with its elements", stringify!($V), v, v.is_finite())); }
                }
                worst
            }
        }
    };
}

macro_rules! extra2 {
    ($p:ident, $r:ident, $sink:ident, $op:ident, $S:ty, $V:ident) => {{
        let ang = (match $r.below(4) { 0 => $r.range(-0.01, 0.01), 1 => core::f64::consts::PI * $r.int_in(-2, 2) as f64 * 0.5, _ => $r.range(-6.5, 6.5) }) as $S;
        match $op {
            13 => { let v = <$V>::from_angle(ang); keep(&mut $p.u, v, $r); $sink("from_angle", cap_of(&v)); let i = $r.idx($p.u.len()); let j = $r.idx($p.u.len()); let w = $p.u[i].rotate($p.u[j]); keep(&mut $p.u, w, $r); $sink("rotate", cap_of(&w)); }
            14 => {
                let i = $r.idx($p.v.len());
                let a = if has_direction($p.v[i]) { $p.v[i] } else { gen($r) };
                let b = match $r.below(5) { 0 => a * 2.0, 1 => -a, 2 => a * -0.5, 3 => a, _ => gen($r) };
                let v = a.rotate_towards(b, $r.range(0.0, 3.5) as $S);
                keep(&mut $p.v, v, $r);
                $sink("rotate_towards", cap_of(&v));
            }
            _ => { let i = $r.idx($p.v.len()); let j = $r.idx($p.u.len()); let a = $p.v[i].angle_to($p.u[j]); $sink("angle_to", cap_of(&a)); let q = $p.u[j].perp(); keep(&mut $p.u, q, $r); }
        }
    }};
}
macro_rules! extra3 {
    ($p:ident, $r:ident, $sink:ident, $op:ident, $S:ty, $V:ident) => {{
        match $op {
            13 => {
                let i = $r.idx($p.u.len());
                let u = $p.u[i].dress($r);
                let v = u.any_orthonormal_vector(); keep(&mut $p.u, v, $r); $sink("any_orthonormal_vector", cap_of(&v));
                let (a, b) = u.any_orthonormal_pair(); keep(&mut $p.u, a, $r); keep(&mut $p.u, b, $r); $sink("any_orthonormal_pair", cap_of(&(a, b)));
                let j = $r.idx($p.v.len());
                let o = $p.v[j].dress($r).any_orthogonal_vector(); $sink("any_orthogonal_vector", cap_of(&o));
                if has_direction(o) { if let Some(n) = o.try_normalize() { keep(&mut $p.u, n, $r); } }
            }
            14 => {
                // rotate_towards incl. exactly parallel / anti-parallel operands of any length (the fall-back axis path)
                let i = $r.idx($p.v.len());
                let a = if $r.bool() && has_direction($p.v[i]) { $p.v[i].dress($r) } else { gen($r) };
                let b = match $r.below(6) { 0 => a * 2.0, 1 => -a, 2 => a * -0.5, 3 => a, _ => gen($r) };
                let v = a.rotate_towards(b, $r.range(0.0, 3.5) as $S);
                keep(&mut $p.v, v, $r);
                $sink("rotate_towards", cap_of(&v));
            }
            _ => {
                let i = $r.idx($p.v.len());
                let a = if $r.bool() && has_direction($p.v[i]) { $p.v[i].dress($r) } else { gen($r) };
                let b = match $r.below(6) { 0 => a * 2.0, 1 => -a, 2 => a * -0.5, 3 => a, _ => gen($r) };
                let s = (match $r.below(4) { 0 => 0.0, 1 => 1.0, _ => $r.unit() }) as $S;
                let v = a.slerp(b, s);
                keep(&mut $p.v, v, $r);
                $sink("slerp", cap_of(&v));
                let c = a.cross(b); keep(&mut $p.v, c, $r);
            }
        }
    }};
}
macro_rules! extra4 {
    ($p:ident, $r:ident, $sink:ident, $op:ident, $S:ty, $V:ident) => {{
        let _ = $op;
        let i = $r.idx($p.v.len());
        let v = $p.v[i];
        let w = v.fract_gl() + v.floor() * 0.5; keep(&mut $p.v, w, $r);
        $sink("dot_into_vec", cap_of(&v.dot_into_vec(w)));
    }};
}

vecfam!(v2, f32, Vec2, 2, "Vec2", extra2);
vecfam!(v3, f32, Vec3, 3, "Vec3", extra3);
vecfam!(v3a, f32, Vec3A, 3, "Vec3A", extra3);
vecfam!(v4, f32, Vec4, 4, "Vec4", extra4);
vecfam!(d2, f64, DVec2, 2, "DVec2", extra2);
vecfam!(d3, f64, DVec3, 3, "DVec3", extra3);
vecfam!(d4, f64, DVec4, 4, "DVec4", extra4);

/// try_normalize / normalize_or_zero / normalize_or are total: whatever the magnitude of a finite input, the result is
/// either the documented fall-back (None / ZERO / the given vector) or a vector that passes is_normalized.
macro_rules! normalize_window {
    ($mon:ident, $S:ty, $V:ident, $N:expr) => {{
        if let Some(mut c) = $mon.begin(stringify!($V), "try_normalize totality") {
            let mut rng = Rng::new($mon.op_seed(stringify!($V), "try_normalize totality"));
            let iters = $mon.n(20_000, 2_000_000);
            let (emin, emax) = ((<$S>::MIN_EXP - <$S>::MANTISSA_DIGITS as i32 - 2) as f64, <$S>::MAX_EXP as f64);
            for it in 0..iters {
                // magnitude 2^e with e anywhere from below the smallest subnormal to overflow, denser around the
                // square roots of the smallest normal / subnormal numbers and of MAX
                let e = match it % 4 { 0 => rng.range(emin, emax), 1 => rng.range(emin / 2.0 - 16.0, emin / 2.0 + 40.0), 2 => rng.range(emax / 2.0 - 8.0, emax / 2.0 + 2.0), _ => rng.range(-30.0, 30.0) };
                let a: [$S; $N] = core::array::from_fn(|k| if rng.below(7) == 0 && k > 0 { 0.0 } else { (rng.normal() * e.exp2()) as $S });
                let v = <$V>::from_array(a).dress(&mut rng);
                let l2: f64 = a.iter().map(|x| (*x as f64) * (*x as f64)).sum();
                let fb = <$V>::Y;
                let tags: &[&str] = if l2 < <$S>::MIN_POSITIVE as f64 { &["tiny_length"] } else if l2 > <$S>::MAX as f64 { &["huge_length"] } else { &["normal_length"] };
                c.event(((e - emin) / 4.0) as u64, l2 > 0.0);
                c.count(tags[0]);
                let res: [(&'static str, Option<$V>); 3] = [
                    ("try_normalize", v.try_normalize()),
                    ("normalize_or_zero", { let n = v.normalize_or_zero(); if n == <$V>::ZERO { None } else { Some(n) } }),
                    ("normalize_or", { let n = v.normalize_or(fb); if n == fb { None } else { Some(n) } }),
                ];
                for (nm, r) in res {
                    match r {
                        None => { c.count("fall-back taken"); if l2 >= (<$S>::MIN_POSITIVE as f64) * 16.0 && l2 <= (<$S>::MAX as f64) / 16.0 {
                            if c.wants_witness("needless_fallback", &[nm]) { c.violation("needless_fallback", &[nm], format!("{:?}", v), "fall-back".into(), "unit vector".into(), "squared length is a normal finite number".into()); } else { c.st.violations += 1; }
                        } }
                        Some(n) => {
                            let m = ((n.length_squared() - 1.0).abs() as f64) / 2e-4;
                            c.ratio_t(if tags[0] == "tiny_length" { "is_normalized margin (tiny)" } else { "is_normalized margin" }, if m.is_nan() { f64::INFINITY } else { m });
                            if !n.is_normalized() {
                                let tg = [nm, tags[0]];
                                if c.wants_witness("output_violates_precondition", &tg) {
                                    c.violation("output_violates_precondition", &tg, format!("{}::{}({:?}), exact squared length {:e}", stringify!($V), nm, v, l2), format!("{:?} (length^2 = {:?})", n, n.length_squared()), "the documented fall-back or a vector passing is_normalized()".into(), "a Some/non-fallback result is documented to be normalized".into());
                                } else {
                                    c.st.violations += 1;
                                }
                            }
                        }
                    }
                }
            }
            c.sample(format!("{}: magnitudes 2^{}..2^{}: result is the fall-back or passes is_normalized", stringify!($V), emin, emax));
            $mon.end(c);
        }
    }};
}
pub fn normalize_windows(mon: &mut Monitor) {
    normalize_window!(mon, f32, Vec2, 2);
    normalize_window!(mon, f32, Vec3, 3);
    normalize_window!(mon, f32, Vec3A, 3);
    normalize_window!(mon, f32, Vec4, 4);
    normalize_window!(mon, f64, DVec2, 2);
    normalize_window!(mon, f64, DVec3, 3);
    normalize_window!(mon, f64, DVec4, 4);
}

// ------------------------------------------------------------------------------------------------------------------------
// Catalogue of documented violations: (name, thunk).  Each violates exactly one conjunct of one glam_assert!.

type Case = (String, Box<dyn Fn()>);

fn bb<T>(v: T) -> T {
    std::hint::black_box(v)
}

macro_rules! vec_cases {
    ($cases:ident, $S:ty, $V:ident, $N:expr) => {{
        let t = stringify!($V);
        let base = <$V>::from_array(core::array::from_fn(|k| [0.25, -0.5, 0.75, 1.5][k] as $S));
        let unit = <$V>::Y;
        for lane in 0..$N {
            // min > max in exactly one lane
            let mut lo = [-1.0 as $S; $N];
            let hi = [1.0 as $S; $N];
            lo[lane] = 2.0;
            let (lo, hi) = (<$V>::from_array(lo), <$V>::from_array(hi));
            $cases.push((format!("{}::clamp(min > max in lane {} only)", t, lane), Box::new(move || { let _ = bb(bb(base).clamp(bb(lo), bb(hi))); })));
        }
        $cases.push((format!("{}::clamp(min > max in every lane)", t), Box::new(move || { let _ = bb(bb(base).clamp(bb(<$V>::ONE), bb(<$V>::ZERO))); })));
        $cases.push((format!("{}::ZERO.normalize()", t), Box::new(move || { let _ = bb(bb(<$V>::ZERO).normalize()); })));
        $cases.push((format!("{}::project_onto(ZERO)", t), Box::new(move || { let _ = bb(bb(base).project_onto(bb(<$V>::ZERO))); })));
        $cases.push((format!("{}::reject_from(ZERO)", t), Box::new(move || { let _ = bb(bb(base).reject_from(bb(<$V>::ZERO))); })));
        $cases.push((format!("{}::clamp_length(negative min)", t), Box::new(move || { let _ = bb(bb(base).clamp_length(bb(-1.0), 2.0)); })));
        $cases.push((format!("{}::clamp_length(min > max)", t), Box::new(move || { let _ = bb(bb(base).clamp_length(bb(3.0), 2.0)); })));
        $cases.push((format!("{}::clamp_length_max(negative)", t), Box::new(move || { let _ = bb(bb(base).clamp_length_max(bb(-0.5))); })));
        $cases.push((format!("{}::clamp_length_min(negative)", t), Box::new(move || { let _ = bb(bb(base).clamp_length_min(bb(-0.5))); })));
        for (sn, sc) in [("x2", 2.0), ("x0.5", 0.5), ("x1.001", 1.001), ("x0.999", 0.999)] {
            let nu = unit * (sc as $S);
            $cases.push((format!("{}::project_onto_normalized(non-unit {})", t, sn), Box::new(move || { let _ = bb(bb(base).project_onto_normalized(bb(nu))); })));
            $cases.push((format!("{}::reject_from_normalized(non-unit {})", t, sn), Box::new(move || { let _ = bb(bb(base).reject_from_normalized(bb(nu))); })));
            $cases.push((format!("{}::reflect(non-unit normal {})", t, sn), Box::new(move || { let _ = bb(bb(base).reflect(bb(nu))); })));
            $cases.push((format!("{}::refract(non-unit self {}, unit normal)", t, sn), Box::new(move || { let _ = bb(bb(nu).refract(bb(<$V>::X), 0.9)); })));
            $cases.push((format!("{}::refract(unit self, non-unit normal {})", t, sn), Box::new(move || { let _ = bb(bb(<$V>::X).refract(bb(nu), 0.9)); })));
        }
    }};
}
macro_rules! vec3_cases {
    ($cases:ident, $S:ty, $V:ident) => {{
        let t = stringify!($V);
        for (sn, sc) in [("x2", 2.0), ("x0.5", 0.5), ("x1.001", 1.001), ("x0.999", 0.999)] {
            let nu = <$V>::new(0.6, 0.0, 0.8) * (sc as $S);
            $cases.push((format!("{}::any_orthonormal_vector(non-unit {})", t, sn), Box::new(move || { let _ = bb(bb(nu).any_orthonormal_vector()); })));
            $cases.push((format!("{}::any_orthonormal_pair(non-unit {})", t, sn), Box::new(move || { let _ = bb(bb(nu).any_orthonormal_pair()); })));
        }
    }};
}
macro_rules! ivec_cases {
    ($cases:ident, $($V:ident, $N:expr);*) => {$({
        let t = stringify!($V);
        for lane in 0..$N {
            let mut lo = [0; $N];
            let hi = [5; $N];
            lo[lane] = 9;
            let (lo, hi) = (<$V>::from_array(lo), <$V>::from_array(hi));
            $cases.push((format!("{}::clamp(min > max in lane {} only)", t, lane), Box::new(move || { let _ = bb(bb(<$V>::ONE).clamp(bb(lo), bb(hi))); })));
        }
    })*};
}
macro_rules! quat_cases {
    ($cases:ident, $S:ty, $Q:ident, $V3:ident, $V2:ident, $M3:ident, $M4:ident, $A3:ident, $A2:ident, $M2:ident, $V4:ident) => {{
        let t = stringify!($Q);
        let uq = <$Q>::from_xyzw(0.0, 0.6, 0.0, 0.8);
        for (sn, sc) in [("x2", 2.0), ("x0.5", 0.5), ("x1.001", 1.001), ("x0.999", 0.999)] {
            let sc = sc as $S;
            let nq = <$Q>::from_xyzw(0.0, 0.6 * sc, 0.0, 0.8 * sc);
            let nv = <$V3>::new(0.6, 0.0, 0.8) * sc;
            let nv2 = <$V2>::new(0.6, 0.8) * sc;
            let uv = <$V3>::new(0.0, 1.0, 0.0);
            $cases.push((format!("{}::from_axis_angle(non-unit axis {})", t, sn), Box::new(move || { let _ = bb(<$Q>::from_axis_angle(bb(nv), 1.0)); })));
            $cases.push((format!("{}::from_rotation_arc(non-unit from {})", t, sn), Box::new(move || { let _ = bb(<$Q>::from_rotation_arc(bb(nv), uv)); })));
            $cases.push((format!("{}::from_rotation_arc(non-unit to {})", t, sn), Box::new(move || { let _ = bb(<$Q>::from_rotation_arc(uv, bb(nv))); })));
            $cases.push((format!("{}::from_rotation_arc_colinear(non-unit from {})", t, sn), Box::new(move || { let _ = bb(<$Q>::from_rotation_arc_colinear(bb(nv), uv)); })));
            $cases.push((format!("{}::from_rotation_arc_2d(non-unit from {})", t, sn), Box::new(move || { let _ = bb(<$Q>::from_rotation_arc_2d(bb(nv2), <$V2>::X)); })));
            $cases.push((format!("{}::from_rotation_arc_2d(non-unit to {})", t, sn), Box::new(move || { let _ = bb(<$Q>::from_rotation_arc_2d(<$V2>::X, bb(nv2))); })));
            $cases.push((format!("{}::look_to_rh(non-unit dir {})", t, sn), Box::new(move || { let _ = bb(<$Q>::look_to_rh(bb(nv), uv)); })));
            $cases.push((format!("{}::look_to_rh(non-unit up {})", t, sn), Box::new(move || { let _ = bb(<$Q>::look_to_rh(uv, bb(nv))); })));
            $cases.push((format!("{}::look_to_lh(non-unit dir {})", t, sn), Box::new(move || { let _ = bb(<$Q>::look_to_lh(bb(nv), uv)); })));
            $cases.push((format!("{}::look_at_rh(non-unit up {})", t, sn), Box::new(move || { let _ = bb(<$Q>::look_at_rh(<$V3>::ZERO, uv, bb(nv))); })));
            $cases.push((format!("{}::inverse(non-unit {})", t, sn), Box::new(move || { let _ = bb(bb(nq).inverse()); })));
            $cases.push((format!("{}::angle_between(non-unit self {})", t, sn), Box::new(move || { let _ = bb(bb(nq).angle_between(uq)); })));
            $cases.push((format!("{}::angle_between(non-unit rhs {})", t, sn), Box::new(move || { let _ = bb(uq.angle_between(bb(nq))); })));
            $cases.push((format!("{}::rotate_towards(non-unit self {})", t, sn), Box::new(move || { let _ = bb(bb(nq).rotate_towards(uq, 0.1)); })));
            $cases.push((format!("{}::rotate_towards(non-unit rhs {})", t, sn), Box::new(move || { let _ = bb(uq.rotate_towards(bb(nq), 0.1)); })));
            $cases.push((format!("{}::lerp(non-unit self {})", t, sn), Box::new(move || { let _ = bb(bb(nq).lerp(uq, 0.3)); })));
            $cases.push((format!("{}::lerp(non-unit end {})", t, sn), Box::new(move || { let _ = bb(uq.lerp(bb(nq), 0.3)); })));
            $cases.push((format!("{}::slerp(non-unit self {})", t, sn), Box::new(move || { let _ = bb(bb(nq).slerp(uq, 0.3)); })));
            $cases.push((format!("{}::slerp(non-unit end {})", t, sn), Box::new(move || { let _ = bb(uq.slerp(bb(nq), 0.3)); })));
            // documented ("Will panic if `self` or `rhs` are not normalized when `glam_assert` is enabled") on mul_quat, `*`, `*=`
            $cases.push((format!("{}::mul_quat(non-unit self {})", t, sn), Box::new(move || { let _ = bb(bb(nq).mul_quat(uq)); })));
            $cases.push((format!("{}::mul_quat(non-unit rhs {})", t, sn), Box::new(move || { let _ = bb(uq.mul_quat(bb(nq))); })));
            $cases.push((format!("{} * {} (non-unit self {})", t, t, sn), Box::new(move || { let _ = bb(bb(nq) * uq); })));
            $cases.push((format!("{} *= {} (non-unit rhs {})", t, t, sn), Box::new(move || { let mut x = uq; x *= bb(nq); let _ = bb(x); })));
            $cases.push((format!("{}::mul_vec3(non-unit {})", t, sn), Box::new(move || { let _ = bb(bb(nq).mul_vec3(uv)); })));
            $cases.push((format!("{} * vec (non-unit {})", t, sn), Box::new(move || { let _ = bb(bb(nq) * uv); })));
            $cases.push((format!("{}::from_quat(non-unit {})", stringify!($M3), sn), Box::new(move || { let _ = bb(<$M3>::from_quat(bb(nq))); })));
            $cases.push((format!("{}::from_quat(non-unit {})", stringify!($M4), sn), Box::new(move || { let _ = bb(<$M4>::from_quat(bb(nq))); })));
            $cases.push((format!("{}::from_rotation_translation(non-unit {})", stringify!($M4), sn), Box::new(move || { let _ = bb(<$M4>::from_rotation_translation(bb(nq), uv)); })));
            $cases.push((format!("{}::from_scale_rotation_translation(non-unit {})", stringify!($M4), sn), Box::new(move || { let _ = bb(<$M4>::from_scale_rotation_translation(<$V3>::ONE, bb(nq), uv)); })));
            $cases.push((format!("{}::from_axis_angle(non-unit {})", stringify!($M3), sn), Box::new(move || { let _ = bb(<$M3>::from_axis_angle(bb(nv), 0.5)); })));
            $cases.push((format!("{}::from_axis_angle(non-unit {})", stringify!($M4), sn), Box::new(move || { let _ = bb(<$M4>::from_axis_angle(bb(nv), 0.5)); })));
            $cases.push((format!("{}::look_to_rh(non-unit dir {})", stringify!($M4), sn), Box::new(move || { let _ = bb(<$M4>::look_to_rh(<$V3>::ONE, bb(nv), uv)); })));
            $cases.push((format!("{}::look_to_rh(non-unit up {})", stringify!($M4), sn), Box::new(move || { let _ = bb(<$M4>::look_to_rh(<$V3>::ONE, uv, bb(nv))); })));
            $cases.push((format!("{}::look_to_lh(non-unit dir {})", stringify!($M4), sn), Box::new(move || { let _ = bb(<$M4>::look_to_lh(<$V3>::ONE, bb(nv), uv)); })));
            $cases.push((format!("{}::look_at_rh(non-unit up {})", stringify!($M4), sn), Box::new(move || { let _ = bb(<$M4>::look_at_rh(<$V3>::ONE, <$V3>::ZERO, bb(nv))); })));
            $cases.push((format!("{}::look_to_rh(non-unit dir {})", stringify!($M3), sn), Box::new(move || { let _ = bb(<$M3>::look_to_rh(bb(nv), uv)); })));
            $cases.push((format!("{}::look_to_rh(non-unit up {})", stringify!($M3), sn), Box::new(move || { let _ = bb(<$M3>::look_to_rh(uv, bb(nv))); })));
            $cases.push((format!("{}::look_at_rh(non-unit up {})", stringify!($A3), sn), Box::new(move || { let _ = bb(<$A3>::look_at_rh(<$V3>::ONE, <$V3>::ZERO, bb(nv))); })));
            $cases.push((format!("{}::look_at_lh(non-unit up {})", stringify!($A3), sn), Box::new(move || { let _ = bb(<$A3>::look_at_lh(<$V3>::ONE, <$V3>::ZERO, bb(nv))); })));
            // to_euler / from_mat3: one axis at a time off unit length
            for ax in 0..3 {
                let mut m = <$M3>::IDENTITY;
                *m.col_mut(ax) *= sc;
                $cases.push((format!("{}::to_euler(axis {} non-unit {})", stringify!($M3), ax, sn), Box::new(move || { let _ = bb(bb(m).to_euler(EulerRot::XYZ)); })));
                $cases.push((format!("{}::from_mat3(axis {} non-unit {})", t, ax, sn), Box::new(move || { let _ = bb(<$Q>::from_mat3(&bb(m))); })));
                let m4 = <$M4>::from_mat3(m);
                $cases.push((format!("{}::to_euler(axis {} non-unit {})", stringify!($M4), ax, sn), Box::new(move || { let _ = bb(bb(m4).to_euler(EulerRot::XYZ)); })));
            }
        }
        // homogeneous row off by 2e-6 in one element at a time
        for k in 0..4 {
            let mut m = <$M4>::IDENTITY;
            let mut row = [0.0 as $S, 0.0, 0.0, 1.0];
            row[k] += 2e-6 * if k == 3 { 1.0 } else { -1.0 };
            m.x_axis.w = row[0]; m.y_axis.w = row[1]; m.z_axis.w = row[2]; m.w_axis.w = row[3];
            $cases.push((format!("{}::transform_point3(last row element {} off by 2e-6)", stringify!($M4), k), Box::new(move || { let _ = bb(bb(m).transform_point3(<$V3>::ONE)); })));
            $cases.push((format!("{}::transform_vector3(last row element {} off by 2e-6)", stringify!($M4), k), Box::new(move || { let _ = bb(bb(m).transform_vector3(<$V3>::ONE)); })));
        }
        for k in 0..3 {
            let mut m = <$M3>::IDENTITY;
            let mut row = [0.0 as $S, 0.0, 1.0];
            row[k] += 2e-6 * if k == 2 { 1.0 } else { -1.0 };
            m.x_axis.z = row[0]; m.y_axis.z = row[1]; m.z_axis.z = row[2];
            $cases.push((format!("{}::transform_point2(last row element {} off by 2e-6)", stringify!($M3), k), Box::new(move || { let _ = bb(bb(m).transform_point2(<$V2>::ONE)); })));
            $cases.push((format!("{}::transform_vector2(last row element {} off by 2e-6)", stringify!($M3), k), Box::new(move || { let _ = bb(bb(m).transform_vector2(<$V2>::ONE)); })));
        }
        let m4n = stringify!($M4);
        $cases.push((format!("{}::from_scale(ZERO)", m4n), Box::new(|| { let _ = bb(<$M4>::from_scale(bb(<$V3>::ZERO))); })));
        $cases.push((format!("{}::from_scale(ZERO)", stringify!($M3)), Box::new(|| { let _ = bb(<$M3>::from_scale(bb(<$V2>::ZERO))); })));
        $cases.push((format!("{}::inverse(singular)", m4n), Box::new(|| { let _ = bb(bb(<$M4>::ZERO).inverse()); })));
        $cases.push((format!("{}::inverse(rank 3)", m4n), Box::new(|| { let _ = bb(bb(<$M4>::from_diagonal(<$V4>::new(1.0, 2.0, 3.0, 0.0))).inverse()); })));
        $cases.push((format!("{}::inverse(singular)", stringify!($M3)), Box::new(|| { let _ = bb(bb(<$M3>::from_diagonal(<$V3>::new(1.0, 0.0, 3.0))).inverse()); })));
        $cases.push((format!("{}::inverse(singular)", stringify!($M2)), Box::new(|| { let _ = bb(bb(<$M2>::from_cols_array(&[1.0, 2.0, 2.0, 4.0])).inverse()); })));
        $cases.push((format!("{}::inverse(singular)", stringify!($A3)), Box::new(|| { let _ = bb(bb(<$A3>::ZERO).inverse()); })));
        $cases.push((format!("{}::inverse(singular)", stringify!($A2)), Box::new(|| { let _ = bb(bb(<$A2>::ZERO).inverse()); })));
        $cases.push((format!("{}::to_scale_rotation_translation(singular)", m4n), Box::new(|| { let _ = bb(bb(<$M4>::from_diagonal(<$V4>::new(1.0, 0.0, 3.0, 1.0))).to_scale_rotation_translation()); })));
        $cases.push((format!("{}::to_scale_rotation_translation(singular)", stringify!($A3)), Box::new(|| { let _ = bb(bb(<$A3>::from_scale(<$V3>::new(1.0, 0.0, 3.0))).to_scale_rotation_translation()); })));
        $cases.push((format!("{}::to_scale_angle_translation(singular)", stringify!($A2)), Box::new(|| { let _ = bb(bb(<$A2>::from_scale(<$V2>::new(0.0, 3.0))).to_scale_angle_translation()); })));
        for (pn, zn, zf) in [("z_near = 0", 0.0, 10.0), ("z_far = 0", 0.1, 0.0), ("z_near < 0", -0.1, 10.0), ("z_far < 0", 0.1, -10.0)] {
            let (zn, zf) = (zn as $S, zf as $S);
            $cases.push((format!("{}::perspective_rh({})", m4n, pn), Box::new(move || { let _ = bb(<$M4>::perspective_rh(1.0, 1.0, bb(zn), bb(zf))); })));
            $cases.push((format!("{}::perspective_lh({})", m4n, pn), Box::new(move || { let _ = bb(<$M4>::perspective_lh(1.0, 1.0, bb(zn), bb(zf))); })));
        }
        for (pn, zn) in [("z_near = 0", 0.0), ("z_near < 0", -0.1)] {
            let zn = zn as $S;
            $cases.push((format!("{}::perspective_infinite_lh({})", m4n, pn), Box::new(move || { let _ = bb(<$M4>::perspective_infinite_lh(1.0, 1.0, bb(zn))); })));
            $cases.push((format!("{}::perspective_infinite_rh({})", m4n, pn), Box::new(move || { let _ = bb(<$M4>::perspective_infinite_rh(1.0, 1.0, bb(zn))); })));
            $cases.push((format!("{}::perspective_infinite_reverse_lh({})", m4n, pn), Box::new(move || { let _ = bb(<$M4>::perspective_infinite_reverse_lh(1.0, 1.0, bb(zn))); })));
            $cases.push((format!("{}::perspective_infinite_reverse_rh({})", m4n, pn), Box::new(move || { let _ = bb(<$M4>::perspective_infinite_reverse_rh(1.0, 1.0, bb(zn))); })));
        }
    }};
}

pub fn catalogue() -> Vec<Case> {
    let mut cases: Vec<Case> = vec![];
    vec_cases!(cases, f32, Vec2, 2);
    vec_cases!(cases, f32, Vec3, 3);
    vec_cases!(cases, f32, Vec3A, 3);
    vec_cases!(cases, f32, Vec4, 4);
    vec_cases!(cases, f64, DVec2, 2);
    vec_cases!(cases, f64, DVec3, 3);
    vec_cases!(cases, f64, DVec4, 4);
    vec3_cases!(cases, f32, Vec3);
    vec3_cases!(cases, f32, Vec3A);
    vec3_cases!(cases, f64, DVec3);
    ivec_cases!(cases, I8Vec2, 2; I8Vec3, 3; I8Vec4, 4; U8Vec2, 2; U8Vec3, 3; U8Vec4, 4; I16Vec2, 2; I16Vec3, 3; I16Vec4, 4; U16Vec2, 2; U16Vec3, 3; U16Vec4, 4;
        IVec2, 2; IVec3, 3; IVec4, 4; UVec2, 2; UVec3, 3; UVec4, 4; I64Vec2, 2; I64Vec3, 3; I64Vec4, 4; U64Vec2, 2; U64Vec3, 3; U64Vec4, 4; USizeVec2, 2; USizeVec3, 3; USizeVec4, 4);
    quat_cases!(cases, f32, Quat, Vec3, Vec2, Mat3, Mat4, Affine3A, Affine2, Mat2, Vec4);
    quat_cases!(cases, f64, DQuat, DVec3, DVec2, DMat3, DMat4, DAffine3, DAffine2, DMat2, DVec4);
    // Vec3A / Mat3A entry points of the f32 family
    for (sn, sc) in [("x2", 2.0f32), ("x1.001", 1.001), ("x0.999", 0.999)] {
        let nq = Quat::from_xyzw(0.0, 0.6 * sc, 0.0, 0.8 * sc);
        let nv = Vec3::new(0.6, 0.0, 0.8) * sc;
        // (Quat::mul_vec3a / Quat * Vec3A document no panic and the SIMD builds have none: not in the catalogue)
        cases.push((format!("Mat3A::from_quat(non-unit {})", sn), Box::new(move || { let _ = bb(Mat3A::from_quat(bb(nq))); })));
        cases.push((format!("Mat3A::from_axis_angle(non-unit {})", sn), Box::new(move || { let _ = bb(Mat3A::from_axis_angle(bb(nv), 0.5)); })));
        cases.push((format!("Affine3A::from_axis_angle(non-unit {})", sn), Box::new(move || { let _ = bb(Affine3A::from_axis_angle(bb(nv), 0.5)); })));
        for ax in 0..3 {
            let mut m = Mat3A::IDENTITY;
            *m.col_mut(ax) *= sc;
            cases.push((format!("Mat3A::to_euler(axis {} non-unit {})", ax, sn), Box::new(move || { let _ = bb(bb(m).to_euler(EulerRot::XYZ)); })));
            cases.push((format!("Quat::from_mat3a(axis {} non-unit {})", ax, sn), Box::new(move || { let _ = bb(Quat::from_mat3a(&bb(m))); })));
        }
    }
    for k in 0..4 {
        let mut m = Mat4::IDENTITY;
        let mut row = [0.0f32, 0.0, 0.0, 1.0];
        row[k] += 2e-6 * if k == 3 { 1.0 } else { -1.0 };
        m.x_axis.w = row[0]; m.y_axis.w = row[1]; m.z_axis.w = row[2]; m.w_axis.w = row[3];
        cases.push((format!("Mat4::transform_point3a(last row element {} off by 2e-6)", k), Box::new(move || { let _ = bb(bb(m).transform_point3a(Vec3A::ONE)); })));
        cases.push((format!("Mat4::transform_vector3a(last row element {} off by 2e-6)", k), Box::new(move || { let _ = bb(bb(m).transform_vector3a(Vec3A::ONE)); })));
    }
    for k in 0..3 {
        let mut m = Mat3A::IDENTITY;
        let mut row = [0.0f32, 0.0, 1.0];
        row[k] += 2e-6 * if k == 2 { 1.0 } else { -1.0 };
        m.x_axis.z = row[0]; m.y_axis.z = row[1]; m.z_axis.z = row[2];
        cases.push((format!("Mat3A::transform_point2(last row element {} off by 2e-6)", k), Box::new(move || { let _ = bb(bb(m).transform_point2(Vec2::ONE)); })));
        cases.push((format!("Mat3A::transform_vector2(last row element {} off by 2e-6)", k), Box::new(move || { let _ = bb(bb(m).transform_vector2(Vec2::ONE)); })));
    }
    cases.push(("Mat3A::inverse(singular)".into(), Box::new(|| { let _ = bb(bb(Mat3A::from_diagonal(Vec3::new(1.0, 0.0, 3.0))).inverse()); })));
    cases.push(("Mat3A::from_scale(ZERO)".into(), Box::new(|| { let _ = bb(Mat3A::from_scale(bb(Vec2::ZERO))); })));
    cases
}

/// Boundary inputs that *meet* the documented preconditions (equality where the documentation says <=, zero bounds, tiny but
/// invertible matrices): must not panic in any build.
pub fn valid_boundaries(mon: &mut Monitor) {
    let mut cases: Vec<Case> = vec![];
    macro_rules! iv {
        ($($V:ident, $N:expr);*) => {$({
            let t = stringify!($V);
            for lane in 0..$N {
                let mut lo = [1; $N];
                let mut hi = [5; $N];
                lo[lane] = 3; hi[lane] = 3; // min == max in one lane
                let (lo, hi) = (<$V>::from_array(lo), <$V>::from_array(hi));
                cases.push((format!("{}::clamp(min == max in lane {})", t, lane), Box::new(move || { let _ = bb(bb(<$V>::ONE).clamp(bb(lo), bb(hi))); })));
            }
            cases.push((format!("{}::clamp(min == max everywhere)", t), Box::new(move || { let _ = bb(bb(<$V>::ONE).clamp(bb(<$V>::splat(2)), bb(<$V>::splat(2)))); })));
        })*};
    }
    iv!(I8Vec2, 2; I8Vec3, 3; I8Vec4, 4; U8Vec2, 2; U8Vec3, 3; U8Vec4, 4; I16Vec2, 2; I16Vec3, 3; I16Vec4, 4; U16Vec2, 2; U16Vec3, 3; U16Vec4, 4;
        IVec2, 2; IVec3, 3; IVec4, 4; UVec2, 2; UVec3, 3; UVec4, 4; I64Vec2, 2; I64Vec3, 3; I64Vec4, 4; U64Vec2, 2; U64Vec3, 3; U64Vec4, 4; USizeVec2, 2; USizeVec3, 3; USizeVec4, 4);
    macro_rules! fv {
        ($($V:ident, $S:ty, $N:expr);*) => {$({
            let t = stringify!($V);
            for lane in 0..$N {
                let mut lo = [-1.0 as $S; $N];
                let mut hi = [2.0 as $S; $N];
                lo[lane] = 0.5; hi[lane] = 0.5;
                let (lo, hi) = (<$V>::from_array(lo), <$V>::from_array(hi));
                cases.push((format!("{}::clamp(min == max in lane {})", t, lane), Box::new(move || { let _ = bb(bb(<$V>::ONE).clamp(bb(lo), bb(hi))); })));
            }
            cases.push((format!("{}::clamp_length(min == max)", t), Box::new(|| { let _ = bb(bb(<$V>::ONE).clamp_length(bb(1.5), bb(1.5))); })));
            cases.push((format!("{}::clamp_length(0, 0)", t), Box::new(|| { let _ = bb(bb(<$V>::ONE).clamp_length(bb(0.0), bb(0.0))); })));
            cases.push((format!("{}::clamp_length_max(0)", t), Box::new(|| { let _ = bb(bb(<$V>::ONE).clamp_length_max(bb(0.0))); })));
            cases.push((format!("{}::clamp_length_min(0)", t), Box::new(|| { let _ = bb(bb(<$V>::ONE).clamp_length_min(bb(0.0))); })));
            cases.push((format!("{}::clamp(-0, +0)", t), Box::new(|| { let _ = bb(bb(<$V>::ONE).clamp(bb(<$V>::splat(-0.0)), bb(<$V>::splat(0.0)))); })));
        })*};
    }
    fv!(Vec2, f32, 2; Vec3, f32, 3; Vec3A, f32, 3; Vec4, f32, 4; DVec2, f64, 2; DVec3, f64, 3; DVec4, f64, 4);
    // uniformly small (or large) but perfectly conditioned matrices are invertible: det != 0
    for k in [0i32, 8, 16, 24, 30, -8, -16, -24, -30] {
        let s = (k as f32).exp2();
        let sd = (k as f64 * 4.0).exp2();
        cases.push((format!("Mat2::inverse(rotation * 2^{})", -k), Box::new(move || { let _ = bb(bb(Mat2::from_angle(0.7) * (1.0 / s)).inverse()); })));
        cases.push((format!("Mat3::inverse(rotation * 2^{})", -k), Box::new(move || { let _ = bb(bb(Mat3::from_rotation_z(0.7) * (1.0 / s)).inverse()); })));
        cases.push((format!("Mat3A::inverse(rotation * 2^{})", -k), Box::new(move || { let _ = bb(bb(Mat3A::from_rotation_y(0.7) * (1.0 / s)).inverse()); })));
        cases.push((format!("Mat4::inverse(rotation * 2^{})", -k), Box::new(move || { let _ = bb(bb(Mat4::from_rotation_x(0.7) * (1.0 / s)).inverse()); })));
        cases.push((format!("Affine3A::inverse(scale 2^{})", -k), Box::new(move || { let _ = bb(bb(Affine3A::from_scale(Vec3::splat(1.0 / s))).inverse()); })));
        cases.push((format!("Affine2::inverse(scale 2^{})", -k), Box::new(move || { let _ = bb(bb(Affine2::from_scale(Vec2::splat(1.0 / s))).inverse()); })));
        cases.push((format!("DMat2::inverse(rotation * 2^{})", -4 * k), Box::new(move || { let _ = bb(bb(DMat2::from_angle(0.7) * (1.0 / sd)).inverse()); })));
        cases.push((format!("DMat3::inverse(rotation * 2^{})", -4 * k), Box::new(move || { let _ = bb(bb(DMat3::from_rotation_z(0.7) * (1.0 / sd)).inverse()); })));
        cases.push((format!("DMat4::inverse(rotation * 2^{})", -4 * k), Box::new(move || { let _ = bb(bb(DMat4::from_rotation_x(0.7) * (1.0 / sd)).inverse()); })));
        cases.push((format!("DAffine3::inverse(scale 2^{})", -4 * k), Box::new(move || { let _ = bb(bb(DAffine3::from_scale(DVec3::splat(1.0 / sd))).inverse()); })));
        cases.push((format!("DAffine2::to_scale_angle_translation(scale 2^{})", -4 * k), Box::new(move || { let _ = bb(bb(DAffine2::from_scale_angle_translation(DVec2::splat(1.0 / sd), 0.3, DVec2::ONE)).to_scale_angle_translation()); })));
        cases.push((format!("Mat4::to_scale_rotation_translation(scale 2^{})", -k), Box::new(move || { let _ = bb(bb(Mat4::from_scale_rotation_translation(Vec3::splat(1.0 / s), Quat::from_rotation_y(0.4), Vec3::ONE)).to_scale_rotation_translation()); })));
    }
    if let Some(mut c) = mon.begin("valid boundaries", "catalogue: must not panic in any build") {
        for (name, f) in &cases {
            let r = catch_unwind(AssertUnwindSafe(|| f()));
            c.event(hash_str(name), true);
            if r.is_err() {
                let key: &str = name.split('(').next().unwrap_or(name);
                if c.wants_witness("panic_on_valid_input", &[key]) {
                    c.violation("panic_on_valid_input", &[key], name.to_string(), last_panic(), "no panic".into(), "the input meets the documented precondition (min <= max, bound >= 0, determinant != 0)".into());
                } else {
                    c.st.violations += 1;
                }
            }
        }
        c.sample(format!("{} boundary inputs that meet the documented preconditions (min == max per lane for all 34 vector types, zero length bounds, uniformly scaled invertible matrices 2^-120..2^120)", cases.len()));
        mon.end(c);
    }
}

/// The inverse of an invertible affine matrix is affine to within the 1e-6 the transform_* entry points allow: all six
/// entry points of Mat4 / DMat4 (and Mat3 / Mat3A / DMat3 for 2-D) accept glam's own inverse of a scale-rotation-translation.
pub fn inverse_is_affine(mon: &mut Monitor) {
    if let Some(mut c) = mon.begin("inverse of an affine matrix", "accepted by transform_point/vector{3,3a,2}") {
        let mut rng = Rng::new(mon.op_seed("inverse", "affine"));
        let iters = mon.n(60_000, 3_000_000);
        let mut worst = 0.0f64;
        for it in 0..iters {
            let sc = |r: &mut Rng| (r.range(-3.0, 3.0).exp2() * if r.below(4) == 0 { -1.0 } else { 1.0 }) as f32;
            let (s, ax, an, t) = (Vec3::new(sc(&mut rng), sc(&mut rng), sc(&mut rng)), Vec3::new(rng.normal() as f32, rng.normal() as f32, rng.normal() as f32 + 0.01).normalize(), rng.range(-3.2, 3.2) as f32, Vec3::new(rng.logmag(-4.0, 6.0) as f32, rng.logmag(-4.0, 6.0) as f32, rng.logmag(-4.0, 6.0) as f32));
            let m = Mat4::from_scale_rotation_translation(s, Quat::from_axis_angle(ax, an), t);
            let p = Vec3::new(rng.normal() as f32, rng.normal() as f32, rng.normal() as f32);
            c.event(it % 64, true);
            let r = catch_unwind(AssertUnwindSafe(|| {
                let i = m.inverse();
                let dev = (i.row(3) - Vec4::W).abs().max_element() as f64;
                let _ = bb((i.transform_point3(p), i.transform_vector3(p), i.transform_point3a(p.into()), i.transform_vector3a(p.into())));
                let di = m.as_dmat4().inverse();
                let _ = bb((di.transform_point3(p.as_dvec3()), di.transform_vector3(p.as_dvec3())));
                let m3 = Mat3::from_scale_angle_translation(Vec2::new(s.x, s.y), an, Vec2::new(t.x, t.y));
                let (i3, i3a, di3) = (m3.inverse(), Mat3A::from(m3).inverse(), m3.as_dmat3().inverse());
                let q = Vec2::new(p.x, p.y);
                let _ = bb((i3.transform_point2(q), i3.transform_vector2(q), i3a.transform_point2(q), i3a.transform_vector2(q), di3.transform_point2(q.as_dvec2()), di3.transform_vector2(q.as_dvec2())));
                dev
            }));
            match r {
                Ok(dev) => { worst = worst.max(dev); c.ratio_t("last row deviation / 1e-6", dev / 1e-6); }
                Err(_) => {
                    if c.wants_witness("panic_in_valid_chain", &["inverse"]) {
                        c.violation("panic_in_valid_chain", &["inverse"], format!("scale {:?} axis {:?} angle {} translation {:?} point {:?}", s, ax, an, t, p), last_panic(), "no panic".into(), "the inverse of an invertible scale-rotation-translation is an affine matrix".into());
                    } else {
                        c.st.violations += 1;
                    }
                }
            }
        }
        c.sample(format!("inverses of {} scale-rotation-translation matrices (scales 2^-3..2^3 of either sign) fed to every transform_* entry point; largest last-row deviation {:.2e}", iters, worst));
        mon.end(c);
    }
}

/// Documented precondition violations: must panic with the assertions compiled in, must not without.
pub fn documented_violations(mon: &mut Monitor, on: bool) {
    if let Some(mut c) = mon.begin("documented violations", if on { "catalogue: must panic (glam-assert)" } else { "catalogue: must not panic (plain build)" }) {
        let cases = catalogue();
        for (name, f) in &cases {
            let r = catch_unwind(AssertUnwindSafe(|| f()));
            c.event(hash_str(name), true);
            if r.is_err() != on {
                let key: &str = name.split('(').next().unwrap_or(name);
                if c.wants_witness(if on { "missing_assertion" } else { "panic_without_asserts" }, &[key]) {
                    c.violation(if on { "missing_assertion" } else { "panic_without_asserts" }, &[key], name.to_string(), if r.is_err() { last_panic() } else { "returned".into() }, if on { "panic".into() } else { "no panic".into() }, "documented precondition violations panic exactly when the assertions are compiled in".into());
                } else {
                    c.st.violations += 1;
                }
            } else if on {
                c.st.panics_expected += 1;
            }
        }
        c.sample(format!("{} documented violations, one per glam_assert! conjunct and operand (single-lane min > max, one non-unit operand at x2/x0.5/x1.001/x0.999, one row element off by 2e-6, ...)", cases.len()));
        c.count_n("catalogue cases", cases.len() as u64);
        mon.end(c);
    }
}

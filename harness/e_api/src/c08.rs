//! C08: the unused fourth lane of Vec3A / Mat3A / Affine3A / BVec3A never influences a result.
//! Non-interference monitor by twin execution: the same call (or short program) is executed on
//! arguments with bit-identical visible lanes and different hidden-lane contents.
use crate::registry_gen::registry;
use crate::val::*;
use std::panic::{catch_unwind, AssertUnwindSafe};
use vcommon::mon::*;

pub const POISONS: [(u32, &str); 10] = [
    (0x0000_0000, "0"),
    (0x3f80_0000, "1"),
    (0xbf80_0000, "-1"),
    (0x7f61_b1e6, "3e38"),
    (0x0000_0001, "min-subnormal"),
    (0x7f80_0000, "+inf"),
    (0xff80_0000, "-inf"),
    (0x7fc0_0001, "qNaN"),
    (0x7fa0_0055, "sNaN"),
    (0xffff_ffff, "all-ones"),
];

fn same(a: &Out, b: &Out) -> bool {
    a.words == b.words && a.text == b.text
}
fn show(o: &Out) -> String {
    let w: Vec<String> = o.words.iter().zip(o.kinds.iter()).map(|(w, k)| match k { 32 => format!("{:?}", f32::from_bits(*w as u32)), 64 => format!("{:?}", f64::from_bits(*w)), _ => format!("{}", w) }).collect();
    format!("[{}]{}", w.join(", "), o.text.as_ref().map(|t| format!(" {:?}", t)).unwrap_or_default())
}

/// The padded types expose exactly three element fields through Deref (a fourth field would be a public, safe route to
/// the unused lane) and their element-wise views have the size of three elements.
fn surface_shape(mon: &mut Monitor) {
    use glam::{Affine3A, BVec3A, Mat3A, Vec3A};
    if let Some(mut c) = mon.begin("Vec3A / Mat3A / Affine3A", "public views expose three elements per column") {
        let v = Vec3A::new(1.0, 2.0, 3.0);
        let checks: Vec<(&'static str, usize, usize)> = vec![
            #[cfg(not(feature = "scalar-math"))]
            ("size_of_val(&*Vec3A) (Deref target)", core::mem::size_of_val(&*v), 12),
            ("Vec3A::to_array().len()", v.to_array().len(), 3),
            ("AsRef<[f32; 3]> of Vec3A", { let a: &[f32; 3] = v.as_ref(); a.len() }, 3),
            ("Mat3A::to_cols_array().len()", Mat3A::IDENTITY.to_cols_array().len(), 9),
            ("Affine3A::to_cols_array().len()", Affine3A::IDENTITY.to_cols_array().len(), 12),
            ("BVec3A -> [bool; 3]", <[bool; 3]>::from(BVec3A::TRUE).len(), 3),
        ];
        for (nm, got, want) in checks {
            c.event(vcommon::rng::hash_str(nm), true);
            if got != want {
                c.violation("surface_shape", &[nm], nm.into(), format!("{}", got), format!("{}", want), "a public view of a padded type must not include the unused lane".into());
            }
        }
        c.sample("Deref target of Vec3A is 12 bytes (x, y, z), array / slice views have 3, 9, 12 elements".into());
        mon.end(c);
    }
}

pub fn run(mon: &mut Monitor, args: &Args) {
    let miri = args.mode.as_deref() == Some("miri");
    let reg: Vec<Entry> = registry().into_iter().filter(|e| e.hidden).collect();
    if cfg!(feature = "scalar-math") {
        mon.notes.push("scalar-math: Vec3A has no hidden lane; twin execution degenerates to determinism".into());
    }
    if !miri {
        canaries(mon);
    }
    surface_shape(mon);
    let inputs = if miri { 1 } else { mon.n(400, 6000) };
    single_calls(mon, &reg, inputs, miri);
    if !miri {
        programs(mon, &reg);
    }
}

fn single_calls(mon: &mut Monitor, reg: &[Entry], inputs: u64, miri: bool) {
    for (ei, e) in reg.iter().enumerate() {
        let c = if miri { if ei as u32 % mon.shard.1 != mon.shard.0 { None } else { mon.begin_unsharded(e.ty, e.name) } } else { mon.begin(e.ty, e.name) };
        let Some(mut c) = c else { continue };
        let seed = mon.op_seed(e.ty, e.name);
        for i in 0..inputs {
            let mode = if i % 3 == 2 { Mode::Lattice } else { Mode::Ordinary };
            let sd = vcommon::rng::mix(seed, i);
            let mut s0 = { let mut s0 = Src::new(sd, mode); s0.index_range = 5; s0 };
            let base = catch_unwind(AssertUnwindSafe(|| (e.call)(&mut s0)));
            let plist: &[(u32, &str)] = if miri { &POISONS[7..9] } else { &POISONS };
            for (pi, (bits, pname)) in plist.iter().enumerate() {
                let route = ((i as usize + pi) % 3) as u8;
                let mut s1 = { let mut s0 = Src::new(sd, mode); s0.index_range = 5; s0 };
                s1.hidden = Hidden::Poison { bits: *bits, route };
                let got = catch_unwind(AssertUnwindSafe(|| (e.call)(&mut s1)));
                c.event((pi as u64) << 8 | route as u64 | ((mode == Mode::Lattice) as u64) << 4, true);
                let bad = match (&base, &got) {
                    (Ok(a), Ok(b)) => !same(a, b),
                    (Err(_), Err(_)) => false,
                    _ => true,
                };
                if bad {
                    let tag = ["from_vec4", "computed", "raw-register"][route as usize];
                    if c.wants_witness("hidden_lane_dependence", &[pname]) {
                        c.violation(
                            "hidden_lane_dependence",
                            &[pname, tag],
                            format!("{}::{} input seed {} mode {:?}, hidden lane = {} injected via {}", e.ty, e.name, sd, mode, pname, tag),
                            got.as_ref().map(show).unwrap_or_else(|_| "panic".into()),
                            base.as_ref().map(show).unwrap_or_else(|_| "panic".into()),
                            "results must be bit-identical for bit-identical visible lanes".into(),
                        );
                    } else {
                        c.st.violations += 1;
                    }
                }
            }
            // operands of one call with *different* hidden lanes (e.g. `==` of two masks, a product of two vectors)
            if !miri || i == 0 {
                for k in 0..if miri { 1 } else { 3 } {
                    let mut s1 = { let mut s0 = Src::new(sd, mode); s0.index_range = 5; s0 };
                    s1.hidden = Hidden::Mixed { start: (i as u32).wrapping_mul(7).wrapping_add(k * 3) };
                    let got = catch_unwind(AssertUnwindSafe(|| (e.call)(&mut s1)));
                    c.event(0xf000 | k as u64, true);
                    let bad = match (&base, &got) {
                        (Ok(a), Ok(b)) => !same(a, b),
                        (Err(_), Err(_)) => false,
                        _ => true,
                    };
                    if bad {
                        if c.wants_witness("hidden_lane_dependence", &["mixed"]) {
                            c.violation("hidden_lane_dependence", &["mixed"], format!("{}::{} input seed {} mode {:?}, every padded operand with a different hidden lane", e.ty, e.name, sd, mode), got.as_ref().map(show).unwrap_or_else(|_| "panic".into()), base.as_ref().map(show).unwrap_or_else(|_| "panic".into()), "results must be bit-identical for bit-identical visible lanes".into());
                        } else {
                            c.st.violations += 1;
                        }
                    }
                }
            }
            if c.need_sample() {
                if let Ok(b) = &base {
                    c.sample(format!("{}::{} -> {} under {} hidden-lane contents", e.ty, e.name, show(b), plist.len()));
                }
            }
        }
        mon.end(c);
    }
}

/// short programs: values flow from one operation to the next through a typed pool, so hidden lanes
/// computed by glam itself (cross, transforms, comparisons) feed later operations
fn programs(mon: &mut Monitor, reg: &[Entry]) {
    let nprog = mon.n(4_000, 200_000);
    if let Some(mut c) = mon.begin("programs", "chains of <= 6 hidden-lane operations") {
        let seed = mon.op_seed("programs", "c08");
        for p in 0..nprog {
            let sd = vcommon::rng::mix(seed, p);
            let mut pick = vcommon::rng::Rng::new(sd ^ 0x55);
            let len = 2 + pick.idx(5);
            let prog: Vec<usize> = (0..len).map(|_| pick.idx(reg.len())).collect();
            let run = |hidden: Hidden| -> Vec<Result<Out, ()>> {
                let mut s = Src::new(sd, Mode::Ordinary);
                s.pool_prob = 0.6;
                s.index_range = 4;
                s.hidden = hidden;
                prog.iter().map(|&i| catch_unwind(AssertUnwindSafe(|| (reg[i].call)(&mut s))).map_err(|_| ())).collect()
            };
            let base = run(Hidden::Natural);
            for (pi, (bits, pname)) in POISONS.iter().enumerate() {
                if (p as usize + pi) % 2 == 0 {
                    continue;
                }
                let got = if pi % 3 == 1 { run(Hidden::Mixed { start: p as u32 + pi as u32 }) } else { run(Hidden::Poison { bits: *bits, route: (pi % 3) as u8 }) };
                c.event((len as u64) << 8 | pi as u64, true);
                for k in 0..len {
                    let bad = match (&base[k], &got[k]) {
                        (Ok(a), Ok(b)) => !same(a, b),
                        (Err(_), Err(_)) => false,
                        _ => true,
                    };
                    if bad {
                        let names: Vec<String> = prog.iter().map(|&i| format!("{}::{}", reg[i].ty, reg[i].name)).collect();
                        if c.wants_witness("hidden_lane_dependence", &[pname]) {
                            c.violation("hidden_lane_dependence", &[pname, "program"], format!("program seed {}: {:?}, hidden lane = {}", sd, names, pname), got[k].as_ref().map(show).unwrap_or_else(|_| "panic".into()), base[k].as_ref().map(show).unwrap_or_else(|_| "panic".into()), format!("step {} diverges", k));
                        } else {
                            c.st.violations += 1;
                        }
                        break;
                    }
                }
            }
        }
        c.sample("random programs over the hidden-lane registry entries with a typed value pool".into());
        mon.end(c);
    }
}

fn canaries(mon: &mut Monitor) {
    if cfg!(feature = "scalar-math") {
        return;
    }
    use glam::*;
    mon.canary("min_element reading all four lanes", |m| {
        let e = Entry { ty: "Canary", name: "min_element", hidden: true, simd8: true, kind: "fn", call: |s: &mut Src| { let a: Vec3A = s.draw(); let mut o = Out::new(); let v4 = Vec4::from(glam_raw(a)); v4.min_element().cap(&mut o); o } };
        single_calls(m, &[e], 30, false);
    });
    mon.canary("bitmask without & 0x7", |m| {
        let e = Entry { ty: "Canary", name: "all", hidden: true, simd8: true, kind: "fn", call: |s: &mut Src| { let a: BVec3A = s.draw(); let mut o = Out::new(); let raw: [u32; 4] = raw_mask(a); ((raw[0] & raw[1] & raw[2] & raw[3]) != 0).cap(&mut o); o } };
        single_calls(m, &[e], 30, false);
    });
    mon.canary("== on the raw register", |m| {
        let e = Entry { ty: "Canary", name: "eq", hidden: true, simd8: true, kind: "fn", call: |s: &mut Src| { let a: Vec3A = s.draw(); let mut o = Out::new(); let r = glam_raw(a); (r[3].to_bits() == r[2].to_bits()).cap(&mut o); o } };
        single_calls(m, &[e], 30, false);
    });
}

#[cfg(all(not(feature = "scalar-math"), not(feature = "core-simd")))]
fn glam_raw(a: glam::Vec3A) -> [f32; 4] {
    let r: core::arch::x86_64::__m128 = a.into();
    unsafe { core::mem::transmute(r) }
}
#[cfg(feature = "core-simd")]
fn glam_raw(a: glam::Vec3A) -> [f32; 4] {
    let r: core::simd::f32x4 = a.into();
    r.to_array()
}
#[cfg(feature = "scalar-math")]
fn glam_raw(a: glam::Vec3A) -> [f32; 4] {
    [a.x, a.y, a.z, a.z]
}
#[cfg(all(not(feature = "scalar-math"), not(feature = "core-simd")))]
fn raw_mask(a: glam::BVec3A) -> [u32; 4] {
    let r: core::arch::x86_64::__m128 = a.into();
    unsafe { core::mem::transmute(r) }
}
#[cfg(feature = "core-simd")]
fn raw_mask(a: glam::BVec3A) -> [u32; 4] {
    let r: core::simd::mask32x4 = a.into();
    let b = r.to_array();
    [b[0] as u32, b[1] as u32, b[2] as u32, b[3] as u32]
}
#[cfg(feature = "scalar-math")]
fn raw_mask(a: glam::BVec3A) -> [u32; 4] {
    let b: [bool; 3] = a.into();
    [b[0] as u32, b[1] as u32, b[2] as u32, b[2] as u32]
}

//! The `Val` layer: how every argument type of the public API is drawn (`Draw`) and how every result
//! type is captured bit-for-bit (`Cap`, visible lanes only for the padded SIMD types).

use glam::*;
use std::any::{Any, TypeId};
use std::collections::HashMap;
use vcommon::fl::Fl;
use vcommon::rng::Rng;

#[derive(Clone, Copy, PartialEq, Debug)]
pub enum Mode {
    /// moderate finite values
    Ordinary,
    /// special-value lattice in the hot slot (or, with no hot slot, in random slots)
    Lattice,
    /// like `Lattice` but only the finite members (subnormals, +-0, ties, 2^23 / 2^31 neighbourhood, MAX ...)
    LatticeFinite,
    /// ordinary values all multiplied by 2^e: uniformly tiny or huge operands (thresholds, underflow, overflow)
    Scaled(i32),
}

#[derive(Clone, Copy, PartialEq, Debug)]
pub enum Hidden {
    /// whatever the ordinary constructor leaves in the fourth lane
    Natural,
    /// explicit fourth-lane content injected through public route `route`
    Poison { bits: u32, route: u8 },
    /// a different content (and route) for every hidden-lane value drawn in the call, so that operands of one
    /// operation differ in their hidden lanes
    Mixed { start: u32 },
}

pub const POISON_BITS: [u32; 10] = [0x0000_0000, 0x3f80_0000, 0xbf80_0000, 0x7f61_b1e6, 0x0000_0001, 0x7f80_0000, 0xff80_0000, 0x7fc0_0001, 0x7fa0_0055, 0xffff_ffff];

pub struct Src {
    pub rng: Rng,
    pub mode: Mode,
    pub hot: Option<usize>,
    pub slot: usize,
    pub hidden: Hidden,
    pub pool: HashMap<TypeId, Vec<Box<dyn Any>>>,
    pub pool_prob: f64,
    pub buf_len: usize,
    pub index_range: usize,
    pub log: Vec<String>,
    pub keep_log: bool,
    /// when set, every ordinary scalar drawn is moved by -64..=64 units in the last place (conditioning probe)
    pub perturb: Option<Rng>,
    /// largest finite |scalar| drawn so far (magnitude scale of the call's inputs)
    pub max_abs: f64,
    pub hidden_draws: u32,
}

impl Src {
    pub fn new(seed: u64, mode: Mode) -> Src {
        Src { rng: Rng::new(seed), mode, hot: None, slot: 0, hidden: Hidden::Natural, pool: HashMap::new(), pool_prob: 0.0, buf_len: 16, index_range: 2, log: vec![], keep_log: false, perturb: None, max_abs: 0.0, hidden_draws: 0 }
    }
    /// the input mode of C07's single calls is a function of the call's seed, so both builds (and a replay) agree on it
    pub fn for_seed(seed: u64) -> Src {
        let h = vcommon::rng::mix(seed, 0x6d6f_6465);
        let mut s = match h % 8 {
            0..=3 => Src::new(seed, Mode::Ordinary),
            4 => { let mut s = Src::new(seed, Mode::LatticeFinite); s.hot = Some(((h >> 8) % 6) as usize); s }
            5 => Src::new(seed, Mode::LatticeFinite),
            6 => Src::new(seed, Mode::Scaled([-75, -70, -66, -64, -62, -60, -50, -40][((h >> 8) % 8) as usize])),
            _ => Src::new(seed, Mode::Scaled([40, 50, 58, 60, 62, 63, 64, 66][((h >> 8) % 8) as usize])),
        };
        s.slot = 0;
        // every other call builds its padded operands (Vec3A, Mat3A columns, masks) with arbitrary content in the unused lane,
        // a different one per operand: the visible lanes are the same in every build, so results must still agree with scalar-math
        if (h >> 4) % 2 == 0 {
            s.hidden = Hidden::Mixed { start: (h >> 20) as u32 };
        }
        // indices 0..=4: every lane / column / minor index pair of every type, and a consistent panic beyond the type's range
        s.index_range = 5;
        s
    }
    pub fn reseed(&mut self, seed: u64) {
        self.rng = Rng::new(seed);
        self.slot = 0;
        self.log.clear();
    }
    /// the hidden-lane policy for the next padded value drawn
    pub fn next_hidden(&mut self) -> Hidden {
        match self.hidden {
            Hidden::Mixed { start } => {
                let k = start.wrapping_add(self.hidden_draws);
                self.hidden_draws += 1;
                Hidden::Poison { bits: POISON_BITS[(k % 10) as usize], route: ((k / 10 + k) % 3) as u8 }
            }
            h => h,
        }
    }
    pub fn coin(&mut self) -> bool {
        self.rng.bool()
    }
    pub fn draw<T: Draw>(&mut self) -> T {
        T::draw(self)
    }
    pub fn draw_buf<T: Draw + Sentinel>(&mut self) -> Vec<T> {
        (0..self.buf_len).map(|i| T::sentinel(i)).collect()
    }
    pub fn offer<T: Any + Clone>(&mut self, v: &T) {
        if self.pool_prob > 0.0 {
            let e = self.pool.entry(TypeId::of::<T>()).or_default();
            if e.len() < 8 {
                e.push(Box::new(v.clone()));
            } else {
                let i = self.rng.idx(8);
                e[i] = Box::new(v.clone());
            }
        }
    }
    fn from_pool<T: Any + Clone>(&mut self) -> Option<T> {
        if self.pool_prob > 0.0 && self.rng.unit() < self.pool_prob {
            if let Some(e) = self.pool.get(&TypeId::of::<T>()) {
                if !e.is_empty() {
                    let i = self.rng.idx(e.len());
                    return e[i].downcast_ref::<T>().cloned();
                }
            }
        }
        None
    }
    fn scalar<S: Fl>(&mut self) -> S {
        let slot = self.slot;
        self.slot += 1;
        let lat = match self.mode {
            Mode::Lattice | Mode::LatticeFinite => match self.hot {
                Some(h) => h == slot,
                None => self.rng.below(3) == 0,
            },
            Mode::Ordinary | Mode::Scaled(_) => false,
        };
        let v: S = if lat {
            let mut x = *self.rng.pick(S::lattice());
            if self.mode == Mode::LatticeFinite {
                while !x.finite() { x = *self.rng.pick(S::lattice()); }
            }
            x
        } else {
            match self.rng.below(8) {
                0 => S::of(self.rng.int_in(-4, 4) as f64),
                1 => S::of(self.rng.int_in(-8, 8) as f64 * 0.25),
                2 => S::of(self.rng.range(-1.0, 1.0)),
                _ => S::of(self.rng.logmag(-4.0, 4.0)),
            }
        };
        let v = match self.mode {
            Mode::Scaled(e) => { let y = S::of(v.f64() * (e as f64).exp2()); if y.finite() { y } else { v } }
            _ => v,
        };
        let v = match &mut self.perturb {
            Some(pr) if v.finite() && v.f64() != 0.0 => {
                let k = pr.int_in(-64, 64);
                S::from_bits64((v.bits() as i64 + k) as u64)
            }
            _ => v,
        };
        if self.keep_log {
            self.log.push(v.hex());
        }
        if v.finite() && v.f64().abs() > self.max_abs {
            self.max_abs = v.f64().abs();
        }
        v
    }
}

/// Vec4's mask type: BVec4A on SIMD back ends, BVec4 under scalar-math.
#[cfg(not(feature = "scalar-math"))]
pub type Vec4Mask = BVec4A;
#[cfg(feature = "scalar-math")]
pub type Vec4Mask = BVec4;

pub struct Out {
    pub words: Vec<u64>,
    /// 0 = discrete, 32 / 64 = float bits of that width
    pub kinds: Vec<u8>,
    pub text: Option<String>,
}
impl Out {
    pub fn new() -> Out {
        Out { words: vec![], kinds: vec![], text: None }
    }
}

pub struct Entry {
    pub ty: &'static str,
    pub name: &'static str,
    pub hidden: bool,
    pub simd8: bool,
    pub kind: &'static str,
    pub call: fn(&mut Src) -> Out,
}

pub fn hash_of<T: std::hash::Hash>(t: &T) -> u64 {
    use std::hash::Hasher;
    let mut h = std::collections::hash_map::DefaultHasher::new();
    t.hash(&mut h);
    h.finish()
}

// ------------------------------------------------------------------------------------------------------
pub trait Draw: Sized + 'static {
    fn draw(src: &mut Src) -> Self;
}
pub trait Sentinel {
    fn sentinel(i: usize) -> Self;
}
pub trait Cap {
    fn cap(&self, o: &mut Out);
}

impl Draw for f32 {
    fn draw(s: &mut Src) -> Self {
        s.scalar::<f32>()
    }
}
impl Draw for f64 {
    fn draw(s: &mut Src) -> Self {
        s.scalar::<f64>()
    }
}
impl Sentinel for f32 {
    fn sentinel(i: usize) -> Self {
        f32::from_bits(0x7fc5_5a00 + i as u32)
    }
}
impl Sentinel for f64 {
    fn sentinel(i: usize) -> Self {
        f64::from_bits(0x7ff8_5a5a_0000_0000 + i as u64)
    }
}
impl Draw for usize {
    fn draw(s: &mut Src) -> Self {
        let n = s.index_range as u64;
        s.rng.below(n) as usize
    }
}
impl Draw for bool {
    fn draw(s: &mut Src) -> Self {
        s.rng.bool()
    }
}
impl Draw for EulerRot {
    fn draw(s: &mut Src) -> Self {
        use EulerRot::*;
        *s.rng.pick(&[ZYX, ZXY, YXZ, YZX, XYZ, XZY, ZYZ, ZXZ, YXY, YZY, XYX, XZX, ZYXEx, ZXYEx, YXZEx, YZXEx, XYZEx, XZYEx, ZYZEx, ZXZEx, YXYEx, YZYEx, XYXEx, XZXEx])
    }
}
impl<T: Draw> Draw for Vec<T> {
    fn draw(s: &mut Src) -> Self {
        (0..s.buf_len).map(|_| T::draw(s)).collect()
    }
}
impl<T: Draw, const N: usize> Draw for [T; N] {
    fn draw(s: &mut Src) -> Self {
        core::array::from_fn(|_| T::draw(s))
    }
}
impl<A: Draw, B: Draw> Draw for (A, B) {
    fn draw(s: &mut Src) -> Self {
        (A::draw(s), B::draw(s))
    }
}
impl<A: Draw, B: Draw, C: Draw> Draw for (A, B, C) {
    fn draw(s: &mut Src) -> Self {
        (A::draw(s), B::draw(s), C::draw(s))
    }
}
impl<A: Draw, B: Draw, C: Draw, D: Draw> Draw for (A, B, C, D) {
    fn draw(s: &mut Src) -> Self {
        (A::draw(s), B::draw(s), C::draw(s), D::draw(s))
    }
}

macro_rules! cap_float {
    ($t:ty, $k:expr) => {
        impl Cap for $t {
            fn cap(&self, o: &mut Out) {
                o.words.push(self.to_bits() as u64);
                o.kinds.push($k);
            }
        }
    };
}
cap_float!(f32, 32);
cap_float!(f64, 64);
macro_rules! cap_disc {
    ($($t:ty),*) => {$(
        impl Cap for $t {
            fn cap(&self, o: &mut Out) {
                o.words.push(*self as u64);
                o.kinds.push(0);
            }
        }
    )*};
}
cap_disc!(bool, u8, i8, u16, i16, u32, i32, u64, i64, usize);
impl Cap for () {
    fn cap(&self, _o: &mut Out) {}
}
impl<T: Cap> Cap for Option<T> {
    fn cap(&self, o: &mut Out) {
        match self {
            None => {
                o.words.push(0);
                o.kinds.push(0);
            }
            Some(v) => {
                o.words.push(1);
                o.kinds.push(0);
                v.cap(o);
            }
        }
    }
}
impl<T: Cap> Cap for Vec<T> {
    fn cap(&self, o: &mut Out) {
        for x in self {
            x.cap(o);
        }
    }
}
impl<T: Cap, const N: usize> Cap for [T; N] {
    fn cap(&self, o: &mut Out) {
        for x in self {
            x.cap(o);
        }
    }
}
impl<A: Cap, B: Cap> Cap for (A, B) {
    fn cap(&self, o: &mut Out) {
        self.0.cap(o);
        self.1.cap(o);
    }
}
impl<A: Cap, B: Cap, C: Cap> Cap for (A, B, C) {
    fn cap(&self, o: &mut Out) {
        self.0.cap(o);
        self.1.cap(o);
        self.2.cap(o);
    }
}
impl<A: Cap, B: Cap, C: Cap, D: Cap> Cap for (A, B, C, D) {
    fn cap(&self, o: &mut Out) {
        self.0.cap(o);
        self.1.cap(o);
        self.2.cap(o);
        self.3.cap(o);
    }
}

// ---- glam types ------------------------------------------------------------------------------------------
macro_rules! val_vec {
    ($T:ident, $S:ty, $N:expr) => {
        impl Draw for $T {
            fn draw(s: &mut Src) -> Self {
                if let Some(v) = s.from_pool::<$T>() {
                    return v;
                }
                let a: [$S; $N] = core::array::from_fn(|_| <$S>::draw(s));
                <$T>::from_array(a)
            }
        }
        impl Cap for $T {
            fn cap(&self, o: &mut Out) {
                self.to_array().cap(o);
            }
        }
    };
}
val_vec!(Vec2, f32, 2);
val_vec!(Vec3, f32, 3);
val_vec!(Vec4, f32, 4);
val_vec!(DVec2, f64, 2);
val_vec!(DVec3, f64, 3);
val_vec!(DVec4, f64, 4);
val_vec!(Quat, f32, 4);
val_vec!(DQuat, f64, 4);

/// Vec3A with the hidden-lane policy of the source.
pub fn make_vec3a(l: [f32; 3], h: Hidden) -> Vec3A {
    match h {
        Hidden::Mixed { .. } => unreachable!(),
        Hidden::Natural => Vec3A::from_array(l),
        #[cfg(feature = "scalar-math")]
        Hidden::Poison { .. } => Vec3A::from_array(l),
        #[cfg(not(feature = "scalar-math"))]
        Hidden::Poison { bits, route } => {
            let w = f32::from_bits(bits);
            match route {
                0 => Vec3A::from_vec4(Vec4::new(l[0], l[1], l[2], w)),
                1 => {
                    // results of arithmetic on whole registers carry a computed fourth lane
                    let a = Vec3A::from_vec4(Vec4::new(l[0], l[1], l[2], w));
                    let one = Vec3A::from_vec4(Vec4::new(1.0, 1.0, 1.0, 1.0));
                    // x * 1 keeps the visible lanes bit-exact for non-NaN lanes; for NaN lanes use the direct route
                    if l.iter().any(|x| x.is_nan()) { a } else { a * one }
                }
                _ => raw_vec3a(l, w),
            }
        }
    }
}
#[cfg(all(not(feature = "scalar-math"), not(feature = "core-simd")))]
fn raw_vec3a(l: [f32; 3], w: f32) -> Vec3A {
    use core::arch::x86_64::*;
    unsafe { Vec3A::from(_mm_set_ps(w, l[2], l[1], l[0])) }
}
#[cfg(feature = "core-simd")]
fn raw_vec3a(l: [f32; 3], w: f32) -> Vec3A {
    Vec3A::from(core::simd::f32x4::from_array([l[0], l[1], l[2], w]))
}

impl Draw for Vec3A {
    fn draw(s: &mut Src) -> Self {
        if let Some(v) = s.from_pool::<Vec3A>() {
            return v;
        }
        let a: [f32; 3] = core::array::from_fn(|_| f32::draw(s));
        let h = s.next_hidden();
        make_vec3a(a, h)
    }
}
impl Cap for Vec3A {
    fn cap(&self, o: &mut Out) {
        self.to_array().cap(o);
    }
}

macro_rules! val_mat {
    ($T:ident, $S:ty, $NN:expr) => {
        impl Draw for $T {
            fn draw(s: &mut Src) -> Self {
                if let Some(v) = s.from_pool::<$T>() {
                    return v;
                }
                let a: [$S; $NN] = core::array::from_fn(|_| <$S>::draw(s));
                <$T>::from_cols_array(&a)
            }
        }
        impl Cap for $T {
            fn cap(&self, o: &mut Out) {
                self.to_cols_array().cap(o);
            }
        }
    };
}
val_mat!(Mat2, f32, 4);
val_mat!(Mat3, f32, 9);
val_mat!(Mat4, f32, 16);
val_mat!(DMat2, f64, 4);
val_mat!(DMat3, f64, 9);
val_mat!(DMat4, f64, 16);
val_mat!(Affine2, f32, 6);
val_mat!(DAffine2, f64, 6);
val_mat!(DAffine3, f64, 12);

impl Draw for Mat3A {
    fn draw(s: &mut Src) -> Self {
        if let Some(v) = s.from_pool::<Mat3A>() {
            return v;
        }
        Mat3A::from_cols(Vec3A::draw(s), Vec3A::draw(s), Vec3A::draw(s))
    }
}
impl Cap for Mat3A {
    fn cap(&self, o: &mut Out) {
        self.to_cols_array().cap(o);
    }
}
impl Draw for Affine3A {
    fn draw(s: &mut Src) -> Self {
        if let Some(v) = s.from_pool::<Affine3A>() {
            return v;
        }
        Affine3A::from_cols(Vec3A::draw(s), Vec3A::draw(s), Vec3A::draw(s), Vec3A::draw(s))
    }
}
impl Cap for Affine3A {
    fn cap(&self, o: &mut Out) {
        self.to_cols_array().cap(o);
    }
}

macro_rules! val_mask {
    ($T:ident, $N:expr, [$($i:tt),*]) => {
        impl Draw for $T {
            fn draw(s: &mut Src) -> Self {
                let b: [bool; $N] = core::array::from_fn(|_| s.rng.bool());
                <$T>::new($(b[$i]),*)
            }
        }
        impl Cap for $T {
            fn cap(&self, o: &mut Out) {
                self.bitmask().cap(o);
            }
        }
    };
}
val_mask!(BVec2, 2, [0, 1]);
val_mask!(BVec3, 3, [0, 1, 2]);
val_mask!(BVec4, 4, [0, 1, 2, 3]);
val_mask!(BVec4A, 4, [0, 1, 2, 3]);
impl Draw for BVec3A {
    fn draw(s: &mut Src) -> Self {
        let b: [bool; 3] = core::array::from_fn(|_| s.rng.bool());
        match s.next_hidden() {
            Hidden::Mixed { .. } => unreachable!(),
            Hidden::Natural => BVec3A::new(b[0], b[1], b[2]),
            Hidden::Poison { bits, .. } => {
                // a mask produced by comparing vectors whose hidden lanes are equal (true) or not (false / NaN)
                let h1 = f32::from_bits(bits);
                let h2 = if bits & 1 == 1 { h1 } else { 12345.0 };
                let x = make_vec3a([1.0, 2.0, 3.0], Hidden::Poison { bits: h1.to_bits(), route: 0 });
                let y = make_vec3a([if b[0] { 1.0 } else { 9.0 }, if b[1] { 2.0 } else { 9.0 }, if b[2] { 3.0 } else { 9.0 }], Hidden::Poison { bits: h2.to_bits(), route: 0 });
                x.cmpeq(y)
            }
        }
    }
}
impl Cap for BVec3A {
    fn cap(&self, o: &mut Out) {
        self.bitmask().cap(o);
    }
}

macro_rules! cap_ivec {
    ($($T:ident),*) => {$(
        impl Cap for $T {
            fn cap(&self, o: &mut Out) {
                self.to_array().cap(o);
            }
        }
    )*};
}
cap_ivec!(I8Vec2, I8Vec3, I8Vec4, U8Vec2, U8Vec3, U8Vec4, I16Vec2, I16Vec3, I16Vec4, U16Vec2, U16Vec3, U16Vec4, IVec2, IVec3, IVec4, UVec2, UVec3, UVec4, I64Vec2, I64Vec3, I64Vec4, U64Vec2, U64Vec3, U64Vec4, USizeVec2, USizeVec3, USizeVec4);

//! C07: back-end and build-configuration independence of the SIMD-backed types.
//! `--mode trace` records a seeded workload over the registry into a binary trace; `--mode cmp`
//! compares two traces produced by different builds of the working tree.
use crate::registry_gen::registry;
use crate::val::*;
use std::io::{Read, Write};
use std::panic::{catch_unwind, AssertUnwindSafe};
use vcommon::mon::*;
use vcommon::rng::{hash_str, mix};

const MAGIC: u64 = 0x4743_3037_5452_4143; // "GC07TRAC"
const K_PERTURB: u64 = 8;

fn entries() -> Vec<Entry> {
    registry().into_iter().filter(|e| e.simd8 && !e.kind.ends_with("gated")).collect()
}
fn eid(e: &Entry) -> u64 {
    hash_str(&format!("{}::{}", e.ty, e.name))
}

pub fn run(mon: &mut Monitor, args: &Args) {
    match args.mode.as_deref() {
        Some("cmp") => compare(mon, args),
        Some("show") => show(args),
        _ => trace(mon, args),
    }
}

struct W {
    buf: Vec<u8>,
    f: std::fs::File,
}
impl W {
    fn u(&mut self, x: u64) {
        self.buf.extend_from_slice(&x.to_le_bytes());
        if self.buf.len() > 1 << 20 {
            self.f.write_all(&self.buf).unwrap();
            self.buf.clear();
        }
    }
    fn rec(&mut self, id: u64, seed: u64, step: u64, o: &Result<Out, ()>, noise: &[f64], flip: bool, scale: f64) {
        self.u(id);
        self.u(seed);
        self.u(step);
        match o {
            Err(_) => self.u(u64::MAX),
            Ok(o) => {
                self.u(o.words.len() as u64);
                for (w, k) in o.words.iter().zip(o.kinds.iter()) {
                    self.u(*w);
                    self.u(*k as u64);
                }
                self.u(o.text.as_ref().map(|t| hash_str(t)).unwrap_or(0));
                self.u(flip as u64);
                self.u(scale.to_bits());
                self.u(noise.len() as u64);
                for n in noise {
                    self.u(n.to_bits());
                }
            }
        }
    }
}

fn fval(w: u64, k: u8) -> f64 {
    if k == 32 {
        f32::from_bits(w as u32) as f64
    } else {
        f64::from_bits(w)
    }
}

/// Record: single calls with a conditioning probe (for the SIMD <-> scalar comparison) and chained
/// programs (for the bit-exact comparisons).
fn trace(mon: &mut Monitor, args: &Args) {
    let path = args.trace.clone().expect("--trace FILE");
    let mut w = W { buf: Vec::new(), f: std::fs::File::create(&path).unwrap() };
    let reg = entries();
    w.u(MAGIC);
    w.u(reg.len() as u64);
    let per_entry = mon.n(240, 2400);
    let nprog = mon.n(6_000, 150_000);
    let base = mix(mon.seed, 0xc07);
    let Some(mut c) = mon.begin_unsharded("trace", &format!("recorded in {}", mon.config)) else { return };
    // --- single calls -------------------------------------------------------------------------------------
    for e in &reg {
        let id = eid(e);
        for i in 0..per_entry {
            let sd = mix(mix(base, id), i);
            let mut s = Src::for_seed(sd);
            let o = catch_unwind(AssertUnwindSafe(|| (e.call)(&mut s))).map_err(|_| ());
            // conditioning probe: the same call on inputs moved by up to 64 ulp (large enough that the response is
            // not hidden by the quantisation of intermediate results, small enough to stay linear)
            let mut noise: Vec<f64> = vec![];
            let mut flip = false;
            if let Ok(o0) = &o {
                noise = vec![0.0; o0.words.len()];
                for k in 0..K_PERTURB {
                    let mut sp = Src::for_seed(sd);
                    sp.perturb = Some(vcommon::rng::Rng::new(mix(sd, 77 + k)));
                    if let Ok(op) = catch_unwind(AssertUnwindSafe(|| (e.call)(&mut sp))) {
                        if op.words.len() != o0.words.len() {
                            flip = true;
                            continue;
                        }
                        for j in 0..o0.words.len() {
                            if o0.kinds[j] == 0 {
                                flip |= op.words[j] != o0.words[j];
                            } else {
                                let (a, b) = (fval(o0.words[j], o0.kinds[j]), fval(op.words[j], op.kinds[j]));
                                let d = (a - b).abs();
                                if d.is_nan() || a.is_finite() != b.is_finite() {
                                    // NaN-ness or overflow changes under the perturbation: a threshold within slack
                                    if a.is_nan() != b.is_nan() || a.is_finite() != b.is_finite() { flip = true; }
                                } else if d > noise[j] {
                                    noise[j] = d;
                                }
                            }
                        }
                    } else {
                        flip = true;
                    }
                }
            }
            let mut scale = s.max_abs;
            if let Ok(o0) = &o {
                for j in 0..o0.words.len() {
                    if o0.kinds[j] != 0 {
                        let v = fval(o0.words[j], o0.kinds[j]).abs();
                        if v.is_finite() && v > scale { scale = v; }
                    }
                }
            }
            w.rec(id, sd, 0, &o, &noise, flip, scale);
            c.event(id % 4096, true);
        }
    }
    // --- programs of up to 8 chained operations -------------------------------------------------------------
    for p in 0..nprog {
        let sd = mix(base, 0x9000_0000 + p);
        let mut pick = vcommon::rng::Rng::new(sd ^ 0x33);
        let len = 2 + pick.idx(7);
        let mut s = Src::new(sd, Mode::Ordinary);
        s.pool_prob = 0.6;
        s.index_range = 4;
        for step in 0..len {
            let e = &reg[pick.idx(reg.len())];
            let o = catch_unwind(AssertUnwindSafe(|| (e.call)(&mut s))).map_err(|_| ());
            w.rec(eid(e), sd, 1 + step as u64, &o, &[], false, 0.0);
            c.event(0x10000 + len as u64, true);
        }
    }
    w.f.write_all(&w.buf).unwrap();
    c.sample(format!("{} entries x {} single calls with {} perturbed re-executions each, {} programs of 2-8 chained operations", reg.len(), per_entry, K_PERTURB, nprog));
    mon.end(c);
}

struct R {
    d: Vec<u8>,
    p: usize,
}
impl R {
    fn open(path: &str) -> R {
        let mut d = Vec::new();
        std::fs::File::open(path).unwrap().read_to_end(&mut d).unwrap();
        R { d, p: 0 }
    }
    fn u(&mut self) -> Option<u64> {
        if self.p + 8 > self.d.len() {
            return None;
        }
        let x = u64::from_le_bytes(self.d[self.p..self.p + 8].try_into().unwrap());
        self.p += 8;
        Some(x)
    }
}
struct Rec {
    id: u64,
    seed: u64,
    step: u64,
    panicked: bool,
    words: Vec<u64>,
    kinds: Vec<u8>,
    text: u64,
    flip: bool,
    scale: f64,
    noise: Vec<f64>,
}
fn read_rec(r: &mut R) -> Option<Rec> {
    let id = r.u()?;
    let seed = r.u()?;
    let step = r.u()?;
    let n = r.u()?;
    if n == u64::MAX {
        return Some(Rec { id, seed, step, panicked: true, words: vec![], kinds: vec![], text: 0, flip: false, scale: 0.0, noise: vec![] });
    }
    let mut words = vec![];
    let mut kinds = vec![];
    for _ in 0..n {
        words.push(r.u()?);
        kinds.push(r.u()? as u8);
    }
    let text = r.u()?;
    let flip = r.u()? != 0;
    let scale = f64::from_bits(r.u()?);
    let nn = r.u()?;
    let mut noise = vec![];
    for _ in 0..nn {
        noise.push(f64::from_bits(r.u()?));
    }
    Some(Rec { id, seed, step, panicked: false, words, kinds, text, flip, scale, noise })
}

/// Entries that are one IEEE operation per lane or pure data movement in every back end (no sums of products).
pub fn lane_exact(full: &str) -> bool {
    let Some((ty, name)) = full.split_once("::") else { return false };
    let vecty = ty == "Vec3A" || ty == "Vec4";
    if name.starts_with("swizzle") || name.starts_with("as_") {
        return true;
    }
    if let Some(body) = name.strip_prefix("op ") {
        if vecty {
            return true; // every operator of a vector type is element-wise (== is a discrete outcome of element-wise compares)
        }
        let t: Vec<&str> = body.split_whitespace().collect();
        if t.len() == 1 {
            return true; // unary minus, indexing
        }
        if t.len() == 3 {
            let (l, r) = (t[0].trim_start_matches('&'), t[2].trim_start_matches('&'));
            let o = if t[1] == "==" || t[1] == "!=" { t[1] } else { t[1].trim_end_matches('=') };
            return match o { "+" | "-" | "==" | "!=" => true, "*" | "/" => l == "f32" || r == "f32" || l == "f64" || r == "f64", _ => false };
        }
        return false;
    }
    if vecty {
        return matches!(name, "new" | "splat" | "select" | "from_array" | "to_array" | "from_slice" | "write_to_slice" | "truncate" | "extend" | "with_x" | "with_y" | "with_z" | "with_w" | "min" | "max" | "clamp" | "min_element" | "max_element" | "min_position" | "max_position" | "cmpeq" | "cmpne" | "cmpge" | "cmpgt" | "cmple" | "cmplt" | "abs" | "signum" | "copysign" | "is_negative_bitmask" | "is_finite" | "is_finite_mask" | "is_nan" | "is_nan_mask" | "div_euclid" | "rem_euclid" | "round" | "floor" | "ceil" | "trunc" | "fract" | "fract_gl" | "exp" | "powf" | "recip" | "mul_add" | "from_vec4" | "to_vec3" | "iter Sum" | "iter Product")
            || name.starts_with("From<") || name.starts_with("fn ");
    }
    matches!(name, "conjugate" | "transpose" | "from_cols" | "from_cols_array" | "from_cols_array_2d" | "from_cols_slice" | "to_cols_array" | "to_cols_array_2d" | "write_cols_to_slice" | "col" | "row" | "from_diagonal" | "from_translation" | "from_scale" | "is_nan" | "is_finite" | "to_array" | "from_array" | "from_xyzw" | "from_vec4" | "from_slice" | "write_to_slice" | "xyz" | "abs" | "add_mat2" | "sub_mat2" | "add_mat3" | "sub_mat3" | "add_mat4" | "sub_mat4" | "mul_scalar" | "div_scalar" | "from_mat2" | "from_mat3" | "from_mat3a" | "from_mat4" | "from_mat3_translation" | "from_mat2_translation")
}

/// `--mode cmp --trace A B <class>` with class = exact | assoc
fn compare(mon: &mut Monitor, args: &Args) {
    let a_path = args.trace.clone().expect("--trace A");
    let b_path = args.rest.get(0).cloned().expect("trace B");
    let class = args.rest.get(1).cloned().unwrap_or_else(|| "exact".into());
    let pair = args.rest.get(2).cloned().unwrap_or_else(|| "a~b".into());
    // canaries: the comparator must notice deliberately corrupted copies of trace B
    let muts: &[(&str, u8)] = if class == "exact" { &[("one result off by 1 ulp (an FMA slipping in)", 1), ("Display text differs for equal values", 4)] } else { &[("a result off by 1e-3 relative", 2), ("a discrete outcome flipped", 3), ("Display text differs for equal values", 4)] };
    for (name, m) in muts {
        mon.canary(name, |sm| compare_inner(sm, &a_path, &b_path, &class, &pair, *m, 600_000));
    }
    compare_inner(mon, &a_path, &b_path, &class, &pair, 0, u64::MAX);
}

fn mutate(r: &mut Rec, m: u8, n: u64) {
    if r.panicked || r.words.is_empty() || n % 7 != 3 {
        return;
    }
    match m {
        1 => { if let Some(j) = (0..r.words.len()).find(|j| r.kinds[*j] != 0 && !fval(r.words[*j], r.kinds[*j]).is_nan()) { r.words[j] ^= 1; } }
        2 => { if let Some(j) = (0..r.words.len()).find(|j| r.kinds[*j] == 32 && fval(r.words[*j], 32).is_finite() && fval(r.words[*j], 32) != 0.0) { let v = f32::from_bits(r.words[j] as u32) * 1.001; r.words[j] = v.to_bits() as u64; } }
        3 => { if let Some(j) = (0..r.words.len()).find(|j| r.kinds[*j] == 0) { if !r.flip { r.words[j] ^= 1; } } }
        4 => { r.text ^= 0x1234; }
        _ => {}
    }
}

fn compare_inner(mon: &mut Monitor, a_path: &str, b_path: &str, class: &str, pair: &str, mutation: u8, limit: u64) {
    let (a_path, b_path, class, pair) = (a_path.to_string(), b_path.to_string(), class.to_string(), pair.to_string());
    let names: std::collections::HashMap<u64, String> = entries().iter().map(|e| (eid(e), format!("{}::{}", e.ty, e.name))).collect();
    let (mut ra, mut rb) = (R::open(&a_path), R::open(&b_path));
    let Some(mut c) = mon.begin_unsharded("tracecmp", &format!("{} [{}]", pair, class)) else { return };
    if ra.u() != Some(MAGIC) || rb.u() != Some(MAGIC) || ra.u() != rb.u() {
        mon.inconclusive.push(format!("{}: trace headers differ (different registries?)", pair));
        mon.end(c);
        return;
    }
    let exact = class == "exact";
    // Rust leaves the sign and payload of a NaN produced by an operation unspecified (LLVM may fold or
    // vectorise differently per target-feature set), so NaN vs NaN is not a divergence; a program in which
    // that happened is not followed further because later steps may legitimately observe those bits.
    let mut tainted: u64 = u64::MAX;
    let mut nrec = 0u64;
    loop {
        nrec += 1;
        if nrec > limit {
            break;
        }
        let (x, y) = (read_rec(&mut ra), read_rec(&mut rb));
        let (x, y) = match (x, y) {
            (None, None) => break,
            (Some(x), Some(y)) => (x, y),
            _ => {
                mon.inconclusive.push(format!("{}: traces have different lengths", pair));
                break;
            }
        };
        let mut y = y;
        if mutation != 0 {
            mutate(&mut y, mutation, nrec);
        }
        if x.id != y.id || x.seed != y.seed || x.step != y.step {
            mon.inconclusive.push(format!("{}: traces out of step (the two builds were fed different inputs)", pair));
            break;
        }
        if !exact && x.step != 0 {
            continue; // chained programs are only compared bit-for-bit
        }
        if x.step != 0 && x.seed == tainted {
            continue;
        }
        let name = names.get(&x.id).cloned().unwrap_or_else(|| format!("{:x}", x.id));
        c.event(x.id % 4096, true);
        let inp = || format!("{} input seed {} step {}", name, x.seed, x.step);
        if x.panicked != y.panicked {
            c.violation("divergence", &["panic", &name], inp(), format!("panicked: {}", x.panicked), format!("panicked: {}", y.panicked), "one build panics, the other does not".into());
            continue;
        }
        if x.panicked {
            continue;
        }
        if x.words.len() != y.words.len() {
            if exact || !(x.flip || y.flip) {
                c.violation("divergence", &["shape", &name], inp(), format!("{} words", x.words.len()), format!("{} words", y.words.len()), "Option / discrete outcome differs".into());
            } else {
                c.boundary();
            }
            continue;
        }
        let mut all_equal = true;
        for j in 0..x.words.len() {
            if x.words[j] == y.words[j] {
                continue;
            }
            all_equal = false;
            let k = x.kinds[j];
            if k != 0 && fval(x.words[j], k).is_nan() && fval(y.words[j], k).is_nan() {
                c.count("nan_bits_differ");
                tainted = x.seed;
                continue;
            }
            if exact {
                if c.wants_witness("divergence", &["bits", &name]) {
                    c.violation("divergence", &["bits", &name], inp(), format!("word {} = {:#x} ({})", j, x.words[j], fval(x.words[j], k.max(32))), format!("{:#x} ({})", y.words[j], fval(y.words[j], k.max(32))), "results must be bit-for-bit identical across target-feature sets".into());
                } else {
                    c.st.violations += 1;
                }
                break;
            }
            if x.step == 0 && lane_exact(&name) {
                // single IEEE operations per lane / pure data movement: no re-association, so no slack at all
                let same = k != 0 && { let (a, b) = (fval(x.words[j], k), fval(y.words[j], k)); a == b || (a.is_nan() && b.is_nan()) };
                if same {
                    continue; // +0 vs -0
                }
                c.count("lane-exact entries compared");
                if c.wants_witness("divergence", &["lane_exact", &name]) {
                    c.violation("divergence", &["lane_exact", &name], inp(), format!("word {} = {:#x} ({})", j, x.words[j], fval(x.words[j], k.max(32))), format!("{:#x} ({})", y.words[j], fval(y.words[j], k.max(32))), "an element-wise operation / data movement has no re-associated additions: results must be IEEE-equal in every build".into());
                } else {
                    c.st.violations += 1;
                }
                break;
            }
            if k == 0 {
                if x.flip || y.flip {
                    c.boundary();
                } else if c.wants_witness("divergence", &["discrete", &name]) {
                    c.violation("divergence", &["discrete", &name], inp(), format!("word {} = {}", j, x.words[j]), format!("{}", y.words[j]), "discrete outcome differs although the deciding quantity is not within rounding slack of its threshold".into());
                } else {
                    c.st.violations += 1;
                }
                break;
            }
            let (a, b) = (fval(x.words[j], k), fval(y.words[j], k));
            if a.is_nan() && b.is_nan() {
                continue;
            }
            let eps = if k == 32 { f32::EPSILON as f64 } else { f64::EPSILON };
            let tiny = if k == 32 { 1.2e-38 } else { 2.3e-308 };
            let noise = x.noise.get(j).copied().unwrap_or(0.0).max(y.noise.get(j).copied().unwrap_or(0.0));
            // measured input sensitivity (64 x per ulp) + norm-wise rounding slack relative to the magnitudes the call
            // handles (largest input scalar / output lane): a lane obtained by cancellation carries the rounding
            // error of the larger quantities it was computed from
            let tol = noise + 32.0 * eps * x.scale.max(y.scale).max(a.abs()).max(b.abs()) + tiny;
            let d = (a - b).abs();
            // A sum or product of huge operands overflows in one association order and not in the other
            // ((a + b) + c = inf + -inf = NaN, a + (b + c) = inf; (0 * big) * big = 0, 0 * (big * big) = NaN): when the
            // call's magnitudes are large enough for an intermediate product to overflow, a non-finite result on
            // either side is a consequence of re-association, not a divergence.  Lane-exact entries never get here.
            let overflow_zone = if k == 32 { x.scale.max(y.scale) >= 1e9 } else { x.scale.max(y.scale) >= 1e75 };
            if overflow_zone && (!a.is_finite() || !b.is_finite()) {
                c.boundary();
                c.count("overflow depends on association order");
                continue;
            }
            c.ratio_t("difference / re-association bound", d / tol);
            if !(d <= tol) {
                if x.flip || y.flip {
                    c.boundary(); // a branch flips under the input perturbations: discontinuity within slack
                } else if c.wants_witness("divergence", &["value", &name]) {
                    c.violation("divergence", &["value", &name], inp(), format!("word {} = {:e}", j, a), format!("{:e}", b), format!("differs by {:.3e}, bound {:.3e} (measured change under 64-ulp input perturbations {:.3e} + 32 eps x magnitude scale of the call)", d, tol, noise));
                } else {
                    c.st.violations += 1;
                }
                break;
            }
        }
        if all_equal && x.text != y.text {
            c.violation("divergence", &["format", &name], inp(), format!("text hash {:x}", x.text), format!("{:x}", y.text), "Debug/Display output must be character-identical when the values are".into());
        }
    }
    c.sample(format!("lock-step comparison of traces {} ({})", pair, class));
    mon.end(c);
}

/// debugging aid: `--mode show --filter Type::name --rest <seed>` prints inputs, output and the probe
pub fn show(args: &Args) {
    let f = args.filter.clone().unwrap();
    let seed: u64 = args.rest[0].parse().unwrap();
    for e in entries() {
        if format!("{}::{}", e.ty, e.name) == f {
            let mut s = Src::for_seed(seed);
            s.keep_log = true;
            let o = (e.call)(&mut s);
            println!("inputs {:?}", s.log);
            println!("output {:?}", o.words.iter().zip(o.kinds.iter()).map(|(w, k)| fval(*w, (*k).max(32))).collect::<Vec<_>>());
            for k in 0..K_PERTURB {
                let mut sp = Src::for_seed(seed);
                sp.perturb = Some(vcommon::rng::Rng::new(mix(seed, 77 + k)));
                let op = (e.call)(&mut sp);
                println!("probe  {:?}", op.words.iter().zip(op.kinds.iter()).map(|(w, k)| fval(*w, (*k).max(32))).collect::<Vec<_>>());
            }
        }
    }
}

/// trace writer shared with C20 (same record format, so the same comparator applies)
pub struct TraceSink {
    w: W,
}
impl TraceSink {
    pub fn create(path: &str) -> TraceSink {
        let mut w = W { buf: Vec::new(), f: std::fs::File::create(path).unwrap() };
        w.u(MAGIC);
        w.u(0);
        TraceSink { w }
    }
    pub fn record(&mut self, id: u64, seed: u64, step: u64, o: &Out) {
        // `Out` is moved into a Result-shaped record without cloning the words
        let tmp = Out { words: o.words.clone(), kinds: o.kinds.clone(), text: o.text.clone() };
        self.w.rec(id, seed, step, &Ok(tmp), &[], false, 0.0);
    }
    pub fn finish(&mut self) {
        let b = std::mem::take(&mut self.w.buf);
        self.w.f.write_all(&b).unwrap();
    }
}
pub fn cap_of<T: Cap>(v: &T) -> Out {
    let mut o = Out::new();
    v.cap(&mut o);
    o
}

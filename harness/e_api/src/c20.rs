//! C20: glam outputs satisfy glam preconditions; assertions never change results.
//! A typed program generator over the precondition-carrying operations: every operation draws its
//! operands from pools of values *produced by glam itself* whose kind (unit vector, unit quaternion,
//! rotation matrix, affine matrix, ...) satisfies the documented precondition by construction.
//! In `glam-assert` builds no such program may panic; the same programs are traced in builds with and
//! without the assertions and compared bit-for-bit (`--mode trace` + the C07 comparator).
use crate::c07::{cap_of, TraceSink};
use crate::val::Out;
use glam::*;
use std::panic::{catch_unwind, AssertUnwindSafe};
use vcommon::mon::*;
use vcommon::rng::{hash_str, mix, Rng};

macro_rules! family {
    ($modname:ident, $S:ty, $V2:ident, $V3:ident, $V4:ident, $Q:ident, $M2:ident, $M3:ident, $M4:ident, $A2:ident, $A3:ident, $tag:expr) => {
        pub mod $modname {
            use super::*;
            pub struct Pools {
                pub uv3: Vec<$V3>,
                pub uv2: Vec<$V2>,
                pub v3: Vec<$V3>,
                pub uq: Vec<$Q>,
                pub r3: Vec<$M3>,
                pub am4: Vec<$M4>,
                /// shear-free (scale * rotation * translation) matrices: valid inputs of to_scale_rotation_translation
                pub trs4: Vec<$M4>,
                pub a3: Vec<$A3>,
                pub a2: Vec<$A2>,
            }
            fn keep<T: Copy>(p: &mut Vec<T>, v: T, r: &mut Rng) {
                if p.len() < 12 { p.push(v); } else { let i = r.idx(12); p[i] = v; }
            }
            fn ang(r: &mut Rng) -> $S {
                (match r.below(6) {
                    0 => r.range(-0.01, 0.01),
                    1 => core::f64::consts::PI * r.int_in(-2, 2) as f64 * 0.5 + r.range(-1e-3, 1e-3),
                    // tiny rotations of every magnitude down to the smallest subnormal angle
                    2 => {
                        let kmax = (<$S>::MANTISSA_DIGITS as i32 - <$S>::MIN_EXP) as f64 + 2.0;
                        // half of them where squared magnitudes are subnormal, from full precision down to the last bit
                        let k = if r.bool() { r.range(8.0, kmax) } else { (<$S>::MANTISSA_DIGITS as f64 - <$S>::MIN_EXP as f64) / 2.0 + r.range(-30.0, 1.0) };
                        (-k).exp2() * if r.bool() { 1.0 } else { -1.0 }
                    }
                    _ => r.range(-6.5, 6.5),
                }) as $S
            }
            fn sgn(r: &mut Rng) -> $S {
                if r.below(3) == 0 { -1.0 } else { 1.0 }
            }
            fn vec3(r: &mut Rng) -> $V3 {
                // finite, non-degenerate: includes tiny vectors whose squared length is still a normal number
                let s = match r.below(6) { 0 => 1e-15, 1 => 1e12, 2 => 1e-6, _ => 1.0 } * r.range(0.3, 3.0);
                loop {
                    let v = <$V3>::new((r.normal() * s) as $S, (r.normal() * s) as $S, (r.normal() * s) as $S);
                    if v.length_squared() >= <$S>::MIN_POSITIVE * 16.0 { return v; }
                }
            }
            pub const NOPS: usize = 46;
            macro_rules! inv_extra {
                ($i:expr, $p:ident, $r:ident, $sink:ident) => { inv_extra_impl!($M4, $i, $p, $r, $sink) };
            }
            /// one step of a program; returns (operation name, captured output words)
            pub fn step(p: &mut Pools, r: &mut Rng, sink: &mut dyn FnMut(&'static str, Out)) {
                let op = r.idx(NOPS);
                macro_rules! pick { ($pool:expr) => { $pool[r.idx($pool.len())] }; }
                macro_rules! out { ($name:expr, $v:expr) => { sink($name, cap_of(&$v)) }; }
                let s01 = (match r.below(4) { 0 => 0.0, 1 => 1.0, _ => r.unit() }) as $S;
                match op {
                    0 => { let v = vec3(r).normalize(); keep(&mut p.uv3, v, r); out!("normalize", v); }
                    1 => { if let Some(v) = vec3(r).try_normalize() { keep(&mut p.uv3, v, r); out!("try_normalize", v); } }
                    2 => { let v = vec3(r).normalize_or_zero(); if v != <$V3>::ZERO { keep(&mut p.uv3, v, r); } out!("normalize_or_zero", v); }
                    3 => { let (n, l) = vec3(r).normalize_and_length(); if l > 0.0 { keep(&mut p.uv3, n, r); } out!("normalize_and_length", (n, l)); }
                    4 => { let v = pick!(p.uv3).any_orthonormal_vector(); keep(&mut p.uv3, v, r); out!("any_orthonormal_vector", v); }
                    5 => { let (a, b) = pick!(p.uv3).any_orthonormal_pair(); keep(&mut p.uv3, a, r); keep(&mut p.uv3, b, r); out!("any_orthonormal_pair", (a, b)); }
                    6 => { let v = pick!(p.uq) * pick!(p.uv3); keep(&mut p.uv3, v, r); out!("quat*unit", v); }
                    7 => { let v = vec3(r).reflect(pick!(p.uv3)); keep(&mut p.v3, v, r); out!("reflect", v); }
                    8 => { let eta = r.range(0.4, 1.6) as $S; let v = pick!(p.uv3).refract(pick!(p.uv3), eta); out!("refract", v); }
                    9 => { let v = pick!(p.v3).project_onto_normalized(pick!(p.uv3)); out!("project_onto_normalized", v); let w = pick!(p.v3).reject_from_normalized(pick!(p.uv3)); out!("reject_from_normalized", w); }
                    10 => { let lo = r.range(0.0, 2.0) as $S; let hi = lo + r.range(0.0, 3.0) as $S; let v = pick!(p.v3).clamp_length(lo, hi); keep(&mut p.v3, v, r); out!("clamp_length", v); let w = pick!(p.v3).clamp_length_max(hi); out!("clamp_length_max", w); let x = pick!(p.v3).clamp_length_min(lo); out!("clamp_length_min", x); }
                    11 => { let (a, b) = (vec3(r), vec3(r)); let lo = a.min(b); let hi = a.max(b); let v = pick!(p.v3).clamp(lo, hi); out!("clamp", v); }
                    12 => { let v = pick!(p.v3).project_onto(vec3(r)); out!("project_onto", v); }
                    13 => { let q = <$Q>::from_axis_angle(pick!(p.uv3), ang(r)); keep(&mut p.uq, q, r); out!("Quat::from_axis_angle", q); }
                    14 => { let a = ang(r); let q = match r.below(3) { 0 => <$Q>::from_rotation_x(a), 1 => <$Q>::from_rotation_y(a), _ => <$Q>::from_rotation_z(a) }; keep(&mut p.uq, q, r); out!("Quat::from_rotation_*", q); }
                    15 => { let q = <$Q>::from_euler(crate::val::Draw::draw(&mut crate::val::Src::new(r.next_u64(), crate::val::Mode::Ordinary)), ang(r), ang(r), ang(r)); keep(&mut p.uq, q, r); out!("Quat::from_euler", q); }
                    16 => { let q = <$Q>::from_rotation_arc(pick!(p.uv3), pick!(p.uv3)); keep(&mut p.uq, q, r); out!("Quat::from_rotation_arc", q); }
                    17 => { let a = pick!(p.uv3); let q = <$Q>::from_rotation_arc(a, -a); keep(&mut p.uq, q, r); out!("Quat::from_rotation_arc(opposite)", q); let q2 = <$Q>::from_rotation_arc_colinear(a, pick!(p.uv3)); keep(&mut p.uq, q2, r); out!("Quat::from_rotation_arc_colinear", q2); }
                    18 => { let q = <$Q>::from_rotation_arc_2d(pick!(p.uv2), pick!(p.uv2)); keep(&mut p.uq, q, r); out!("Quat::from_rotation_arc_2d", q); }
                    19 => { let (d, u) = (pick!(p.uv3), pick!(p.uv3)); if d.cross(u).length() > 1e-2 { let q = if r.bool() { <$Q>::look_to_rh(d, u) } else { <$Q>::look_to_lh(d, u) }; keep(&mut p.uq, q, r); out!("Quat::look_to", q); } }
                    20 => { let q = pick!(p.uq) * pick!(p.uq); keep(&mut p.uq, q, r); out!("quat*quat", q); }
                    21 => { let q = pick!(p.uq).inverse(); keep(&mut p.uq, q, r); out!("Quat::inverse", q); let c = pick!(p.uq).conjugate(); keep(&mut p.uq, c, r); out!("Quat::conjugate", c); }
                    22 => { let q = pick!(p.uq).lerp(pick!(p.uq), s01); keep(&mut p.uq, q, r); out!("Quat::lerp", q); }
                    23 => { let sx = if r.below(3) == 0 { r.range(-8.0, 8.0) as $S } else { s01 }; let q = pick!(p.uq).slerp(pick!(p.uq), sx); keep(&mut p.uq, q, r); out!("Quat::slerp", q); }
                    24 => { let q = pick!(p.uq).rotate_towards(pick!(p.uq), r.range(0.0, 3.5) as $S); keep(&mut p.uq, q, r); out!("Quat::rotate_towards", q); }
                    25 => { if r.bool() { let q0 = <$Q>::from_axis_angle(pick!(p.uv3), ang(r)); keep(&mut p.uq, q0, r); let (ax0, an0) = q0.to_axis_angle(); keep(&mut p.uv3, ax0, r); let q1 = <$Q>::from_axis_angle(ax0, an0); out!("from_axis_angle->to_axis_angle->from_axis_angle", q1); }
                            let (ax, an) = pick!(p.uq).to_axis_angle(); let q = <$Q>::from_axis_angle(ax, an); keep(&mut p.uq, q, r); keep(&mut p.uv3, ax, r); out!("to_axis_angle->from_axis_angle", q); }
                    26 => { let sa = pick!(p.uq).to_scaled_axis(); let q = <$Q>::from_scaled_axis(sa); keep(&mut p.uq, q, r); out!("to_scaled_axis->from_scaled_axis", q); let v = vec3(r) * (ang(r) as $S).abs().min(1.0); let q2 = <$Q>::from_scaled_axis(v); keep(&mut p.uq, q2, r); out!("from_scaled_axis", q2); }
                    27 => { let e = pick!(p.uq).to_euler(EulerRot::YXZ); out!("Quat::to_euler", e); let a = pick!(p.uq).angle_between(pick!(p.uq)); out!("Quat::angle_between", a); }
                    28 => { let m = <$M3>::from_quat(pick!(p.uq)); keep(&mut p.r3, m, r); out!("Mat3::from_quat", m); }
                    29 => { let m = <$M3>::from_axis_angle(pick!(p.uv3), ang(r)); keep(&mut p.r3, m, r); out!("Mat3::from_axis_angle", m); }
                    30 => { let q = <$Q>::from_mat3(&pick!(p.r3)); keep(&mut p.uq, q, r); out!("Quat::from_mat3", q); }
                    31 => { let m = pick!(p.r3) * pick!(p.r3); keep(&mut p.r3, m, r); out!("Mat3*Mat3", m); let t = pick!(p.r3).transpose(); keep(&mut p.r3, t, r); let i = pick!(p.r3).inverse(); out!("Mat3::inverse", i); }
                    32 => { let e = pick!(p.r3).to_euler(EulerRot::ZYX); let m = <$M3>::from_euler(EulerRot::ZYX, e.0, e.1, e.2); keep(&mut p.r3, m, r); out!("Mat3::to_euler->from_euler", m); }
                    33 => { let m = <$M4>::from_rotation_translation(pick!(p.uq), vec3(r)); keep(&mut p.am4, m, r); keep(&mut p.trs4, m, r); out!("Mat4::from_rotation_translation", m); }
                    34 => { let sc = <$V3>::new(r.logmag(-3.0, 3.0) as $S * sgn(r), r.logmag(-3.0, 3.0) as $S * sgn(r), r.logmag(-3.0, 3.0) as $S * sgn(r)); let m = <$M4>::from_scale_rotation_translation(sc, pick!(p.uq), vec3(r) * 1e-3); keep(&mut p.am4, m, r); keep(&mut p.trs4, m, r); out!("Mat4::from_scale_rotation_translation", m); let a = <$A3>::from_scale_rotation_translation(sc, pick!(p.uq), pick!(p.v3)); keep(&mut p.a3, a, r); out!("Affine3::from_scale_rotation_translation", a); }
                    35 => { let (d, u) = (pick!(p.uv3), pick!(p.uv3)); if d.cross(u).length() > 1e-2 { let m = if r.bool() { <$M4>::look_to_rh(pick!(p.v3), d, u) } else { <$M4>::look_to_lh(pick!(p.v3), d, u) }; keep(&mut p.am4, m, r); keep(&mut p.trs4, m, r); out!("Mat4::look_to", m); let a = <$A3>::look_to_rh(pick!(p.v3), d, u); keep(&mut p.a3, a, r); out!("Affine3::look_to_rh", a); } }
                    36 => { let (e, c0) = (pick!(p.v3), pick!(p.v3)); let u = pick!(p.uv3); let d = c0 - e; if d.length() > 1e-3 * (e.length() + c0.length()) && d.normalize().cross(u).length() > 1e-2 { let m = <$M4>::look_at_rh(e, c0, u); keep(&mut p.am4, m, r); out!("Mat4::look_at_rh", m); let q = <$Q>::look_at_lh(e, c0, u); keep(&mut p.uq, q, r); out!("Quat::look_at_lh", q); } }
                    37 => { let m = pick!(p.am4); let v = m.transform_point3(pick!(p.v3)); out!("Mat4::transform_point3", v); let w = m.transform_vector3(pick!(p.v3)); out!("Mat4::transform_vector3", w); }
                    38 => { let m = pick!(p.am4) * pick!(p.am4); if m.is_finite() { keep(&mut p.am4, m, r); } out!("Mat4*Mat4", m); }
                    39 => { let m = pick!(p.am4); if m.determinant() != 0.0 { let i = m.inverse(); out!("Mat4::inverse", i); if i.is_finite() { let v = i.transform_point3(pick!(p.uv3)); out!("inverse.transform_point3", v); let w = i.transform_vector3(pick!(p.uv3)); out!("inverse.transform_vector3", w); inv_extra!(i, p, r, sink); } } }
                    40 => { let m = pick!(p.trs4); if m.determinant() != 0.0 && m.is_finite() { let (s, q, t) = m.to_scale_rotation_translation(); if s.is_finite() && s.cmpne(<$V3>::ZERO).all() { keep(&mut p.uq, q, r); let back = <$M4>::from_scale_rotation_translation(s, q, t); keep(&mut p.am4, back, r); keep(&mut p.trs4, back, r); out!("Mat4::to_srt->from_srt", back); } } }
                    41 => { let a = pick!(p.a3); let m = <$M4>::from(a); keep(&mut p.am4, m, r); let q = <$Q>::from_affine3(&<$A3>::from_quat(pick!(p.uq))); keep(&mut p.uq, q, r); out!("Quat::from_affine3", q); let i = a.inverse(); if i.is_finite() { out!("Affine3::inverse", i); } }
                    42 => { let a = pick!(p.a3); if a.matrix3.determinant() != 0.0 && a.is_finite() { let (s, q, t) = a.to_scale_rotation_translation(); if s.is_finite() && s.cmpne(<$V3>::ZERO).all() { keep(&mut p.uq, q, r); out!("Affine3::to_srt", (s, q, t)); } } }
                    43 => { let v = <$V2>::from_angle(ang(r)); keep(&mut p.uv2, v, r); let w = pick!(p.uv2).rotate(pick!(p.uv2)); keep(&mut p.uv2, w, r); out!("Vec2::rotate", w); let n = <$V2>::new(r.normal() as $S, (r.normal() + 0.1) as $S).normalize(); keep(&mut p.uv2, n, r); }
                    44 => { let a = <$A2>::from_scale_angle_translation(<$V2>::new(r.logmag(-3.0, 3.0) as $S * sgn(r), r.logmag(-3.0, 3.0) as $S * sgn(r)), ang(r), <$V2>::new(r.normal() as $S, r.normal() as $S)); keep(&mut p.a2, a, r); let (s, an, t) = pick!(p.a2).to_scale_angle_translation(); out!("Affine2::to_sat", (s, an, t)); let i = pick!(p.a2).inverse(); out!("Affine2::inverse", i); }
                    _ => { let q = <$Q>::from_mat4(&<$M4>::from_quat(pick!(p.uq))); keep(&mut p.uq, q, r); out!("Quat::from_mat4", q); let m = <$M2>::from_scale_angle(<$V2>::new(2.0, 3.0), ang(r)); out!("Mat2::from_scale_angle", m.inverse()); let pm = <$M4>::perspective_rh(1.0, 1.5, 0.1, 100.0); out!("project_point3", pm.project_point3(pick!(p.uv3))); }
                }
            }
            /// Direct check of every pooled value against the precondition predicate it will be used under.
            /// Returns the largest margin consumed (1.0 = exactly at the tolerance) and a description of the worst value.
            pub fn check(p: &Pools) -> (f64, String) {
                let mut worst = (0.0f64, String::new());
                let mut upd = |m: f64, d: String| { if m > worst.0 || m.is_nan() { worst = (if m.is_nan() { f64::INFINITY } else { m }, d); } };
                for v in &p.uv3 { upd(((v.length_squared() - 1.0).abs() as f64) / 2e-4, format!("unit Vec3 {:?}", v)); }
                for v in &p.uv2 { upd(((v.length_squared() - 1.0).abs() as f64) / 2e-4, format!("unit Vec2 {:?}", v)); }
                for q in &p.uq { upd(((q.length_squared() - 1.0).abs() as f64) / 2e-4, format!("unit Quat {:?}", q)); if !q.is_normalized() { upd(f64::INFINITY, format!("Quat {:?} produced as a unit quaternion fails is_normalized()", q)); } }
                for v in &p.uv3 { if !v.is_normalized() { upd(f64::INFINITY, format!("{:?} produced as a unit vector fails is_normalized()", v)); } }
                for m in &p.r3 { for c in 0..3 { upd(((m.col(c).length_squared() - 1.0).abs() as f64) / 2e-4, format!("rotation Mat3 {:?}", m)); } }
                for m in &p.am4 { let r = m.row(3); let d = (r - <$V4>::W).abs().max_element() as f64; upd(d / 1e-6, format!("affine Mat4 {:?}", m)); }
                worst
            }
            pub fn fresh() -> Pools {
                Pools { uv3: vec![<$V3>::X, <$V3>::NEG_Z, <$V3>::new(0.6, 0.0, 0.8)], uv2: vec![<$V2>::X, <$V2>::new(0.0, -1.0)], v3: vec![<$V3>::new(1.0, 2.0, 3.0), <$V3>::new(-0.5, 0.25, 4.0)], uq: vec![<$Q>::IDENTITY, <$Q>::from_xyzw(0.0, 1.0, 0.0, 0.0)], r3: vec![<$M3>::IDENTITY], am4: vec![<$M4>::IDENTITY], trs4: vec![<$M4>::IDENTITY], a3: vec![<$A3>::IDENTITY], a2: vec![<$A2>::IDENTITY] }
            }
            pub const TAG: &str = $tag;
        }
    };
}
macro_rules! inv_extra_impl {
    (Mat4, $i:expr, $p:ident, $r:ident, $sink:ident) => {{
        let k = $r.idx($p.uv3.len());
        let u = glam::Vec3A::from($p.uv3[k]);
        $sink("inverse.transform_point3a", cap_of(&$i.transform_point3a(u)));
        $sink("inverse.transform_vector3a", cap_of(&$i.transform_vector3a(u)));
    }};
    ($other:ident, $i:expr, $p:ident, $r:ident, $sink:ident) => {{}};
}
family!(f32f, f32, Vec2, Vec3, Vec4, Quat, Mat2, Mat3, Mat4, Affine2, Affine3A, "f32");
family!(f64f, f64, DVec2, DVec3, DVec4, DQuat, DMat2, DMat3, DMat4, DAffine2, DAffine3, "f64");

fn asserts_on() -> bool {
    // Vec3::ZERO.normalize() asserts the result is finite only when glam-assert is compiled in
    catch_unwind(|| std::hint::black_box(Vec3::ZERO).normalize()).is_err()
}

pub fn run(mon: &mut Monitor, args: &Args) {
    let on = asserts_on();
    mon.notes.push(format!("glam assertions compiled in: {}", on));
    mon.canary("a pooled quaternion 1e-4 away from unit length squared tolerance", |m| {
        if let Some(mut c) = m.begin("Canary", "check") {
            let mut p = f32f::fresh();
            p.uq.push(Quat::from_xyzw(0.0, 0.0, 0.0, 1.00015));
            let (mg, d) = f32f::check(&p);
            if mg > 1.0 { c.violation("output_violates_precondition", &[], d, String::new(), String::new(), String::new()); }
            c.event(0, true);
            m.end(c);
        }
    });
    mon.canary("an affine matrix whose last row drifted by 2e-6", |m| {
        if let Some(mut c) = m.begin("Canary", "check") {
            let mut p = f64f::fresh();
            let mut mm = DMat4::IDENTITY;
            mm.x_axis.w = 2e-6;
            p.am4.push(mm);
            let (mg, d) = f64f::check(&p);
            if mg > 1.0 { c.violation("output_violates_precondition", &[], d, String::new(), String::new(), String::new()); }
            c.event(0, true);
            m.end(c);
        }
    });
    let tracing = args.mode.as_deref() == Some("trace");
    let mut sink = if tracing { Some(TraceSink::create(args.trace.as_ref().expect("--trace"))) } else { None };
    let nprog = if tracing { mon.n(20_000, 400_000) } else { mon.n(40_000, 2_000_000) };
    macro_rules! chains {
        ($m:ident) => {{
            let c = mon.begin_unsharded($m::TAG, if tracing { "programs (trace)" } else { "programs of <= 12 precondition-carrying operations" });
            if let Some(mut c) = c {
                let base = mix(mon.seed, hash_str($m::TAG));
                for pidx in 0..nprog {
                    if !tracing && pidx % mon.shard.1 as u64 != mon.shard.0 as u64 {
                        continue;
                    }
                    let sd = mix(base, pidx);
                    let mut r = Rng::new(sd);
                    let mut pools = $m::fresh();
                    let len = 2 + r.idx(11);
                    let mut log: Vec<&'static str> = vec![];
                    let mut stepno = 0u64;
                    let mut margin = (0.0f64, String::new(), 0usize);
                    let res = catch_unwind(AssertUnwindSafe(|| {
                        for _ in 0..len {
                            $m::step(&mut pools, &mut r, &mut |name, words: Out| {
                                log.push(name);
                                stepno += 1;
                                if let Some(s) = sink.as_mut() { s.record(hash_str(name), sd, stepno, &words); }
                                let _ = &words;
                            });
                            let (m, d) = $m::check(&pools);
                            if m > margin.0 { margin = (m, d, log.len()); }
                        }
                    }));
                    c.event(len as u64 * 64 + (pidx % 64), true);
                    c.ratio_t("precondition margin consumed", margin.0);
                    if margin.0 > 1.0 {
                        if c.wants_witness("output_violates_precondition", &[]) {
                            c.violation("output_violates_precondition", &[log.get(margin.2.saturating_sub(1)).copied().unwrap_or("?")], format!("{} program seed {} ops {:?}", $m::TAG, sd, &log[..margin.2.min(log.len())]), margin.1.clone(), "value within the tolerance of the precondition it will be used under".into(), format!("margin consumed {:.2} (1.0 = at the is_normalized 2e-4 / affine-row 1e-6 tolerance)", margin.0));
                        } else {
                            c.st.violations += 1;
                        }
                    }
                    if res.is_err() {
                        let msg = last_panic();
                        if c.wants_witness("panic_in_valid_chain", &[]) {
                            c.violation("panic_in_valid_chain", &[if on { "assert-build" } else { "plain-build" }], format!("{} program seed {} after ops {:?}", $m::TAG, sd, log), msg, "no panic".into(), "a chain of operations on glam's own outputs met a glam precondition that those outputs do not satisfy".into());
                        } else {
                            c.st.violations += 1;
                        }
                    }
                    if c.need_sample() && pidx == 3 { c.sample(format!("{} program: {:?}", $m::TAG, log)); }
                }
                mon.end(c);
            }
        }};
    }
    chains!(f32f);
    chains!(f64f);
    {
        use crate::c20v::{d2, d3, d4, v2, v3, v3a, v4};
        chains!(v2);
        chains!(v3);
        chains!(v3a);
        chains!(v4);
        chains!(d2);
        chains!(d3);
        chains!(d4);
    }
    if let Some(s) = sink.as_mut() { s.finish(); }
    if !tracing {
        documented_violations(mon, on);
        crate::c20v::documented_violations(mon, on);
        crate::c20v::normalize_windows(mon);
        crate::c20v::valid_boundaries(mon);
        crate::c20v::inverse_is_affine(mon);
    }
}

/// Documented precondition violations: must panic with the assertions compiled in, must not without.
fn documented_violations(mon: &mut Monitor, on: bool) {
    if let Some(mut c) = mon.begin("documented violations", if on { "must panic (glam-assert)" } else { "must not panic (plain build)" }) {
        let cases: Vec<(&'static str, Box<dyn Fn()>)> = vec![
            ("Quat::from_axis_angle(non-unit axis)", Box::new(|| { let _ = std::hint::black_box(Quat::from_axis_angle(Vec3::new(1.0, 1.0, 0.0), 1.0)); })),
            ("Mat3::from_axis_angle(non-unit axis)", Box::new(|| { let _ = std::hint::black_box(Mat3::from_axis_angle(Vec3::new(0.0, 2.0, 0.0), 1.0)); })),
            ("non-unit quat * vec", Box::new(|| { let _ = std::hint::black_box(Quat::from_xyzw(1.0, 1.0, 0.0, 0.0) * Vec3::X); })),
            ("Mat3::from_quat(non-unit)", Box::new(|| { let _ = std::hint::black_box(Mat3::from_quat(Quat::from_xyzw(0.0, 0.0, 0.0, 2.0))); })),
            ("Vec3::clamp(min > max)", Box::new(|| { let _ = std::hint::black_box(Vec3::ONE.clamp(Vec3::ONE, Vec3::ZERO)); })),
            ("Vec3::clamp_length(negative bound)", Box::new(|| { let _ = std::hint::black_box(Vec3::ONE.clamp_length(-1.0, 2.0)); })),
            ("Vec3::clamp_length(min > max)", Box::new(|| { let _ = std::hint::black_box(Vec3::ONE.clamp_length(3.0, 2.0)); })),
            ("Vec3::clamp_length_max(negative)", Box::new(|| { let _ = std::hint::black_box(Vec3::ONE.clamp_length_max(-2.0)); })),
            ("Vec3::project_onto(zero)", Box::new(|| { let _ = std::hint::black_box(Vec3::ONE.project_onto(Vec3::ZERO)); })),
            ("Vec3::project_onto_normalized(non-unit)", Box::new(|| { let _ = std::hint::black_box(Vec3::ONE.project_onto_normalized(Vec3::new(2.0, 0.0, 0.0))); })),
            ("Vec3::reflect(non-unit normal)", Box::new(|| { let _ = std::hint::black_box(Vec3::ONE.reflect(Vec3::new(0.0, 3.0, 0.0))); })),
            ("Vec3::ZERO.normalize()", Box::new(|| { let _ = std::hint::black_box(std::hint::black_box(Vec3::ZERO).normalize()); })),
            ("Vec3::any_orthonormal_vector(non-unit)", Box::new(|| { let _ = std::hint::black_box(Vec3::new(1.0, 2.0, 3.0).any_orthonormal_vector()); })),
            ("Mat4::look_to_rh(non-unit dir)", Box::new(|| { let _ = std::hint::black_box(Mat4::look_to_rh(Vec3::ZERO, Vec3::new(0.0, 0.0, -2.0), Vec3::Y)); })),
            ("Mat4::transform_point3(projective matrix)", Box::new(|| { let _ = std::hint::black_box(Mat4::perspective_rh(1.0, 1.0, 0.1, 10.0).transform_point3(Vec3::ONE)); })),
            ("Mat4::perspective_rh(z_near = 0)", Box::new(|| { let _ = std::hint::black_box(Mat4::perspective_rh(1.0, 1.0, 0.0, 10.0)); })),
            ("Mat4::inverse(singular)", Box::new(|| { let _ = std::hint::black_box(std::hint::black_box(Mat4::ZERO).inverse()); })),
            ("Mat4::to_scale_rotation_translation(singular)", Box::new(|| { let _ = std::hint::black_box(std::hint::black_box(Mat4::ZERO).to_scale_rotation_translation()); })),
            ("Quat::slerp(non-unit)", Box::new(|| { let _ = std::hint::black_box(Quat::from_xyzw(0.0, 0.0, 0.0, 3.0).slerp(Quat::IDENTITY, 0.5)); })),
            ("Quat::from_rotation_arc(non-unit)", Box::new(|| { let _ = std::hint::black_box(Quat::from_rotation_arc(Vec3::new(2.0, 0.0, 0.0), Vec3::Y)); })),
            ("DQuat::from_axis_angle(non-unit axis)", Box::new(|| { let _ = std::hint::black_box(DQuat::from_axis_angle(DVec3::new(1.0, 1.0, 0.0), 1.0)); })),
            ("DVec3::clamp_length(min > max)", Box::new(|| { let _ = std::hint::black_box(DVec3::ONE.clamp_length(3.0, 2.0)); })),
            ("DMat4::inverse(singular)", Box::new(|| { let _ = std::hint::black_box(std::hint::black_box(DMat4::ZERO).inverse()); })),
            ("Affine3A::inverse(singular)", Box::new(|| { let _ = std::hint::black_box(std::hint::black_box(Affine3A::ZERO).inverse()); })),
        ];
        for (name, f) in &cases {
            let r = catch_unwind(AssertUnwindSafe(|| f()));
            c.event(hash_str(name), true);
            if r.is_err() != on {
                c.violation(if on { "missing_assertion" } else { "panic_without_asserts" }, &[name], name.to_string(), if r.is_err() { last_panic() } else { "returned".into() }, if on { "panic".into() } else { "no panic".into() }, "documented precondition violations panic exactly when the assertions are compiled in".into());
            } else if on {
                c.st.panics_expected += 1;
            }
        }
        c.sample(format!("{} documented violations (non-unit axis, min > max, negative clamp bounds, zero projection target, singular inverse, ...)", cases.len()));
        mon.end(c);
    }
}

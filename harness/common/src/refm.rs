//! Reference linear algebra over `Real` (f64 for f32 APIs, double-double for f64 APIs).
//! Shares no code with glam. Matrices are column-major: `m.a[c][r]`.

use crate::dd::Real;

#[derive(Clone, Copy, Debug)]
pub struct M<R: Real> {
    pub n: usize,
    pub a: [[R; 4]; 4],
}

impl<R: Real> M<R> {
    pub fn zero(n: usize) -> Self {
        M { n, a: [[R::zero(); 4]; 4] }
    }
    pub fn ident(n: usize) -> Self {
        let mut m = Self::zero(n);
        for i in 0..n {
            m.a[i][i] = R::one();
        }
        m
    }
    /// from a column-major flat list of f64 values
    pub fn from_cols(n: usize, v: &[f64]) -> Self {
        let mut m = Self::zero(n);
        for c in 0..n {
            for r in 0..n {
                m.a[c][r] = R::from_f64(v[c * n + r]);
            }
        }
        m
    }
    pub fn at(&self, r: usize, c: usize) -> R {
        self.a[c][r]
    }
    pub fn set(&mut self, r: usize, c: usize, v: R) {
        self.a[c][r] = v;
    }
    pub fn mul(&self, o: &M<R>) -> M<R> {
        let n = self.n;
        let mut m = Self::zero(n);
        for c in 0..n {
            for r in 0..n {
                let mut s = R::zero();
                for k in 0..n {
                    s = s + self.a[k][r] * o.a[c][k];
                }
                m.a[c][r] = s;
            }
        }
        m
    }
    pub fn abs(&self) -> M<R> {
        let mut m = *self;
        for c in 0..self.n {
            for r in 0..self.n {
                m.a[c][r] = self.a[c][r].abs_();
            }
        }
        m
    }
    pub fn mul_vec(&self, v: &[R]) -> Vec<R> {
        let n = self.n;
        (0..n)
            .map(|r| {
                let mut s = R::zero();
                for c in 0..n {
                    s = s + self.a[c][r] * v[c];
                }
                s
            })
            .collect()
    }
    pub fn transpose(&self) -> M<R> {
        let mut m = Self::zero(self.n);
        for c in 0..self.n {
            for r in 0..self.n {
                m.a[c][r] = self.a[r][c];
            }
        }
        m
    }
    fn minor(&self, rr: usize, cc: usize) -> M<R> {
        let n = self.n;
        let mut m = Self::zero(n - 1);
        let mut ci = 0;
        for c in 0..n {
            if c == cc {
                continue;
            }
            let mut ri = 0;
            for r in 0..n {
                if r == rr {
                    continue;
                }
                m.a[ci][ri] = self.a[c][r];
                ri += 1;
            }
            ci += 1;
        }
        m
    }
    pub fn det(&self) -> R {
        match self.n {
            1 => self.a[0][0],
            2 => self.a[0][0] * self.a[1][1] - self.a[1][0] * self.a[0][1],
            n => {
                let mut s = R::zero();
                for c in 0..n {
                    let t = self.a[c][0] * self.minor(0, c).det();
                    if c % 2 == 0 {
                        s = s + t;
                    } else {
                        s = s - t;
                    }
                }
                s
            }
        }
    }
    /// Sum of absolute values of all terms of the Leibniz expansion (the permanent of |M|).
    pub fn det_abs_terms(&self) -> R {
        match self.n {
            1 => self.a[0][0].abs_(),
            2 => (self.a[0][0] * self.a[1][1]).abs_() + (self.a[1][0] * self.a[0][1]).abs_(),
            n => {
                let mut s = R::zero();
                for c in 0..n {
                    s = s + self.a[c][0].abs_() * self.minor(0, c).det_abs_terms();
                }
                s
            }
        }
    }
    pub fn adjugate(&self) -> M<R> {
        let n = self.n;
        let mut m = Self::zero(n);
        if n == 1 {
            m.a[0][0] = R::one();
            return m;
        }
        for c in 0..n {
            for r in 0..n {
                // adj[r][c] = (-1)^(r+c) * minor(c, r)
                let d = self.minor(c, r).det();
                m.set(r, c, if (r + c) % 2 == 0 { d } else { -d });
            }
        }
        m
    }
    /// permanent-style magnitude of each adjugate entry (sum of |terms|)
    pub fn adjugate_abs_terms(&self) -> M<R> {
        let n = self.n;
        let mut m = Self::zero(n);
        if n == 1 {
            m.a[0][0] = R::one();
            return m;
        }
        for c in 0..n {
            for r in 0..n {
                m.set(r, c, self.minor(c, r).det_abs_terms());
            }
        }
        m
    }
    pub fn inverse(&self) -> M<R> {
        let d = self.det();
        let adj = self.adjugate();
        let mut m = Self::zero(self.n);
        for c in 0..self.n {
            for r in 0..self.n {
                m.a[c][r] = adj.a[c][r] / d;
            }
        }
        m
    }
    pub fn to_f64(&self) -> Vec<f64> {
        let mut v = Vec::new();
        for c in 0..self.n {
            for r in 0..self.n {
                v.push(self.a[c][r].to_f64());
            }
        }
        v
    }
    pub fn max_abs(&self) -> f64 {
        self.to_f64().iter().fold(0.0, |m, x| m.max(x.abs()))
    }
}

pub fn vdot<R: Real>(a: &[R], b: &[R]) -> R {
    let mut s = R::zero();
    for i in 0..a.len() {
        s = s + a[i] * b[i];
    }
    s
}
pub fn vdot_abs<R: Real>(a: &[R], b: &[R]) -> f64 {
    let mut s = 0.0;
    for i in 0..a.len() {
        s += (a[i] * b[i]).to_f64().abs();
    }
    s
}
pub fn vcross<R: Real>(a: &[R], b: &[R]) -> [R; 3] {
    [a[1] * b[2] - a[2] * b[1], a[2] * b[0] - a[0] * b[2], a[0] * b[1] - a[1] * b[0]]
}
pub fn vlen<R: Real>(a: &[R]) -> R {
    vdot(a, a).sqrt_()
}
pub fn vr<R: Real>(a: &[f64]) -> Vec<R> {
    a.iter().map(|x| R::from_f64(*x)).collect()
}
pub fn vscale<R: Real>(a: &[R], s: R) -> Vec<R> {
    a.iter().map(|x| *x * s).collect()
}
pub fn vadd<R: Real>(a: &[R], b: &[R]) -> Vec<R> {
    a.iter().zip(b).map(|(x, y)| *x + *y).collect()
}
pub fn vsub<R: Real>(a: &[R], b: &[R]) -> Vec<R> {
    a.iter().zip(b).map(|(x, y)| *x - *y).collect()
}

/// angle between two vectors, well conditioned everywhere: atan2(|a x b|, a . b)  (2-D and 3-D)
pub fn angle_between<R: Real>(a: &[R], b: &[R]) -> f64 {
    let d = vdot(a, b).to_f64();
    let c = if a.len() == 2 {
        (a[0] * b[1] - a[1] * b[0]).to_f64().abs()
    } else {
        let c = vcross(a, b);
        vlen(&c).to_f64()
    };
    c.atan2(d)
}

// ---- quaternions as [x, y, z, w] -------------------------------------------------------------
pub fn qmul<R: Real>(a: &[R; 4], b: &[R; 4]) -> [R; 4] {
    let (ax, ay, az, aw) = (a[0], a[1], a[2], a[3]);
    let (bx, by, bz, bw) = (b[0], b[1], b[2], b[3]);
    [
        aw * bx + ax * bw + ay * bz - az * by,
        aw * by - ax * bz + ay * bw + az * bx,
        aw * bz + ax * by - ay * bx + az * bw,
        aw * bw - ax * bx - ay * by - az * bz,
    ]
}
pub fn qmul_abs_terms<R: Real>(a: &[R; 4], b: &[R; 4]) -> [f64; 4] {
    let f = |x: R, y: R| (x * y).to_f64().abs();
    let (ax, ay, az, aw) = (a[0], a[1], a[2], a[3]);
    let (bx, by, bz, bw) = (b[0], b[1], b[2], b[3]);
    [
        f(aw, bx) + f(ax, bw) + f(ay, bz) + f(az, by),
        f(aw, by) + f(ax, bz) + f(ay, bw) + f(az, bx),
        f(aw, bz) + f(ax, by) + f(ay, bx) + f(az, bw),
        f(aw, bw) + f(ax, bx) + f(ay, by) + f(az, bz),
    ]
}
pub fn qconj<R: Real>(a: &[R; 4]) -> [R; 4] {
    [-a[0], -a[1], -a[2], a[3]]
}
/// rotate v by (not necessarily unit) quaternion: vector part of q v q^-1
pub fn qrot<R: Real>(q: &[R; 4], v: &[R]) -> [R; 3] {
    let n2 = q[0] * q[0] + q[1] * q[1] + q[2] * q[2] + q[3] * q[3];
    let p = [v[0], v[1], v[2], R::zero()];
    let t = qmul(&qmul(q, &p), &qconj(q));
    [t[0] / n2, t[1] / n2, t[2] / n2]
}
/// rotation matrix (3x3) of a unit quaternion (normalised internally)
pub fn qmat<R: Real>(q: &[R; 4]) -> M<R> {
    let mut m = M::zero(3);
    for c in 0..3 {
        let mut e = [R::zero(); 3];
        e[c] = R::one();
        let col = qrot(q, &e);
        for r in 0..3 {
            m.a[c][r] = col[r];
        }
    }
    m
}
/// sin and cos of an angle given as f64, lifted to R (see DESIGN: the same library value glam receives)
pub fn sincos<R: Real>(angle: f64) -> (R, R) {
    let (s, c) = angle.sin_cos();
    (R::from_f64(s), R::from_f64(c))
}
/// Rodrigues rotation matrix about a unit axis
pub fn rot_axis_angle<R: Real>(axis: &[R], angle: f64) -> M<R> {
    let (s, c) = sincos::<R>(angle);
    let l = vlen(axis);
    let (x, y, z) = (axis[0] / l, axis[1] / l, axis[2] / l);
    let omc = R::one() - c;
    let mut m = M::zero(3);
    m.set(0, 0, c + x * x * omc);
    m.set(0, 1, x * y * omc - z * s);
    m.set(0, 2, x * z * omc + y * s);
    m.set(1, 0, y * x * omc + z * s);
    m.set(1, 1, c + y * y * omc);
    m.set(1, 2, y * z * omc - x * s);
    m.set(2, 0, z * x * omc - y * s);
    m.set(2, 1, z * y * omc + x * s);
    m.set(2, 2, c + z * z * omc);
    m
}
pub fn rot_elem<R: Real>(axis: usize, angle: f64) -> M<R> {
    let mut e = [R::zero(); 3];
    e[axis] = R::one();
    rot_axis_angle(&e, angle)
}
/// embed a 3x3 into 4x4 with translation
pub fn affine4<R: Real>(m3: &M<R>, t: &[R]) -> M<R> {
    let mut m = M::ident(4);
    for c in 0..3 {
        for r in 0..3 {
            m.a[c][r] = m3.a[c][r];
        }
    }
    for r in 0..3 {
        m.a[3][r] = t[r];
    }
    m
}
/// rotation angle between two rotation matrices: angle of A^T B, via atan2 on the skew part and trace
pub fn rot_angle_between<R: Real>(a: &M<R>, b: &M<R>) -> f64 {
    let d = a.transpose().mul(b);
    let tr = (d.at(0, 0) + d.at(1, 1) + d.at(2, 2)).to_f64();
    let sx = (d.at(2, 1) - d.at(1, 2)).to_f64();
    let sy = (d.at(0, 2) - d.at(2, 0)).to_f64();
    let sz = (d.at(1, 0) - d.at(0, 1)).to_f64();
    let s = (sx * sx + sy * sy + sz * sz).sqrt() * 0.5;
    s.atan2((tr - 1.0) * 0.5)
}

//! Double-double arithmetic (~106 bits) and the `Real` abstraction the reference
//! models are written against: f64 when checking f32 APIs, DD when checking f64 APIs.

use core::ops::{Add, Div, Mul, Neg, Sub};

#[derive(Clone, Copy, Debug, PartialEq)]
pub struct DD {
    pub hi: f64,
    pub lo: f64,
}

#[inline]
fn two_sum(a: f64, b: f64) -> (f64, f64) {
    let s = a + b;
    let bb = s - a;
    let e = (a - (s - bb)) + (b - bb);
    (s, e)
}
#[inline]
fn quick_two_sum(a: f64, b: f64) -> (f64, f64) {
    let s = a + b;
    let e = b - (s - a);
    (s, e)
}
#[inline]
fn two_prod(a: f64, b: f64) -> (f64, f64) {
    let p = a * b;
    let e = a.mul_add(b, -p);
    (p, e)
}

impl DD {
    pub const ZERO: DD = DD { hi: 0.0, lo: 0.0 };
    pub const ONE: DD = DD { hi: 1.0, lo: 0.0 };
    #[inline]
    pub fn new(x: f64) -> DD {
        DD { hi: x, lo: 0.0 }
    }
    pub fn sqrt(self) -> DD {
        if self.hi <= 0.0 {
            return DD::new(if self.hi == 0.0 { 0.0 } else { f64::NAN });
        }
        if !self.hi.is_finite() {
            return DD::new(self.hi);
        }
        let x = 1.0 / self.hi.sqrt();
        let ax = self.hi * x;
        let axdd = DD::new(ax);
        let diff = (self - axdd * axdd).hi;
        let (s, e) = two_sum(ax, diff * x * 0.5);
        DD { hi: s, lo: e }
    }
    pub fn abs(self) -> DD {
        if self.hi < 0.0 || (self.hi == 0.0 && self.lo < 0.0) {
            -self
        } else {
            self
        }
    }
}

impl Add for DD {
    type Output = DD;
    #[inline]
    fn add(self, o: DD) -> DD {
        if !self.hi.is_finite() || !o.hi.is_finite() {
            return DD::new(self.hi + o.hi);
        }
        let (s, e) = two_sum(self.hi, o.hi);
        let e = e + (self.lo + o.lo);
        let (s, e) = quick_two_sum(s, e);
        DD { hi: s, lo: e }
    }
}
impl Neg for DD {
    type Output = DD;
    #[inline]
    fn neg(self) -> DD {
        DD { hi: -self.hi, lo: -self.lo }
    }
}
impl Sub for DD {
    type Output = DD;
    #[inline]
    fn sub(self, o: DD) -> DD {
        self + (-o)
    }
}
impl Mul for DD {
    type Output = DD;
    #[inline]
    fn mul(self, o: DD) -> DD {
        let (p, e) = two_prod(self.hi, o.hi);
        if !p.is_finite() {
            return DD::new(p);
        }
        let e = e + (self.hi * o.lo + self.lo * o.hi);
        let (s, e) = quick_two_sum(p, e);
        DD { hi: s, lo: e }
    }
}
impl Div for DD {
    type Output = DD;
    fn div(self, o: DD) -> DD {
        let q1 = self.hi / o.hi;
        if !q1.is_finite() {
            return DD::new(q1);
        }
        let r = self - o * DD::new(q1);
        let q2 = r.hi / o.hi;
        let r = r - o * DD::new(q2);
        let q3 = r.hi / o.hi;
        let (s, e) = quick_two_sum(q1, q2);
        DD { hi: s, lo: e } + DD::new(q3)
    }
}

pub trait Real:
    Copy + core::fmt::Debug + Add<Output = Self> + Sub<Output = Self> + Mul<Output = Self> + Div<Output = Self> + Neg<Output = Self>
{
    fn from_f64(x: f64) -> Self;
    fn to_f64(self) -> f64;
    fn rsqrt_(self) -> Self {
        Self::from_f64(1.0) / self.sqrt_()
    }
    fn sqrt_(self) -> Self;
    fn abs_(self) -> Self;
    /// `self - x` evaluated and rounded to f64: the error of a candidate `x` against the exact value.
    fn diff(self, x: f64) -> f64;
    fn zero() -> Self {
        Self::from_f64(0.0)
    }
    fn one() -> Self {
        Self::from_f64(1.0)
    }
}

impl Real for f64 {
    #[inline]
    fn from_f64(x: f64) -> Self {
        x
    }
    #[inline]
    fn to_f64(self) -> f64 {
        self
    }
    #[inline]
    fn sqrt_(self) -> Self {
        self.sqrt()
    }
    #[inline]
    fn abs_(self) -> Self {
        self.abs()
    }
    #[inline]
    fn diff(self, x: f64) -> f64 {
        self - x
    }
}

impl Real for DD {
    #[inline]
    fn from_f64(x: f64) -> Self {
        DD::new(x)
    }
    #[inline]
    fn to_f64(self) -> f64 {
        self.hi + self.lo
    }
    #[inline]
    fn sqrt_(self) -> Self {
        self.sqrt()
    }
    #[inline]
    fn abs_(self) -> Self {
        self.abs()
    }
    #[inline]
    fn diff(self, x: f64) -> f64 {
        (self - DD::new(x)).to_f64()
    }
}

#[cfg(test)]
mod tests {
    use super::*;
    #[test]
    fn dd_basic() {
        let a = DD::new(1.0) / DD::new(3.0);
        let b = a * DD::new(3.0);
        assert!((b - DD::ONE).to_f64().abs() < 1e-31);
        let s = DD::new(2.0).sqrt();
        assert!(((s * s) - DD::new(2.0)).to_f64().abs() < 1e-30);
        let x = DD::new(1e16) + DD::new(1.0) - DD::new(1e16);
        assert_eq!(x.to_f64(), 1.0);
    }
}

//! Monitor: every oracle decision passes through here. One per shard process.

use crate::rng::{hash_str, mix};
use std::collections::{BTreeMap, HashMap, HashSet};
use std::fmt::Write as _;

pub const MAX_CLASSES_PER_OP: usize = 1 << 14;
pub const MAX_WITNESS_PER_SIG: u32 = 3;

#[derive(Clone, Debug, Default)]
pub struct Violation {
    pub ty: String,
    pub op: String,
    pub kind: String,
    pub input: String,
    pub got: String,
    pub expected: String,
    pub note: String,
    /// machine-readable tags for known-finding matchers, e.g. "tie", "mixed_sign"
    pub tags: Vec<String>,
}

#[derive(Default, Debug)]
pub struct OpStat {
    pub events: u64,
    pub nontrivial: u64,
    pub classes: HashSet<u64>,
    pub max_ratio: f64,
    pub boundary: u64,
    pub panics_expected: u64,
    pub violations: u64,
    pub sample: Option<String>,
    pub counters: BTreeMap<String, u64>,
    pub ratios: BTreeMap<String, f64>,
}

pub struct OpCtx {
    pub ty: String,
    pub op: String,
    pub st: OpStat,
    pub viols: Vec<Violation>,
    per_sig: HashMap<String, u32>,
}

impl OpCtx {
    #[inline]
    pub fn event(&mut self, class_key: u64, nontrivial: bool) {
        self.st.events += 1;
        if nontrivial {
            self.st.nontrivial += 1;
            if self.st.classes.len() < MAX_CLASSES_PER_OP {
                self.st.classes.insert(class_key);
            }
        }
    }
    #[inline]
    pub fn events(&mut self, n: u64) {
        self.st.events += n;
    }
    #[inline]
    pub fn ratio(&mut self, r: f64) {
        if r > self.st.max_ratio {
            self.st.max_ratio = r;
        }
    }
    /// per-quantity maximum of error/bound (calibration evidence)
    pub fn ratio_t(&mut self, tag: &str, r: f64) {
        self.ratio(r);
        match self.st.ratios.get_mut(tag) {
            Some(x) => {
                if r > *x {
                    *x = r;
                }
            }
            None => {
                self.st.ratios.insert(tag.to_string(), r);
            }
        }
    }
    #[inline]
    pub fn boundary(&mut self) {
        self.st.boundary += 1;
    }
    pub fn count(&mut self, name: &str) {
        *self.st.counters.entry(name.to_string()).or_insert(0) += 1;
    }
    pub fn count_n(&mut self, name: &str, n: u64) {
        *self.st.counters.entry(name.to_string()).or_insert(0) += n;
    }
    pub fn need_sample(&self) -> bool {
        self.st.sample.is_none()
    }
    pub fn sample(&mut self, s: String) {
        if self.st.sample.is_none() {
            self.st.sample = Some(s);
        }
    }
    /// record a violation; witnesses are capped per (kind, tags) signature
    pub fn violation(&mut self, kind: &str, tags: &[&str], input: String, got: String, expected: String, note: String) {
        self.st.violations += 1;
        let sig = format!("{}|{}", kind, tags.join(","));
        let c = self.per_sig.entry(sig).or_insert(0);
        *c += 1;
        if *c <= MAX_WITNESS_PER_SIG {
            self.viols.push(Violation {
                ty: self.ty.clone(),
                op: self.op.clone(),
                kind: kind.to_string(),
                input,
                got,
                expected,
                note,
                tags: tags.iter().map(|s| s.to_string()).collect(),
            });
        }
    }
    pub fn wants_witness(&self, kind: &str, tags: &[&str]) -> bool {
        let sig = format!("{}|{}", kind, tags.join(","));
        self.per_sig.get(&sig).copied().unwrap_or(0) < MAX_WITNESS_PER_SIG
    }
}

pub struct Monitor {
    pub prop: String,
    pub config: String,
    pub tier: String,
    pub seed: u64,
    pub shard: (u32, u32),
    pub filter: Option<String>,
    pub ops: BTreeMap<String, OpStat>,
    pub violations: Vec<Violation>,
    pub exhaustive: Vec<String>,
    pub notes: Vec<String>,
    pub inconclusive: Vec<String>,
    pub canaries_total: u32,
    pub canaries_fired: u32,
    pub canary_missed: Vec<String>,
    pub extra: BTreeMap<String, String>, // raw JSON fragments
    op_index: u32,
    /// canary mode: everything is accepted regardless of shard / filter, nothing is merged
    pub scratch: bool,
    /// multiplier of the quick-tier sample counts (engines whose quick tier is far below its time budget raise it)
    pub quick_scale: u64,
}

impl Monitor {
    pub fn new(prop: &str, config: &str, tier: &str, seed: u64, shard: (u32, u32), filter: Option<String>) -> Self {
        Monitor {
            prop: prop.to_string(),
            config: config.to_string(),
            tier: tier.to_string(),
            seed,
            shard,
            filter,
            ops: BTreeMap::new(),
            violations: vec![],
            exhaustive: vec![],
            notes: vec![],
            inconclusive: vec![],
            canaries_total: 0,
            canaries_fired: 0,
            canary_missed: vec![],
            extra: BTreeMap::new(),
            op_index: 0,
            scratch: false,
            quick_scale: 1,
        }
    }
    pub fn scratch(&self) -> Monitor {
        let mut m = Monitor::new(&self.prop, &self.config, &self.tier, self.seed, (0, 1), None);
        m.quick_scale = self.quick_scale;
        m.scratch = true;
        m
    }
    pub fn thorough(&self) -> bool {
        self.tier == "thorough"
    }
    /// Scale a count by tier.
    pub fn n(&self, quick: u64, thorough: u64) -> u64 {
        if self.thorough() {
            thorough
        } else {
            quick * self.quick_scale
        }
    }
    /// Seed for a (type, op) random stream.
    pub fn op_seed(&self, ty: &str, op: &str) -> u64 {
        mix(mix(self.seed, hash_str(&self.prop)), mix(hash_str(ty), hash_str(op)))
    }
    /// Begin a sweep of one (type, op). None => not this shard's / filtered out.
    pub fn begin(&mut self, ty: &str, op: &str) -> Option<OpCtx> {
        let idx = self.op_index;
        self.op_index += 1;
        if !self.scratch {
            if let Some(f) = &self.filter {
                let full = format!("{}::{}", ty, op);
                if &full != f && ty != f {
                    return None;
                }
            } else if idx % self.shard.1 != self.shard.0 {
                return None;
            }
        }
        Some(OpCtx { ty: ty.to_string(), op: op.to_string(), st: OpStat::default(), viols: vec![], per_sig: HashMap::new() })
    }
    /// Like `begin` but present in every shard (the caller splits the work by `self.shard` itself).
    pub fn begin_unsharded(&mut self, ty: &str, op: &str) -> Option<OpCtx> {
        if !self.scratch {
            if let Some(f) = &self.filter {
                let full = format!("{}::{}", ty, op);
                if &full != f && ty != f {
                    return None;
                }
            }
        }
        Some(OpCtx { ty: ty.to_string(), op: op.to_string(), st: OpStat::default(), viols: vec![], per_sig: HashMap::new() })
    }
    pub fn end(&mut self, ctx: OpCtx) {
        let key = format!("{}::{}", ctx.ty, ctx.op);
        let e = self.ops.entry(key).or_default();
        e.events += ctx.st.events;
        e.nontrivial += ctx.st.nontrivial;
        for c in ctx.st.classes {
            if e.classes.len() < MAX_CLASSES_PER_OP {
                e.classes.insert(c);
            }
        }
        if ctx.st.max_ratio > e.max_ratio {
            e.max_ratio = ctx.st.max_ratio;
        }
        e.boundary += ctx.st.boundary;
        e.panics_expected += ctx.st.panics_expected;
        e.violations += ctx.st.violations;
        if e.sample.is_none() {
            e.sample = ctx.st.sample;
        }
        for (k, v) in ctx.st.counters {
            *e.counters.entry(k).or_insert(0) += v;
        }
        for (k, v) in ctx.st.ratios {
            let x = e.ratios.entry(k).or_insert(0.0);
            if v > *x {
                *x = v;
            }
        }
        self.violations.extend(ctx.viols);
    }
    pub fn total_violations(&self) -> u64 {
        self.ops.values().map(|o| o.violations).sum()
    }
    pub fn total_events(&self) -> u64 {
        self.ops.values().map(|o| o.events).sum()
    }
    /// Run a canary: `f` must make the scratch monitor report >= 1 violation.
    pub fn canary(&mut self, name: &str, f: impl FnOnce(&mut Monitor)) {
        // canaries only run in shard 0 and when no filter is active
        if self.shard.0 != 0 || self.filter.is_some() {
            return;
        }
        let mut s = self.scratch();
        f(&mut s);
        self.canaries_total += 1;
        if s.total_violations() > 0 {
            self.canaries_fired += 1;
        } else {
            self.canary_missed.push(name.to_string());
        }
    }

    pub fn to_json(&self) -> String {
        let mut o = String::new();
        o.push('{');
        let _ = write!(
            o,
            "\"prop\":{},\"config\":{},\"tier\":{},\"seed\":{},\"shard\":[{},{}],",
            js(&self.prop),
            js(&self.config),
            js(&self.tier),
            self.seed,
            self.shard.0,
            self.shard.1
        );
        let _ = write!(o, "\"events\":{},", self.total_events());
        let dn: usize = self.ops.values().map(|s| s.classes.len()).sum();
        let _ = write!(o, "\"distinct_nontrivial\":{},", dn);
        o.push_str("\"ops\":{");
        let mut first = true;
        for (k, s) in &self.ops {
            if !first {
                o.push(',');
            }
            first = false;
            let _ = write!(
                o,
                "{}:{{\"events\":{},\"nontrivial\":{},\"classes\":{},\"max_ratio\":{},\"boundary\":{},\"panics_expected\":{},\"violations\":{}",
                js(k),
                s.events,
                s.nontrivial,
                s.classes.len(),
                jf(s.max_ratio),
                s.boundary,
                s.panics_expected,
                s.violations
            );
            if !s.counters.is_empty() {
                o.push_str(",\"counters\":{");
                let mut f2 = true;
                for (ck, cv) in &s.counters {
                    if !f2 {
                        o.push(',');
                    }
                    f2 = false;
                    let _ = write!(o, "{}:{}", js(ck), cv);
                }
                o.push('}');
            }
            if !s.ratios.is_empty() {
                o.push_str(",\"ratios\":{");
                let mut f2 = true;
                for (ck, cv) in &s.ratios {
                    if !f2 {
                        o.push(',');
                    }
                    f2 = false;
                    let _ = write!(o, "{}:{}", js(ck), jf(*cv));
                }
                o.push('}');
            }
            if let Some(sm) = &s.sample {
                let _ = write!(o, ",\"sample\":{}", js(sm));
            }
            o.push('}');
        }
        o.push_str("},\"violations\":[");
        for (i, v) in self.violations.iter().enumerate() {
            if i > 0 {
                o.push(',');
            }
            let tags: Vec<String> = v.tags.iter().map(|t| js(t)).collect();
            let _ = write!(
                o,
                "{{\"type\":{},\"op\":{},\"kind\":{},\"tags\":[{}],\"input\":{},\"got\":{},\"expected\":{},\"note\":{}}}",
                js(&v.ty),
                js(&v.op),
                js(&v.kind),
                tags.join(","),
                js(&v.input),
                js(&v.got),
                js(&v.expected),
                js(&v.note)
            );
        }
        let _ = write!(o, "],\"violation_count\":{},", self.total_violations());
        let _ = write!(o, "\"exhaustive\":[{}],", self.exhaustive.iter().map(|s| js(s)).collect::<Vec<_>>().join(","));
        let _ = write!(o, "\"notes\":[{}],", self.notes.iter().map(|s| js(s)).collect::<Vec<_>>().join(","));
        let _ = write!(o, "\"inconclusive\":[{}],", self.inconclusive.iter().map(|s| js(s)).collect::<Vec<_>>().join(","));
        let _ = write!(
            o,
            "\"canaries\":{{\"total\":{},\"fired\":{},\"missed\":[{}]}}",
            self.canaries_total,
            self.canaries_fired,
            self.canary_missed.iter().map(|s| js(s)).collect::<Vec<_>>().join(",")
        );
        for (k, v) in &self.extra {
            let _ = write!(o, ",{}:{}", js(k), v);
        }
        o.push('}');
        o
    }
}

pub fn js(s: &str) -> String {
    let mut o = String::with_capacity(s.len() + 2);
    o.push('"');
    for c in s.chars() {
        match c {
            '"' => o.push_str("\\\""),
            '\\' => o.push_str("\\\\"),
            '\n' => o.push_str("\\n"),
            '\r' => o.push_str("\\r"),
            '\t' => o.push_str("\\t"),
            c if (c as u32) < 0x20 => {
                let _ = write!(o, "\\u{:04x}", c as u32);
            }
            c => o.push(c),
        }
    }
    o.push('"');
    o
}

pub fn jf(x: f64) -> String {
    if x.is_finite() {
        format!("{:e}", x)
    } else if x.is_nan() {
        "\"NaN\"".to_string()
    } else if x > 0.0 {
        "\"inf\"".to_string()
    } else {
        "\"-inf\"".to_string()
    }
}

/// Command line shared by all engines.
pub struct Args {
    pub prop: String,
    pub tier: String,
    pub seed: u64,
    pub shard: (u32, u32),
    pub out: Option<String>,
    pub config: String,
    pub filter: Option<String>,
    pub trace: Option<String>,
    pub mode: Option<String>,
    pub rest: Vec<String>,
}

impl Args {
    pub fn parse() -> Args {
        let mut a = Args {
            prop: String::new(),
            tier: "quick".into(),
            seed: 1,
            shard: (0, 1),
            out: None,
            config: "unknown".into(),
            filter: None,
            trace: None,
            mode: None,
            rest: vec![],
        };
        let mut it = std::env::args().skip(1);
        while let Some(x) = it.next() {
            match x.as_str() {
                "--prop" => a.prop = it.next().unwrap(),
                "--tier" => a.tier = it.next().unwrap(),
                "--seed" => a.seed = it.next().unwrap().parse().unwrap(),
                "--shard" => {
                    let s = it.next().unwrap();
                    let mut p = s.split('/');
                    a.shard = (p.next().unwrap().parse().unwrap(), p.next().unwrap().parse().unwrap());
                }
                "--out" => a.out = Some(it.next().unwrap()),
                "--config" => a.config = it.next().unwrap(),
                "--filter" => a.filter = Some(it.next().unwrap()),
                "--trace" => a.trace = Some(it.next().unwrap()),
                "--mode" => a.mode = Some(it.next().unwrap()),
                _ => a.rest.push(x),
            }
        }
        a
    }
    pub fn monitor(&self) -> Monitor {
        Monitor::new(&self.prop, &self.config, &self.tier, self.seed, self.shard, self.filter.clone())
    }
    pub fn finish(&self, mon: &Monitor) {
        let j = mon.to_json();
        match &self.out {
            Some(p) => std::fs::write(p, j).expect("write summary"),
            None => println!("{}", j),
        }
    }
}

/// Silence the default panic message for expected panics; a panic that escapes every
/// catch_unwind (harness bug) is still reported, with its location, before the process dies.
pub fn quiet_panics() {
    if std::env::var("VERIF_PANIC_VERBOSE").is_ok() {
        return;
    }
    std::panic::set_hook(Box::new(|info| {
        LAST_PANIC.with(|l| {
            *l.borrow_mut() = format!("{}", info);
        });
    }));
}
thread_local! {
    pub static LAST_PANIC: std::cell::RefCell<String> = std::cell::RefCell::new(String::new());
}
pub fn last_panic() -> String {
    LAST_PANIC.with(|l| l.borrow().clone())
}

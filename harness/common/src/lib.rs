pub mod dd;
pub mod fl;
pub mod mon;
pub mod rng;

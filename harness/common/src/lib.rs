pub mod dd;
pub mod fl;
pub mod int;
pub mod mon;
pub mod refm;
pub mod rng;

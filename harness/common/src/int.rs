//! Integer scalar abstraction for the integer-vector monitors.

use crate::rng::Rng;

pub trait Int: Copy + Eq + Ord + core::fmt::Debug + core::fmt::Display + core::hash::Hash + 'static {
    const BITS: u32;
    const SIGNED: bool;
    const NAME: &'static str;
    fn from_bits64(b: u64) -> Self;
    fn bits64(self) -> u64;
    fn to_i128(self) -> i128;
    fn fits(x: i128) -> bool;
    fn wrap(x: i128) -> Self;
    fn lattice() -> Vec<Self>;
    fn zero() -> Self {
        Self::wrap(0)
    }
    fn one() -> Self {
        Self::wrap(1)
    }
    fn random(r: &mut Rng) -> Self {
        match r.below(9) {
            0 | 1 => {
                let l = Self::lattice();
                l[r.idx(l.len())]
            }
            8 if Self::BITS >= 32 => {
                // neighbours of the rounding ties of the conversions to f32 / f64: 2^k + m*2^(k-p+1) + 2^(k-p) + d with
                // p = 24 or 53 mantissa bits and d in -2..=2 (d != 0 decides the direction; a conversion that rounds
                // twice, e.g. through f64 on the way to f32, loses d)
                let p = if Self::BITS > 54 && r.bool() { 53u32 } else { 24 };
                let hi = Self::BITS - if Self::wrap(-1).to_i128() < 0 { 2 } else { 1 };
                let k = p + 1 + r.below((hi - p) as u64) as u32;
                let m = (r.next_u64() as u128 & ((1u128 << (p - 1)) - 1)) as i128;
                let x = (1i128 << k) + (m << (k - p + 1)) + (1i128 << (k - p)) + r.int_in(-2, 2) as i128;
                let neg = Self::wrap(-1).to_i128() < 0 && r.bool();
                Self::wrap(if neg { -x } else { x })
            }
            2 => Self::wrap(r.int_in(-4, 4) as i128),
            3 => Self::wrap(r.int_in(-300, 300) as i128),
            4 => {
                // 2^k +- small
                let k = r.below(Self::BITS as u64) as u32;
                Self::wrap((1i128 << k) + r.int_in(-2, 2) as i128)
            }
            _ => Self::from_bits64(r.next_u64()),
        }
    }
    /// class code for distinct-class keys
    fn class(self) -> u8 {
        let v = self.to_i128();
        let max = Self::wrap(-1).to_i128(); // unsigned: MAX; signed: -1
        let _ = max;
        if v == 0 {
            0
        } else if v == 1 {
            1
        } else if v == -1 {
            2
        } else if Self::fits(v + 1) == false {
            3 // MAX
        } else if Self::fits(v - 1) == false {
            4 // MIN
        } else if v > 0 && v < 16 {
            5
        } else if v < 0 && v > -16 {
            6
        } else if v > 0 && (v & (v - 1)) == 0 {
            7
        } else if v > 0 {
            if Self::fits(v * 2) {
                8
            } else {
                9
            }
        } else if Self::fits(v * 2) {
            10
        } else {
            11
        }
    }
}

macro_rules! impl_int {
    ($t:ty, $signed:expr, $name:expr) => {
        impl Int for $t {
            const BITS: u32 = <$t>::BITS;
            const SIGNED: bool = $signed;
            const NAME: &'static str = $name;
            #[inline]
            fn from_bits64(b: u64) -> Self {
                b as $t
            }
            #[inline]
            fn bits64(self) -> u64 {
                self as u64
            }
            #[inline]
            fn to_i128(self) -> i128 {
                self as i128
            }
            #[inline]
            fn fits(x: i128) -> bool {
                x >= <$t>::MIN as i128 && x <= <$t>::MAX as i128
            }
            #[inline]
            fn wrap(x: i128) -> Self {
                x as $t
            }
            fn lattice() -> Vec<Self> {
                let mut v: Vec<$t> = vec![0, 1, 2, 3, 5, 7, 10, 100, <$t>::MAX, <$t>::MAX - 1, <$t>::MAX / 2, <$t>::MAX / 2 + 1, <$t>::MIN, <$t>::MIN + 1];
                let bits = <$t>::BITS;
                for k in [1u32, 2, 3, bits / 2 - 1, bits / 2, bits / 2 + 1, bits - 2, bits - 1] {
                    let p = (1u128 << k) as $t;
                    v.push(p);
                    v.push(p.wrapping_sub(1));
                    v.push(p.wrapping_add(1));
                }
                if $signed {
                    let neg: Vec<$t> = v.iter().map(|x| (0 as $t).wrapping_sub(*x)).collect();
                    v.extend(neg);
                }
                // values around the square root of MAX (products overflow just beyond)
                let s = ((<$t>::MAX as f64).sqrt()) as i128;
                for d in -1..=1 {
                    v.push((s + d) as $t);
                    if $signed {
                        v.push((-(s + d)) as $t);
                    }
                }
                v.sort();
                v.dedup();
                v
            }
        }
    };
}

impl_int!(i8, true, "i8");
impl_int!(u8, false, "u8");
impl_int!(i16, true, "i16");
impl_int!(u16, false, "u16");
impl_int!(i32, true, "i32");
impl_int!(u32, false, "u32");
impl_int!(i64, true, "i64");
impl_int!(u64, false, "u64");
impl_int!(usize, false, "usize");

pub fn iclass_key<S: Int>(v: &[S]) -> u64 {
    let mut k: u64 = 1469598103934665603;
    for &l in v {
        k = (k ^ l.class() as u64).wrapping_mul(1099511628211);
    }
    k
}

/// True when the current build profile panics on arithmetic overflow.
pub fn overflow_checks() -> bool {
    let prev = std::panic::take_hook();
    std::panic::set_hook(Box::new(|_| {}));
    let r = std::panic::catch_unwind(|| {
        let a = std::hint::black_box(i8::MAX);
        let b = std::hint::black_box(1i8);
        std::hint::black_box(a + b)
    });
    std::panic::set_hook(prev);
    r.is_err()
}

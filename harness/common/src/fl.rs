//! Float abstraction (f32 / f64), special-value lattices, input classes.

use crate::rng::Rng;

pub trait Fl:
    Copy
    + PartialOrd
    + PartialEq
    + core::fmt::Debug
    + core::fmt::Display
    + core::ops::Add<Output = Self>
    + core::ops::Sub<Output = Self>
    + core::ops::Mul<Output = Self>
    + core::ops::Div<Output = Self>
    + core::ops::Rem<Output = Self>
    + core::ops::Neg<Output = Self>
    + 'static
{
    const NAME: &'static str;
    const EPS: f64;
    const MANT_BITS: u32;
    const ZERO: Self;
    const ONE: Self;
    /// exponent range (log2) the accuracy properties quantify over
    const LOG_RANGE: f64;
    /// binary exponent limits of the normal range (as f64)
    const MAX_EXP2: f64;
    const MIN_EXP2: f64;
    fn bits(self) -> u64;
    fn from_bits64(b: u64) -> Self;
    fn f64(self) -> f64;
    fn of(x: f64) -> Self;
    fn nan(self) -> bool;
    fn finite(self) -> bool;
    fn lattice() -> &'static [Self];
    fn random_bits(r: &mut Rng) -> Self;
    fn min_positive() -> Self;
    fn hex(self) -> String;
}

fn build_l32() -> Vec<f32> {
    let pos: Vec<f32> = vec![
        0.0,
        f32::from_bits(1),
        f32::from_bits(0x007f_ffff),
        f32::MIN_POSITIVE,
        8.27e-25, // ~2^-80: square underflows to subnormal/zero
        1e-20,
        1e-4,
        0.1,
        1.0 / 3.0,
        0.49999997,
        0.5,
        0.50000006,
        0.75,
        0.99999994,
        1.0,
        1.0000001,
        1.5,
        2.0,
        2.5,
        3.0,
        3.5,
        core::f32::consts::PI,
        5.5,
        7.0,
        100.5,
        1000.25,
        4194303.5,
        4194304.5,
        8388607.0,
        8388607.5,
        8388608.0,
        8388609.0,
        16777216.0,
        2147483520.0,
        2147483648.0,
        2147483904.0,
        4294967296.0,
        9.223372e18,
        1.8446744e19,
        1e20,
        1.2676506e30, // 2^100: square overflows
        f32::MAX,
        f32::INFINITY,
        f32::NAN,
        f32::from_bits(0x7fa0_0001), // signalling NaN with payload
        f32::from_bits(0x7fc1_2345), // quiet NaN with payload
    ];
    let mut v = Vec::new();
    for p in pos {
        v.push(p);
        v.push(-p);
    }
    v
}

fn build_l64() -> Vec<f64> {
    let pos: Vec<f64> = vec![
        0.0,
        f64::from_bits(1),
        f64::from_bits(0x000f_ffff_ffff_ffff),
        f64::MIN_POSITIVE,
        1e-200, // square underflows
        1e-20,
        1e-4,
        0.1,
        1.0 / 3.0,
        0.49999999999999994,
        0.5,
        0.5000000000000001,
        0.75,
        0.9999999999999999,
        1.0,
        1.0000000000000002,
        1.5,
        2.0,
        2.5,
        3.0,
        3.5,
        core::f64::consts::PI,
        5.5,
        7.0,
        100.5,
        1000.25,
        8388607.5,
        8388608.5,
        2147483647.5,
        2147483648.0,
        4294967296.0,
        2251799813685247.5, // 2^51 - 0.5
        2251799813685248.5, // 2^51 + 0.5
        4503599627370495.0,
        4503599627370495.5, // 2^52 - 0.5
        4503599627370496.0,
        4503599627370497.0,
        9007199254740992.0,
        9.223372036854776e18,
        1.8446744073709552e19,
        1e20,
        1e200, // square overflows
        f64::MAX,
        f64::INFINITY,
        f64::NAN,
        f64::from_bits(0x7ff4_0000_0000_0001),
        f64::from_bits(0x7ff8_1234_5678_9abc),
    ];
    let mut v = Vec::new();
    for p in pos {
        v.push(p);
        v.push(-p);
    }
    v
}

use std::sync::OnceLock;
static L32: OnceLock<Vec<f32>> = OnceLock::new();
static L64: OnceLock<Vec<f64>> = OnceLock::new();

impl Fl for f32 {
    const NAME: &'static str = "f32";
    const EPS: f64 = f32::EPSILON as f64;
    const MANT_BITS: u32 = 23;
    const ZERO: Self = 0.0;
    const ONE: Self = 1.0;
    const LOG_RANGE: f64 = 40.0;
    const MAX_EXP2: f64 = 128.0;
    const MIN_EXP2: f64 = -126.0;
    #[inline]
    fn bits(self) -> u64 {
        self.to_bits() as u64
    }
    #[inline]
    fn from_bits64(b: u64) -> Self {
        f32::from_bits(b as u32)
    }
    #[inline]
    fn f64(self) -> f64 {
        self as f64
    }
    #[inline]
    fn of(x: f64) -> Self {
        x as f32
    }
    #[inline]
    fn nan(self) -> bool {
        self.is_nan()
    }
    #[inline]
    fn finite(self) -> bool {
        self.is_finite()
    }
    fn lattice() -> &'static [Self] {
        L32.get_or_init(build_l32)
    }
    #[inline]
    fn random_bits(r: &mut Rng) -> Self {
        f32::from_bits(r.next_u32())
    }
    fn min_positive() -> Self {
        f32::MIN_POSITIVE
    }
    fn hex(self) -> String {
        format!("{:?}[0x{:08x}]", self, self.to_bits())
    }
}

impl Fl for f64 {
    const NAME: &'static str = "f64";
    const EPS: f64 = f64::EPSILON;
    const MANT_BITS: u32 = 52;
    const ZERO: Self = 0.0;
    const ONE: Self = 1.0;
    const LOG_RANGE: f64 = 300.0;
    const MAX_EXP2: f64 = 1024.0;
    const MIN_EXP2: f64 = -1022.0;
    #[inline]
    fn bits(self) -> u64 {
        self.to_bits()
    }
    #[inline]
    fn from_bits64(b: u64) -> Self {
        f64::from_bits(b)
    }
    #[inline]
    fn f64(self) -> f64 {
        self
    }
    #[inline]
    fn of(x: f64) -> Self {
        x
    }
    #[inline]
    fn nan(self) -> bool {
        self.is_nan()
    }
    #[inline]
    fn finite(self) -> bool {
        self.is_finite()
    }
    fn lattice() -> &'static [Self] {
        L64.get_or_init(build_l64)
    }
    #[inline]
    fn random_bits(r: &mut Rng) -> Self {
        f64::from_bits(r.next_u64())
    }
    fn min_positive() -> Self {
        f64::MIN_POSITIVE
    }
    fn hex(self) -> String {
        format!("{:?}[0x{:016x}]", self, self.to_bits())
    }
}

/// IEEE value equality: both NaN, or ==  (so -0 == +0).
#[inline]
pub fn ieq<S: Fl>(a: S, b: S) -> bool {
    (a.nan() && b.nan()) || a == b
}
/// Bit equality.
#[inline]
pub fn beq<S: Fl>(a: S, b: S) -> bool {
    a.bits() == b.bits()
}

/// Input class of a scalar (small integer code). Used to form distinct-class keys.
pub fn class<S: Fl>(x: S) -> u8 {
    let v = x.f64();
    if x.nan() {
        // quiet / signalling by top mantissa bit
        let q = (x.bits() >> (S::MANT_BITS - 1)) & 1;
        return if q == 1 { 1 } else { 2 };
    }
    let neg = v.is_sign_negative() as u8;
    let a = v.abs();
    let base = if a == 0.0 {
        3
    } else if a == f64::INFINITY {
        5
    } else if a < S::min_positive().f64() {
        7
    } else {
        let two_m = (1u64 << S::MANT_BITS.min(52)) as f64; // 2^23 or 2^52
        let frac = a - a.floor();
        if frac == 0.5 {
            9 // exact tie
        } else if a < 1e-10 {
            11
        } else if a < 0.5 {
            13
        } else if a < 2.0 {
            15
        } else if a < 1024.0 {
            if frac == 0.0 {
                17
            } else {
                19
            }
        } else if a < two_m / 2.0 {
            21
        } else if a < two_m * 2.0 {
            23 // around 2^MANT
        } else if a < 1e15 {
            if (a - 2147483648.0).abs() < 1024.0 {
                25
            } else {
                27
            }
        } else if a < 1e25 {
            29
        } else {
            31
        }
    };
    base + neg
}

pub fn class_key<S: Fl>(lanes: &[S]) -> u64 {
    let mut k: u64 = 1469598103934665603;
    for &l in lanes {
        k = (k ^ class(l) as u64).wrapping_mul(1099511628211);
    }
    k
}

/// random "moderate" value: log-uniform magnitude in [2^-lo, 2^hi], random sign
pub fn moderate<S: Fl>(r: &mut Rng, lo: f64, hi: f64) -> S {
    S::of(r.logmag(lo, hi))
}

/// A mixed generator of hostile scalars for lane-lift checks.
pub fn hostile<S: Fl>(r: &mut Rng) -> S {
    match r.below(10) {
        0 | 1 => *r.pick(S::lattice()),
        2 | 3 => S::random_bits(r),
        4 => {
            // exact tie n + 0.5 with small or large n
            let n = match r.below(3) {
                0 => r.int_in(-8, 8) as f64,
                1 => r.int_in(-100000, 100000) as f64,
                _ => {
                    let half = (1u64 << (S::MANT_BITS - 1)) as f64;
                    let k = r.int_in(-16, 16) as f64;
                    (half + k) * if r.bool() { 1.0 } else { -1.0 }
                }
            };
            S::of(n + 0.5)
        }
        5 => {
            // near 2^MANT or 2^31
            let b = if r.bool() { (1u64 << S::MANT_BITS) as f64 } else { 2147483648.0 };
            let ulp = (r.int_in(-4, 4)) as f64;
            let s = if r.bool() { 1.0 } else { -1.0 };
            let x = S::of(s * b);
            // step a few ulps
            let bits = x.bits() as i64 + ulp as i64;
            S::from_bits64(bits as u64)
        }
        6 => S::of(r.int_in(-20, 20) as f64),
        7 => S::of(r.int_in(-20, 20) as f64 * 0.25),
        _ => moderate(r, -12.0, 12.0),
    }
}

//! xoshiro256** with splitmix64 seeding; no dependencies.

#[derive(Clone, Debug)]
pub struct Rng {
    s: [u64; 4],
}

pub fn splitmix(x: &mut u64) -> u64 {
    *x = x.wrapping_add(0x9e3779b97f4a7c15);
    let mut z = *x;
    z = (z ^ (z >> 30)).wrapping_mul(0xbf58476d1ce4e5b9);
    z = (z ^ (z >> 27)).wrapping_mul(0x94d049bb133111eb);
    z ^ (z >> 31)
}

pub fn hash_str(s: &str) -> u64 {
    // FNV-1a 64
    let mut h: u64 = 0xcbf29ce484222325;
    for b in s.bytes() {
        h ^= b as u64;
        h = h.wrapping_mul(0x100000001b3);
    }
    h
}

pub fn mix(a: u64, b: u64) -> u64 {
    let mut x = a ^ b.rotate_left(32) ^ 0x2545F4914F6CDD1D;
    splitmix(&mut x)
}

impl Rng {
    pub fn new(seed: u64) -> Self {
        let mut x = seed;
        let s = [splitmix(&mut x), splitmix(&mut x), splitmix(&mut x), splitmix(&mut x)];
        Rng { s }
    }
    /// stream for (seed, label)
    pub fn stream(seed: u64, label: &str) -> Self {
        Rng::new(mix(seed, hash_str(label)))
    }
    #[inline]
    pub fn next_u64(&mut self) -> u64 {
        let r = self.s[1].wrapping_mul(5).rotate_left(7).wrapping_mul(9);
        let t = self.s[1] << 17;
        self.s[2] ^= self.s[0];
        self.s[3] ^= self.s[1];
        self.s[1] ^= self.s[2];
        self.s[0] ^= self.s[3];
        self.s[2] ^= t;
        self.s[3] = self.s[3].rotate_left(45);
        r
    }
    #[inline]
    pub fn next_u32(&mut self) -> u32 {
        (self.next_u64() >> 32) as u32
    }
    /// uniform in [0, n)
    #[inline]
    pub fn below(&mut self, n: u64) -> u64 {
        if n == 0 {
            return 0;
        }
        ((self.next_u64() as u128 * n as u128) >> 64) as u64
    }
    #[inline]
    pub fn idx(&mut self, n: usize) -> usize {
        self.below(n as u64) as usize
    }
    #[inline]
    pub fn bool(&mut self) -> bool {
        self.next_u64() >> 63 == 1
    }
    /// uniform in [0,1)
    #[inline]
    pub fn unit(&mut self) -> f64 {
        (self.next_u64() >> 11) as f64 * (1.0 / (1u64 << 53) as f64)
    }
    /// uniform in [lo,hi)
    #[inline]
    pub fn range(&mut self, lo: f64, hi: f64) -> f64 {
        lo + (hi - lo) * self.unit()
    }
    /// standard normal (Box-Muller)
    pub fn normal(&mut self) -> f64 {
        let u1 = 1.0 - self.unit();
        let u2 = self.unit();
        (-2.0 * u1.ln()).sqrt() * (2.0 * core::f64::consts::PI * u2).cos()
    }
    /// log-uniform magnitude in [2^lo, 2^hi] with random sign
    pub fn logmag(&mut self, lo: f64, hi: f64) -> f64 {
        let e = self.range(lo, hi);
        let m = e.exp2();
        if self.bool() {
            m
        } else {
            -m
        }
    }
    pub fn int_in(&mut self, lo: i64, hi: i64) -> i64 {
        lo + self.below((hi - lo + 1) as u64) as i64
    }
    pub fn pick<'a, T>(&mut self, xs: &'a [T]) -> &'a T {
        &xs[self.idx(xs.len())]
    }
}
